"""C12 -- finite-element arrays: closed forms, contraction specifications,
reducer tables, broadcast table, FE-axis drop.  The run-time dispatch of
numpy's protocols on actual shapes is NOT decided."""

from __future__ import annotations

import ast

from fractions import Fraction

from ..alg import Poly, Q, Rat, is_zero
from ..repo import AnalysisError, dotted, norm_text, walk_no_nested
from ..xeval import Interp, XObj, XRaise, Uninterpretable
from ..xarray import XArray, einsum as x_einsum

LA = "EasyFEA.FEM._linalg"


def closed_forms(ctx):
    repo = ctx.repo
    r = ctx.rule("R12.1", "closed-form Det / Inv / Trace / Transpose / TensorProd equal the tensor operation at every (e, p) for symbolic entries", min_instances=8)
    I = Interp(repo)
    fdet, finv, ftr, ftp, ftens = (repo.func(f"{LA}.{n}") for n in ("Det", "Inv", "Trace", "Transpose", "TensorProd"))
    for n in (1, 2, 3):
        A = XArray((1, 1, n, n), [Poly.var(f"a{i}{j}") for i in range(n) for j in range(n)])
        # determinant (Leibniz)
        r.instance(fn=fdet.qualname)
        d = I.call_function(fdet, [A])
        d = d.data[0] if isinstance(d, XArray) else d
        import itertools

        want = Poly()
        for perm in itertools.permutations(range(n)):
            sgn = 1
            for i in range(n):
                for j in range(i + 1, n):
                    if perm[i] > perm[j]:
                        sgn = -sgn
            term = Poly.const(sgn)
            for i in range(n):
                term = term * A[0, 0, i, perm[i]]
            want = want + term
        if is_zero(d - want):
            r.ok(f"Det {n}x{n} == Leibniz determinant")
        else:
            r.fail(fdet.qualname, f"det{n}", fdet.file, fdet.lineno, "Det", f"{n}x{n}: closed form differs from the Leibniz determinant by {d - want!r}")
        # inverse: A @ Inv(A) == I
        r.instance(fn=finv.qualname)
        inv = XArray.from_nested(I.call_function(finv, [A]))
        bad = None
        if inv.shape != A.shape:
            bad = f"shape {inv.shape}"
        else:
            for i in range(n):
                for j in range(n):
                    tot = Rat.of(Poly())
                    for k in range(n):
                        tot = tot + Rat.of(A[0, 0, i, k]) * Rat.of(inv[0, 0, k, j])
                    if not is_zero(tot - (1 if i == j else 0)):
                        bad = f"(A . Inv(A))[{i},{j}]"
        if bad:
            r.fail(finv.qualname, f"inv{n}", finv.file, finv.lineno, "Inv", f"{n}x{n}: A . Inv(A) is not the identity as a rational identity in the entries ({bad})")
        else:
            r.ok(f"Inv {n}x{n}: A . Inv(A) == I identically")
        r.instance(fn=ftr.qualname)
        t = I.call_function(ftr, [A])
        t = t.data[0] if isinstance(t, XArray) else t
        if is_zero(t - sum((A[0, 0, i, i] for i in range(n)), Poly())):
            r.ok(f"Trace {n}x{n}")
        else:
            r.fail(ftr.qualname, f"trace{n}", ftr.file, ftr.lineno, "Trace", f"{n}x{n}: trace is {t!r}")
    # stacks of matrices with leading axes of the same size as the matrices (a plain (n, n, n) stack, and (2, 2, n, n))
    for n in (1, 2, 3):
        for lead in ((n,), (2, 2)):
            m = 1
            for x in lead:
                m *= x
            A = XArray(lead + (n, n), [Poly.var(f"a{k}_{i}{j}") for k in range(m) for i in range(n) for j in range(n)])
            Af = A.reshape((m, n, n))
            r.instance(fn=finv.qualname)
            bad = None
            try:
                inv = XArray.from_nested(I.call_function(finv, [A]))
                det = XArray.from_nested(I.call_function(fdet, [A]))
                tr = XArray.from_nested(I.call_function(ftr, [A]))
            except (XRaise, Uninterpretable) as e:
                bad = f"raises {e}"
            if bad is None and (inv.shape != A.shape or det.shape != lead or tr.shape != lead):
                bad = f"shapes Inv {inv.shape}, Det {det.shape}, Trace {tr.shape}"
            if bad is None:
                invf, detf, trf = inv.reshape((m, n, n)), det.reshape((m,)), tr.reshape((m,))
                for k in range(m):
                    if not is_zero(trf[k] - sum((Af[k, i, i] for i in range(n)), Poly())):
                        bad = f"Trace of matrix {k} of the stack"
                    for i in range(n):
                        for j in range(n):
                            tot = Rat.of(Poly())
                            for l in range(n):
                                tot = tot + Rat.of(Af[k, i, l]) * Rat.of(invf[k, l, j])
                            if not is_zero(tot - (1 if i == j else 0)):
                                bad = bad or f"(A . Inv(A))[{i},{j}] of matrix {k} of the stack is not the identity (the determinants are paired with the wrong axes)"
            if bad:
                r.fail(finv.qualname, f"stack{lead}x{n}", finv.file, finv.lineno, "Inv", f"stack of shape {lead + (n, n)}: {bad}")
            else:
                r.ok(f"Det / Inv / Trace on a {lead + (n, n)} stack")
    # transpose
    r.instance(fn=ftp.qualname)
    A = XArray((1, 1, 2, 3), [Poly.var(f"a{i}{j}") for i in range(2) for j in range(3)])
    T = XArray.from_nested(I.call_function(ftp, [A]))
    if T.shape == (1, 1, 3, 2) and all(T[0, 0, j, i] == A[0, 0, i, j] for i in range(2) for j in range(3)):
        r.ok("Transpose swaps the two tensor axes")
    else:
        r.fail(ftp.qualname, "transpose", ftp.file, ftp.lineno, "Transpose", "does not swap the last two axes")
    # tensor products (plain arrays)
    a = XArray((2,), [Poly.var("u0"), Poly.var("u1")])
    b = XArray((2,), [Poly.var("w0"), Poly.var("w1")])
    r.instance(fn=ftens.qualname)
    res = XArray.from_nested(I.call_function(ftens, [a, b]))
    if res.shape == (2, 2) and all(res[i, j] == a[i] * b[j] for i in range(2) for j in range(2)):
        r.ok("TensorProd vectors: a_i b_j")
    else:
        r.fail(ftens.qualname, "vec", ftens.file, ftens.lineno, "TensorProd", "vector product is not a_i b_j")
    A = XArray((2, 2), [Poly.var(f"A{i}{j}") for i in range(2) for j in range(2)])
    B = XArray((2, 2), [Poly.var(f"B{i}{j}") for i in range(2) for j in range(2)])
    for symm in (False, True):
        r.instance(fn=ftens.qualname)
        res = XArray.from_nested(I.call_function(ftens, [A, B], dict(symmetric=symm)))
        bad = None
        for i in range(2):
            for j in range(2):
                for k in range(2):
                    for l in range(2):
                        want = (A[i, k] * B[j, l] + A[i, l] * B[j, k]) / 2 if symm else A[i, j] * B[k, l]
                        if not is_zero(res[i, j, k, l] - want):
                            bad = (i, j, k, l)
        if bad:
            r.fail(ftens.qualname, f"mat{symm}", ftens.file, ftens.lineno, "TensorProd", f"symmetric={symm}: entry {bad} is not {'1/2 (A_ik B_jl + A_il B_jk)' if symm else 'A_ij B_kl'}")
        else:
            r.ok(f"TensorProd matrices symmetric={symm}")


def parse_spec(spec):
    ins, out = spec.replace(" ", "").split("->")
    return [s.replace("...", "") for s in ins.split(",")], out.replace("...", "")


def canon(ins, out):
    """rename indices in order of first appearance"""
    m = {}
    for s in ins + [out]:
        for ch in s:
            m.setdefault(ch, chr(ord("a") + len(m)))
    return tuple("".join(m[c] for c in s) for s in ins), "".join(m[c] for c in out)


def subscripts(ctx):
    repo = ctx.repo
    r = ctx.rule("R12.3", "generated subscripts: dot contracts the last index of A with the first of B, ddot the last two with the first two, keeping the other indices in order, for every pair of tensor ranks 1..4", min_instances=25)
    fe = repo.cls(f"{LA}.FeArray")
    I = Interp(repo)
    for name, k in (("_dot_subscript", 1), ("_ddot_subscript", 2)):
        f = fe.methods[name]
        for n1 in (1, 2, 3, 4):
            for n2 in (1, 2, 3, 4):
                if n1 < k or n2 < k:
                    continue
                r.instance(fn=f.qualname)
                try:
                    spec = I.call_function(f, [n1, n2])
                except XRaise as e:
                    r.fail(f.qualname, f"{n1},{n2}", f.file, f.lineno, name, f"({n1},{n2}) raises {e}")
                    continue
                try:
                    ins, out = parse_spec(spec)
                    got = canon(ins, out)
                except Exception:
                    got = None
                A = [chr(ord("a") + i) for i in range(n1)]
                B = A[n1 - k :] + [chr(ord("a") + n1 + i) for i in range(n2 - k)]
                want = canon(["".join(A), "".join(B)], "".join(A[: n1 - k] + B[k:]))
                lead_ok = spec.count("...") == 3
                if got == want and lead_ok:
                    r.ok(f"{name}({n1},{n2}) = '{spec}'")
                else:
                    r.fail(f.qualname, f"{n1},{n2}", f.file, f.lineno, name, f"({n1},{n2}) gives '{spec}', expected a contraction equivalent to '...{want[0][0]},...{want[0][1]}->...{want[1]}'")
    # (R12.2 - the literal einsum subscripts of __matmul__ matched against the text of its `if` tests - is retired: it lost its
    #  instances on a tuple-comparison rewrite, refactored/C12-R3; the products of every rank pair are decided by R12.7.)


def reducers(ctx):
    repo = ctx.repo
    r = ctx.rule("R12.4", "reducer tables agree: every wrapped reducing method has its np. function in _REDUCERS; _KeepsFeAxes treats negative axes relative to ndim", min_instances=12)
    mod = repo.module(LA)
    red = mod.assigns.get("_REDUCERS")
    names = {dotted(e).split(".")[-1] for e in ast.walk(red) if isinstance(e, ast.Attribute)} if red is not None else set()
    fe = repo.cls(f"{LA}.FeArray")
    wrapped = None
    for st in fe.node.body:
        if isinstance(st, ast.For) and isinstance(st.iter, ast.Tuple) and all(isinstance(e, ast.Constant) for e in st.iter.elts):
            wrapped = [e.value for e in st.iter.elts]
    if not wrapped or not names:
        raise AnalysisError("R12.4: reducer tables not found")
    alias = {"max": {"max", "amax"}, "min": {"min", "amin"}}
    for w in wrapped:
        if w == "ravel":
            continue
        r.instance(fn=f"{LA}.FeArray.{w}")
        if alias.get(w, {w}) <= names:
            r.ok(f"FeArray.{w} <-> np.{w} registered")
        else:
            r.fail(f"{LA}._REDUCERS", f"missing:{w}", mod.relpath, red.lineno, "_REDUCERS", f"method FeArray.{w} is wrapped but np.{w} is not in _REDUCERS: np.{w}(fe, axis=...) would keep the FeArray type after the (Ne, nPg) axes are consumed")
    f = repo.func(f"{LA}._KeepsFeAxes")
    I = Interp(repo)
    cases = [((None, 4), False), ((2, 4), True), ((1, 4), False), ((-1, 4), True), ((-2, 4), True), ((-3, 4), False), (((2, 3), 4), True), (((0, 3), 4), False), ((-1, 2), False)]
    for (axis, nd), want in cases:
        r.instance(fn=f.qualname)
        got = I.call_function(f, [axis, nd])
        if bool(got) == want:
            r.ok(f"_KeepsFeAxes({axis}, {nd}) = {want}")
        else:
            r.fail(f.qualname, f"axis:{axis},{nd}", f.file, f.lineno, "_KeepsFeAxes", f"_KeepsFeAxes({axis}, ndim={nd}) is {got}, expected {want}")

    # _FeShape: the (Ne, nPg) an operation runs at is the numpy broadcast of its FeArray operands' leading shapes
    from ..femchain import XFe
    from ..alg import Q as _Q

    g = repo.func(f"{LA}._FeShape")
    mk = lambda ne, npg, *t: XFe((ne, npg) + t, [_Q(0)] * (ne * npg * max(1, __import__("math").prod(t))))
    plain = XArray((2, 2), [_Q(0)] * 4)
    shape_cases = [
        ([mk(5, 1, 2), mk(1, 4, 2)], (5, 4)),
        ([mk(1, 4), mk(5, 1, 3, 3)], (5, 4)),
        ([mk(1, 1, 2), mk(5, 4, 2)], (5, 4)),
        ([mk(5, 4), mk(5, 4, 2, 2)], (5, 4)),
        ([mk(5, 1), mk(5, 4), mk(1, 1)], (5, 4)),
        ([plain, [mk(1, 3), (mk(2, 1, 2),)]], (2, 3)),
        ([plain, 1], ()),
    ]
    for ops, want in shape_cases:
        r.instance(fn=g.qualname)
        desc = ", ".join(str(getattr(o, "shape", "..")) for o in ops)
        got = I.call_function(g, [ops])
        if tuple(got) == want:
            r.ok(f"_FeShape({desc}) = {want}")
        else:
            r.fail(g.qualname, f"feshape:{desc}", g.file, g.lineno, "_FeShape", f"_FeShape of operands with shapes ({desc}) is {tuple(got)}, expected the broadcast {want}: a per-element field combined with a per-point field through a non-elementwise route comes back as a plain ndarray (or with the wrong leading shape) and is re-read as a constant tensor")


def broadcast_rule(ctx):
    repo = ctx.repo
    r = ctx.rule("R12.5", "tensor coefficients are broadcast with tensor_ndim=2 at every call site (disambiguates (Ne,n,n) from (Ne,nPg,n))", min_instances=6)
    tensor_names = {"C", "A", "S", "sqrtC", "sqrtS", "D", "c", "s"}
    n_sites = 0
    for f in repo.all_functions():
        for n in walk_no_nested(f.node):
            if isinstance(n, ast.Call) and (dotted(n.func) or "") == "FeArray.broadcast" and n.args:
                a0 = n.args[0]
                if isinstance(a0, ast.Name) and a0.id in tensor_names:
                    # only the matrix-valued uses: the target keeps the same name (C = FeArray.broadcast(C, ...))
                    r.instance(fn=f.qualname)
                    n_sites += 1
                    tn = next((k.value for k in n.keywords if k.arg == "tensor_ndim"), n.args[3] if len(n.args) > 3 else None)
                    if tn is not None and isinstance(tn, ast.Constant) and tn.value == 2:
                        r.ok(f"{f.qualname}: {norm_text(n)}")
                    else:
                        r.fail(f.qualname, f"broadcast:{a0.id}", f.file, n.lineno, f.name, f"matrix coefficient `{a0.id}` is broadcast without tensor_ndim=2: {norm_text(n)}")
    # (the decision table of FeArray.broadcast itself is decided by interpretation in R12.7)


def fe_axis_drop(ctx):
    """R12.6: a value produced as FeArray and subscripted with scalar indices in both
    leading positions must go through np.asarray before arithmetic."""
    repo = ctx.repo
    r = ctx.rule("R12.6", "FE-axis drop: `<FeArray>[e, p]` with two scalar leading indices is used in arithmetic only through np.asarray (otherwise its tensor axes are re-read as (Ne, nPg))", min_instances=1)
    fe_producers = ("Get_invF_e_pg", "Get_F_e_pg", "Get_dN_e_pg", "Get_B_e_pg", "Get_jacobian_e_pg", "Get_weightedJacobian_e_pg", "Get_leftDispPart_e_pg", "Get_ReactionPart_e_pg", "Get_DiffusePart_e_pg", "Get_SourcePart_e_pg", "Get_ddN_e_pg", "Get_GaussCoordinates_e_pg", "Get_normals_e_pg")
    for f in repo.all_functions():
        fevars = set()
        for n in ast.walk(f.node):
            if isinstance(n, ast.Assign) and isinstance(n.value, ast.Call) and isinstance(n.targets[0], ast.Name):
                d = dotted(n.value.func) or ""
                if d.split(".")[-1] in fe_producers or d in ("FeArray.asfearray", "FeArray.zeros", "FeArray.ones"):
                    fevars.add(n.targets[0].id)
        if not fevars:
            continue
        parents = {}
        for p in ast.walk(f.node):
            for c in ast.iter_child_nodes(p):
                parents[c] = p
        for n in ast.walk(f.node):
            if isinstance(n, ast.Subscript) and isinstance(n.value, ast.Name) and n.value.id in fevars and isinstance(n.ctx, ast.Load) and isinstance(n.slice, ast.Tuple) and len(n.slice.elts) == 2:
                e0, e1 = n.slice.elts
                loopnames = set()
                for lp in ast.walk(f.node):
                    if isinstance(lp, (ast.For, ast.comprehension)):
                        loopnames |= {x.id for x in ast.walk(lp.target) if isinstance(x, ast.Name)}
                scalar = lambda e: (isinstance(e, ast.Constant) and isinstance(e.value, int)) or (isinstance(e, ast.Name) and e.id in loopnames)
                if not (scalar(e0) and scalar(e1)):
                    continue
                # only loop indices / literals count as scalars: e must be a for-loop target or int constant
                r.instance(fn=f.qualname)
                p = parents.get(n)
                wrapped = isinstance(p, ast.Call) and (dotted(p.func) or "") in ("np.asarray", "np.array")
                in_arith = isinstance(p, ast.BinOp)
                if in_arith and not wrapped:
                    r.fail(f.qualname, f"fe-drop:{norm_text(n)}", f.file, n.lineno, f.name, f"`{norm_text(n)}` is still a FeArray view whose remaining axes are re-read as (Ne, nPg) in `{norm_text(p)}`: wrap it in np.asarray")
                else:
                    r.ok(f"{f.qualname}: {norm_text(p) if p is not None else norm_text(n)}")


def run(ctx):
    from . import e2e_rules as _e2e

    ctx.attempt(_e2e.heterogeneous_rule, ctx, 'R12.E1')
    from ..shared import shared_container_rule as _shared_container_rule

    ctx.attempt(_shared_container_rule, ctx, "R12.8", scope=lambda f, _s=("EasyFEA.FEM._linalg", "EasyFEA.FEM._field"): f.module.name.startswith(_s), min_instances=30)
    ctx.attempt(reflected_operator_rule, ctx)
    ctx.level = "other"
    ctx.explanation = (
        "The protocol overrides of FeArray are interpreted under a stated model of numpy's subclass protocols (sa/femodel.py) on symbolic arrays with Ne == nPg == dim collisions and compared, value and "
        "type, with the plain numpy operation at each (e, p) (R12.7, ~1000 obligations: operators for all rank pairs and leading shapes, array / list constants, contractions, reductions, "
        "constructors and the coefficient table). NOT decided: numpy functions outside the model's table (known finding F40). Also decided: the closed-form Det/Inv/Trace/Transpose/TensorProd are the tensor operation "
        "for symbolic entries (polynomial / rational identities); the generated and literal einsum subscripts are folded over their finite rank domain and compared with the "
        "contraction they are for; the reducer tables agree; matrix coefficients are broadcast with tensor_ndim=2 everywhere; a FeArray subscripted by two scalar leading indices "
        "is not used in arithmetic without np.asarray."
    )
    closed_forms(ctx)
    subscripts(ctx)
    reducers(ctx)
    broadcast_rule(ctx)
    fe_axis_drop(ctx)
    ctx.attempt(protocol_rule, ctx)
    ctx.attempt(matrix_function_rank_rule, ctx)


# ---------------------------------------------------------------------------
# R12.7  the protocol overrides, interpreted (sa/femodel.py) and compared with the per-point tensor operation
# ---------------------------------------------------------------------------


def _mk(tag, shape, fe=True, numeric=False):
    import itertools
    from ..femodel import FeV

    data = []
    for k, idx in enumerate(itertools.product(*[range(s) for s in shape])):
        data.append(Q(7 * k * k + 3 * k + 11, 13 + k) if numeric else Poly.var(f"{tag}{''.join(map(str, idx))}"))
    return (FeV if fe else XArray)(tuple(shape), data)


def _pt(a, e, p, fe):
    """tensor of operand `a` at element e, point p (a constant is itself)"""
    if not fe or not isinstance(a, XArray):
        return a
    ee = e if a.shape[0] > 1 else 0
    pp = p if a.shape[1] > 1 else 0
    return XArray.__getitem__(XArray(a.shape, a.data), (ee, pp))


def _lead(*ops):
    ne = npg = 1
    for a, fe in ops:
        if fe:
            ne, npg = max(ne, a.shape[0]), max(npg, a.shape[1])
    return ne, npg


def _stack(ne, npg, f):
    """assemble result[e, p] = f(e, p)"""
    items = [[f(e, p) for p in range(npg)] for e in range(ne)]
    first = items[0][0]
    if isinstance(first, XArray):
        return XArray((ne, npg) + first.shape, [x for row in items for t in row for x in t.data])
    return XArray((ne, npg), [t for row in items for t in row])


def _same(got, want):
    if not isinstance(got, XArray) or got.shape != want.shape:
        return f"shape {getattr(got, 'shape', type(got).__name__)}, expected {want.shape}"
    for k, (x, y) in enumerate(zip(got.data, want.data)):
        d = x - y
        if not is_zero(d if not isinstance(d, bool) else 0):
            return f"entry #{k}: {x!r}, expected {y!r}"
    return None


def _rat_data(a):
    """entries as rational functions so that quotients compare by cross-multiplication"""
    return XArray(a.shape, [Rat.of(x) if isinstance(x, Poly) else x for x in a.data])


def _broadcast_1d_table(r, M, anchor):
    """value table of the 1-D forms of FeArray.broadcast: (Ne,) is one value per element, (nPg,) one value per integration
    point; the heterogeneous parameters of the models are documented as (Ne,) or (Ne, nPg), so on the coincidence
    Ne == nPg a 1-D array is per element (the same precedence as the tensor_ndim branch, which knows (), (Ne,), (Ne, nPg))"""
    for (ne, npg, n, which) in ((3, 2, 3, "e"), (3, 2, 2, "p"), (3, 3, 3, "e")):
        r.instance(fn=anchor.qualname)
        arr = _mk("z", (n,), fe=False)
        try:
            got = M.static("broadcast", arr, ne, npg)
        except XRaise as e:
            r.fail(f"{LA}.FeArray", f"bc:1d:{ne}x{npg}:{n}", anchor.file, anchor.lineno, "FeArray.broadcast", f"1-D coefficient of length {n} with (Ne, nPg) = ({ne}, {npg}): raises {e}")
            continue
        okv = isinstance(got, XArray) and got.shape == (ne, npg) and all(got[e, p] == arr[e if which == "e" else p] for e in range(ne) for p in range(npg))
        if okv:
            r.ok(f"broadcast 1-D length {n}, (Ne, nPg) = ({ne}, {npg}): entry (e, p) is value[{which}]")
        else:
            r.fail(f"{LA}.FeArray", f"bc:1d:{ne}x{npg}:{n}", anchor.file, anchor.lineno, "FeArray.broadcast", f"1-D coefficient of length {n} with (Ne, nPg) = ({ne}, {npg}): entry (e, p) is not value[{'e' if which == 'e' else 'p'}]" + (": on the coincidence Ne == nPg a per-element coefficient (the documented 1-D form of rho, c, k, E ...) is spread over the integration points of every element (mass and capacity no longer carry sum rho_e V_e)" if ne == npg else ""))


def coefficient_table_rule(ctx, rid):
    """shared with C02 ('entries sum to density x measure'): the 1-D coefficient table of FeArray.broadcast"""
    from ..femodel import Model

    r = ctx.rule(rid, "FeArray.broadcast of a 1-D coefficient: (Ne,) -> one value per element, (nPg,) -> one per integration point, per element on the coincidence Ne == nPg", min_instances=3)
    M = Model(ctx.repo)
    _broadcast_1d_table(r, M, M.method("broadcast"))


def protocol_rule(ctx):
    from ..femodel import Model, FeV, plain
    from ..xeval import _NpAttr
    from ..xarray import einsum as xe, matmul as x_matmul

    repo = ctx.repo
    r = ctx.rule(
        "R12.7",
        "protocol overrides interpreted under the numpy subclass-protocol model: every operator / contraction / transpose / reduction on finite-element arrays equals the "
        "plain numpy operation on the tensors at each (e, p), constants held at every point; the result is a FeArray exactly when the (Ne, nPg) axes survive",
        min_instances=150,
    )
    M = Model(repo)
    FE = M.cls
    for nm in ("__array_ufunc__", "__array_function__", "_align", "__wrap", "T", "__matmul__", "dot", "ddot", "reshape", "integrate", "asfearray", "broadcast", "__new__"):
        f = M.method(nm)
        if f is None:
            raise AnalysisError(f"R12.7: FeArray.{nm} not found")
        r.analysed(f.qualname)
    for nm in ("_Base", "_Evaluate", "_FeShape", "_KeepsFeAxes"):
        r.analysed(repo.func(f"{LA}.{nm}").qualname)
    anchor = M.method("__array_ufunc__")

    def run(desc, thunk, want, want_fe, key):
        r.instance()
        try:
            got = thunk()
        except XRaise as e:
            r.fail(f"{LA}.FeArray", key, anchor.file, anchor.lineno, "FeArray", f"{desc}: raises {e}")
            return
        if not isinstance(want, XArray) and isinstance(got, XArray) and got.size == 1:
            got = got.data[0]
        bad = _same(_rat_data(got) if isinstance(got, XArray) else got, _rat_data(want)) if isinstance(want, XArray) else (None if is_zero(got - want) else f"value {got!r}, expected {want!r}")
        if bad is None and isinstance(want, XArray):
            is_fe = isinstance(got, FeV)
            if is_fe != want_fe:
                bad = f"result type is {'FeArray' if is_fe else 'ndarray'}, expected {'FeArray' if want_fe else 'ndarray'}"
        if bad:
            r.fail(f"{LA}.FeArray", key, anchor.file, anchor.lineno, "FeArray", f"{desc}: {bad}")
        else:
            r.ok(desc)

    OPS = {"+": lambda x, y: x + y, "-": lambda x, y: x - y, "*": lambda x, y: x * y, "/": lambda x, y: x / y}

    def pointwise(f, A, afe, B, bfe):
        ne, npg = _lead((A, afe), (B, bfe))

        def at(e, p):
            x, y = _pt(A, e, p, afe), _pt(B, e, p, bfe)
            if isinstance(x, XArray):
                return XArray._binop(_rat_data(x), _rat_data(y) if isinstance(y, XArray) else y, f)
            if isinstance(y, XArray):
                return XArray._binop(_rat_data(y), x, f, True)
            return f(Rat.of(x) if isinstance(x, Poly) else x, Rat.of(y) if isinstance(y, Poly) else y)

        return _stack(ne, npg, at)

    # ---- elementwise arithmetic: field-field (all rank pairs, leading-shape variants), field-constant, constant-field
    for ne, npg in ((2, 2), (3, 2)):
        d = 2
        tens = {0: (), 1: (d,), 2: (d, d)}
        for ra in (0, 1, 2):
            for rb in (0, 1, 2):
                for lead_b in ((ne, npg), (ne, 1), (1, npg), (1, 1)):
                    if (ne, npg) == (3, 2) and lead_b != (ne, npg) and (ra, rb) not in ((0, 2), (2, 1), (1, 1)):
                        continue
                    A = _mk("a", (ne, npg) + tens[ra])
                    B = _mk("b", lead_b + tens[rb])
                    for sym, f in OPS.items():
                        if sym in ("-", "/") or (ra, rb) in ((1, 2), (2, 1), (0, 2)):
                            run(f"field{A.shape} {sym} field{B.shape}", lambda A=A, B=B, f=f: f(A, B), pointwise(f, A, True, B, True), True, f"ew:{sym}:fe{ra}{A.shape[:2]}:fe{rb}{B.shape[:2]}")
                            run(f"field{B.shape} {sym} field{A.shape}", lambda A=A, B=B, f=f: f(B, A), pointwise(f, B, True, A, True), True, f"ew:{sym}:fe{rb}{B.shape[:2]}:fe{ra}{A.shape[:2]}")
            # constants: scalar, vector, matrix (plain arrays are constant tensors whatever Ne, nPg are)
            A = _mk("a", (ne, npg) + tens[ra])
            for rc in (0, 1, 2):
                C = Q(5, 3) if rc == 0 else _mk("c", tens[rc], fe=False)
                for sym, f in OPS.items():
                    run(f"field{A.shape} {sym} constant{getattr(C, 'shape', ())}", lambda A=A, C=C, f=f: f(A, C), pointwise(f, A, True, C, False), True, f"ew:{sym}:fe{ra}{A.shape[:2]}:c{rc}")
                    run(f"constant{getattr(C, 'shape', ())} {sym} field{A.shape}", lambda A=A, C=C, f=f: f(C, A), pointwise(f, C, False, A, True), True, f"ew:{sym}:c{rc}:fe{ra}{A.shape[:2]}")

    # constants written as python lists / nested lists (a plain sequence is a constant tensor of ITS rank, as the array of it)
    for ne, npg in ((2, 2), (3, 2)):
        d = 2
        tens = {0: (), 1: (d,), 2: (d, d)}
        for ra in (0, 1, 2):
            A = _mk("a", (ne, npg) + tens[ra])
            for rc in (1, 2):
                C = _mk("c", tens[rc], fe=False)
                L = C.tolist()
                for sym in ("*", "+"):
                    f = OPS[sym]
                    run(f"field{A.shape} {sym} list constant of shape {C.shape}", lambda A=A, L=L, f=f: f(A, L), pointwise(f, A, True, C, False), True, f"ew:{sym}:fe{ra}{A.shape[:2]}:list{rc}")
                    if not (sym == "+" and ra == 0 and False):
                        run(f"np.{'multiply' if sym == '*' else 'add'}(list constant of shape {C.shape}, field{A.shape})", lambda A=A, L=L, sym=sym: M.ufunc_call("multiply" if sym == "*" else "add", [L, A]), pointwise(f, C, False, A, True), True, f"ew:{sym}:list{rc}:fe{ra}{A.shape[:2]}")

    # ---- matmul, dot, ddot, transpose
    def contract(A, afe, B, bfe, k):
        ne, npg = _lead((A, afe), (B, bfe))
        letters = "abcdefgh"

        def at(e, p):
            x, y = _pt(A, e, p, afe), _pt(B, e, p, bfe)
            ra, rb = x.ndim, y.ndim
            ia = letters[:ra]
            ib = ia[ra - k:] + letters[ra: ra + rb - k]
            out = ia[: ra - k] + ib[k:]
            res = xe(f"{ia},{ib}->{out}", x, y)
            return res

        return _stack(ne, npg, at)

    for ne, npg in ((2, 2), (3, 2)):
        d = 2
        T1, T2, T4 = (d,), (d, d), (d, d, d, d)
        v, w = _mk("v", (ne, npg) + T1), _mk("w", (ne, npg) + T1)
        m, n_ = _mk("m", (ne, npg) + T2), _mk("n", (ne, npg) + T2)
        c4 = _mk("q", (ne, npg) + T4)
        cv, cm = _mk("c", T1, fe=False), _mk("k", T2, fe=False)
        L = f"{ne}x{npg}"
        # @
        run(f"[{L}] matrix field @ matrix field", lambda: m @ n_, contract(m, True, n_, True, 1), True, f"matmul:22:{L}")
        run(f"[{L}] matrix field @ vector field", lambda: m @ v, contract(m, True, v, True, 1), True, f"matmul:21:{L}")
        run(f"[{L}] vector field @ matrix field", lambda: v @ m, contract(v, True, m, True, 1), True, f"matmul:12:{L}")
        run(f"[{L}] vector field @ vector field", lambda: v @ w, contract(v, True, w, True, 1), True, f"matmul:11:{L}")
        run(f"[{L}] matrix field @ constant matrix", lambda: m @ cm, contract(m, True, cm, False, 1), True, f"matmul:2c2:{L}")
        run(f"[{L}] matrix field @ constant vector", lambda: m @ cv, contract(m, True, cv, False, 1), True, f"matmul:2c1:{L}")
        run(f"[{L}] vector field @ constant matrix", lambda: v @ cm, contract(v, True, cm, False, 1), True, f"matmul:1c2:{L}")
        run(f"[{L}] constant matrix @ matrix field", lambda: cm @ m, contract(cm, False, m, True, 1), True, f"matmul:c22:{L}")
        run(f"[{L}] constant matrix @ vector field", lambda: cm @ v, contract(cm, False, v, True, 1), True, f"matmul:c21:{L}")
        run(f"[{L}] constant vector @ matrix field", lambda: cv @ m, contract(cv, False, m, True, 1), True, f"matmul:c12:{L}")
        run(f"[{L}] constant vector @ vector field", lambda: cv @ v, contract(cv, False, v, True, 1), True, f"matmul:c11:{L}")
        # complex-valued fields (forms may be complex): the products are plain contractions, nothing is conjugated
        from ..xeval import IMAG as _I
        from ..femodel import FeV as _FeV

        vc = _FeV(v.shape, [a + _I * b for a, b in zip(v.data, _mk("vi", v.shape).data)])
        mc = _FeV(m.shape, [a + _I * b for a, b in zip(m.data, _mk("mi", m.shape).data)])
        run(f"[{L}] complex vector field @ vector field", lambda: vc @ w, contract(vc, True, w, True, 1), True, f"matmul:11c:{L}")
        run(f"[{L}] complex vector field @ complex vector field", lambda: vc @ vc, contract(vc, True, vc, True, 1), True, f"matmul:11cc:{L}")
        run(f"[{L}] complex vector field @ constant vector", lambda: vc @ cv, contract(vc, True, cv, False, 1), True, f"matmul:1c1c:{L}")
        run(f"[{L}] complex matrix field @ complex vector field", lambda: mc @ vc, contract(mc, True, vc, True, 1), True, f"matmul:21cc:{L}")
        run(f"[{L}] complex vector field .dot(vector field)", lambda: M.attr_hook(vc, "dot")(w), contract(vc, True, w, True, 1), True, f"dot:11c:{L}")
        # every rank pair of dot / ddot, second operand a field or a constant tensor
        T_by_rank = {1: T1, 2: T2, 3: (d, d, d), 4: T4}
        for ra in (1, 2, 3, 4):
            for rb in (1, 2, 3, 4):
                x = _mk("x", (ne, npg) + T_by_rank[ra])
                for fe_b in (True, False):
                    y = _mk("y", ((ne, npg) if fe_b else ()) + T_by_rank[rb], fe=fe_b)
                    yn = f"{'field' if fe_b else 'constant'} rank {rb}"
                    run(f"[{L}] (field rank {ra}).dot({yn})", lambda x=x, y=y: M.attr_hook(x, "dot")(y), contract(x, True, y, fe_b, 1), True, f"dot:r{ra}:{'f' if fe_b else 'c'}{rb}:{L}")
                    if ra >= 2 and rb >= 2:
                        run(f"[{L}] (field rank {ra}).ddot({yn})", lambda x=x, y=y: M.attr_hook(x, "ddot")(y), contract(x, True, y, fe_b, 2), True, f"ddot:r{ra}:{'f' if fe_b else 'c'}{rb}:{L}")
        # dot / ddot through the methods
        for (x, xn), (y, yn, yfe) in (((v, "vector"), (w, "vector", True)), ((m, "matrix"), (v, "vector", True)), ((m, "matrix"), (n_, "matrix", True)), ((c4, "4th-order"), (m, "matrix", True)), ((v, "vector"), (cm, "constant matrix", False)), ((m, "matrix"), (cv, "constant vector", False))):
            run(f"[{L}] {xn}.dot({yn})", lambda x=x, y=y: M.attr_hook(x, "dot")(y), contract(x, True, y, yfe, 1), True, f"dot:{xn}:{yn}:{L}")
        for (x, xn), (y, yn, yfe) in (((m, "matrix"), (n_, "matrix", True)), ((c4, "4th-order"), (m, "matrix", True)), ((m, "matrix"), (c4, "4th-order", True)), ((c4, "4th-order"), (c4, "4th-order", True)), ((m, "matrix"), (cm, "constant matrix", False)), ((c4, "4th-order"), (cm, "constant matrix", False))):
            run(f"[{L}] {xn}.ddot({yn})", lambda x=x, y=y: M.attr_hook(x, "ddot")(y), contract(x, True, y, yfe, 2), True, f"ddot:{xn}:{yn}:{L}")
        # fields with a broadcast leading shape in contractions
        m1 = _mk("m", (ne, 1) + T2)
        v1 = _mk("v", (1, npg) + T1)
        run(f"[{L}] per-element matrix @ per-point vector", lambda: m1 @ v1, contract(m1, True, v1, True, 1), True, f"matmul:21b:{L}")
        run(f"[{L}] per-element matrix .dot per-point vector", lambda: M.attr_hook(m1, "dot")(v1), contract(m1, True, v1, True, 1), True, f"dot:21b:{L}")
        # transpose
        for x, xn in ((m, "matrix"), (c4, "4th-order"), (v, "vector"), (_mk("s", (ne, npg)), "scalar"), (_mk("r", (ne, npg, 2, 3)), "2x3 matrix"), (_mk("t", (ne, npg, 2, 3, 2)), "3rd-order"), (_mk("z", (ne, npg, 3, 2, 2)), "3rd-order (3, 2, 2)")):
            def tr(e, p, x=x):
                t = _pt(x, e, p, True)
                return t.transpose() if isinstance(t, XArray) and t.ndim >= 2 else t

            run(f"[{L}] {xn}.T", lambda x=x: M.attr_hook(x, "T"), _stack(ne, npg, tr), True, f"T:{xn}:{L}")

    # ---- reductions, reshape, integrate: value and type
    from ..femodel import reduce_plain, _UF

    for shape in ((2, 2, 2, 2), (3, 2, 2), (2, 2)):
        X = _mk("x", shape)
        Xn = _mk("x", shape, numeric=True)
        nd = len(shape)
        axes = [None] + list(range(nd)) + [-1, -2] + ([(2, 3), (0, 2), (-1, -2)] if nd == 4 else []) + ([(0, 1)] if nd >= 2 else [])
        for name, ufn in (("sum", "add"), ("prod", "multiply"), ("max", "maximum"), ("min", "minimum"), ("mean", None)):
            arr = Xn if name in ("max", "min") else X
            for ax in axes:
                if isinstance(ax, tuple) and any(a >= nd or a < -nd for a in ax):
                    continue
                pl = XArray(arr.shape, arr.data)
                if name == "mean":
                    tot = reduce_plain(pl, _UF["add"], ax)
                    axs = tuple(range(nd)) if ax is None else (ax if isinstance(ax, tuple) else (ax,))
                    cnt = 1
                    for a in axs:
                        cnt *= shape[a % nd]
                    want = tot * Q(1, cnt)
                else:
                    want = reduce_plain(pl, _UF[ufn], ax)
                axs = () if ax is None else (ax if isinstance(ax, tuple) else (ax,))
                keeps = ax is not None and all((a % nd) >= 2 for a in axs) and isinstance(want, XArray) and want.ndim >= 2
                for route in ("method", "np"):
                    if route == "np" and name == "prod":
                        continue
                    if route == "method":
                        th = lambda arr=arr, name=name, ax=ax: M.attr_hook(arr, name)(axis=ax)
                    else:
                        th = lambda arr=arr, name=name, ax=ax: M.call_hook(__import__("sa.xeval", fromlist=["_NpAttr"])._NpAttr(name), [arr], {"axis": ax})
                    run(f"{'FeArray.' if route == 'method' else 'np.'}{name}(field{shape}, axis={ax})", th, want, keeps, f"red:{route}:{name}:{shape}:{ax}")
        run(f"field{shape}.integrate()", lambda X=X: M.attr_hook(X, "integrate")(), reduce_plain(XArray(X.shape, X.data), _UF["add"], 1), False, f"integrate:{shape}")
    # a mask FIELD passed as where= selects points like an operand (Ne == nPg == dim collision); the untouched entries keep `out`
    for (ne, npg, d) in ((2, 2, 2), (3, 2, 2)):
        Mf = _mk("m", (ne, npg, d, d))
        Of = _mk("o", (ne, npg, d, d))
        msk = FeV((ne, npg), [bool((e + 2 * p) % 3 != 1) for e in range(ne) for p in range(npg)])
        want = XArray(Of.shape, [(Mf[e, p, i, j] * 2 if msk[e, p] else Of[e, p, i, j]) for e in range(ne) for p in range(npg) for i in range(d) for j in range(d)])
        run(f"np.multiply(field{Mf.shape}, 2, out=field, where=mask field{msk.shape})", lambda Mf=Mf, Of=Of, msk=msk: M.ufunc_call("multiply", (Mf, Q(2)), out=(FeV(Of.shape, list(Of.data)),), where=msk), want, True, f"where:mask-field:{(ne, npg, d)}")
        # the constant FIRST (1 / field, 2 * field): the mask is a field of points whatever the order and the rank of the operands
        run(f"np.multiply(2, field{Mf.shape}, out=field, where=mask field{msk.shape})", lambda Mf=Mf, Of=Of, msk=msk: M.ufunc_call("multiply", (Q(2), Mf), out=(FeV(Of.shape, list(Of.data)),), where=msk), want, True, f"where:mask-field:const-first:{(ne, npg, d)}")
        cv2 = XArray((d,), [Q(3), Q(5)])
        want_v = XArray(Of.shape, [(cv2[j] * Mf[e, p, i, j] if msk[e, p] else Of[e, p, i, j]) for e in range(ne) for p in range(npg) for i in range(d) for j in range(d)])
        run(f"np.multiply(constant vector, field{Mf.shape}, out=field, where=mask field{msk.shape})", lambda Mf=Mf, Of=Of, msk=msk, cv2=cv2: M.ufunc_call("multiply", (cv2, Mf), out=(FeV(Of.shape, list(Of.data)),), where=msk), want_v, True, f"where:mask-field:vector-first:{(ne, npg, d)}")
    # a ufunc with two outputs on two fields of the same shape
    Ai = FeV((2, 2, 2), [Q(7 + 3 * k) for k in range(8)])
    Bi = FeV((2, 2, 2), [Q(2 + (k % 3)) for k in range(8)])
    r.instance()
    try:
        qr = M.ufunc_call("divmod", (Ai, Bi))
        okq = isinstance(qr, tuple) and len(qr) == 2 and all(isinstance(x, FeV) and x.shape == (2, 2, 2) for x in qr) and all(qr[0].data[k] == Ai.data[k] // Bi.data[k] and qr[1].data[k] == Ai.data[k] % Bi.data[k] for k in range(8))
        if okq:
            r.ok("np.divmod(field, field): (quotient, remainder) fields")
        else:
            r.fail(f"{LA}.FeArray", "divmod:two-outputs", anchor.file, anchor.lineno, "FeArray", f"np.divmod(field(2,2,2), field(2,2,2)) gives {qr!r}, expected the pair of (quotient, remainder) fields")
    except XRaise as e:
        r.fail(f"{LA}.FeArray", "divmod:two-outputs", anchor.file, anchor.lineno, "FeArray", f"np.divmod(field(2,2,2), field(2,2,2)): raises {e} (a ufunc with two outputs returns a tuple; the same-shape fast path treats it as one array)")
    # the variance METHOD: numpy computes it by arithmetic on the array as given (numpy/_core/_methods.py::_var: mean with
    # keepdims, arr - mean, square, sum) -- on a subclass that arithmetic is dispatched back to the subclass
    def plain_var(pl, ax):
        nd = pl.ndim
        axs = tuple(range(nd)) if ax is None else (ax if isinstance(ax, tuple) else (ax,))
        cnt = 1
        for a in axs:
            cnt *= pl.shape[a % nd]
        mean = UFuncM("add", _UF["add"]).reduce(pl, axis=ax, keepdims=True)
        mean = XArray(mean.shape, [x * Q(1, cnt) for x in mean.data]) if isinstance(mean, XArray) else mean * Q(1, cnt)
        d = XArray._binop(pl, mean, _UF["subtract"])
        sq = XArray(d.shape, [x * x for x in d.data])
        tot = reduce_plain(sq, _UF["add"], ax)
        return XArray(tot.shape, [x * Q(1, cnt) for x in tot.data]) if isinstance(tot, XArray) else tot * Q(1, cnt)

    from ..femodel import UFunc as UFuncM

    for shape in ((3, 2, 2), (2, 2, 2)):
        arr = _mk("q", shape, numeric=True)
        for ax in (0, 1, 2, (0, 1), None):
            pl = XArray(arr.shape, arr.data)
            want = plain_var(pl, ax)
            axs = () if ax is None else (ax if isinstance(ax, tuple) else (ax,))
            keeps = ax is not None and all((a % 3) >= 2 for a in axs) and isinstance(want, XArray) and want.ndim >= 2
            run(f"FeArray.var(field{shape}, axis={ax})", lambda arr=arr, ax=ax: M.attr_hook(arr, "var")(axis=ax), want, keeps, f"red:method:var:{shape}:{ax}")
    X = _mk("x", (2, 2, 2, 2))
    for new, keeps in (((2, 2, 4), True), ((2, 2, 4, 1), True), ((4, 4), False), ((2, 8), False), ((-1,), False), ((2, 2, -1), True)):
        want = XArray(X.shape, X.data).reshape(*new)
        run(f"field(2,2,2,2).reshape{new}", lambda new=new: M.attr_hook(X, "reshape")(*new), want, keeps, f"reshape:{new}")
    # np.einsum on fields keeps the field type and is the plain contraction
    A, B = _mk("a", (3, 2, 2, 2)), _mk("b", (3, 2, 2, 2))

    run("np.einsum('...ij,...jk->...ik', field, field)", lambda: M.call_hook(_NpAttr("einsum"), ["...ij,...jk->...ik", A, B], {}), xe("...ij,...jk->...ik", XArray(A.shape, A.data), XArray(B.shape, B.data)), True, "einsum:keep")
    # a reduction over the element axis reached through the ufunc protocol itself (np.add.reduce): the result has lost
    # the (Ne, nPg) axes even when its shape happens to start with (Ne, nPg)
    Vc = _mk("v", (2, 2, 2))
    run("np.add.reduce(field(2,2,2), axis=0) with Ne == nPg == dim", lambda: M.ufunc_call("add", (Vc,), method="reduce", axis=0), reduce_plain(XArray(Vc.shape, Vc.data), _UF["add"], 0), False, "coincidence:add.reduce")
    Mc = _mk("m", (2, 2, 2, 2))
    wanttr = XArray.__getitem__(XArray(Mc.shape, Mc.data), (0, 0)) + XArray.__getitem__(XArray(Mc.shape, Mc.data), (1, 1))
    run("np.trace(field(2,2,2,2)) (sums over the element and Gauss-point axes) with Ne == nPg == dim", lambda: M.call_hook(_NpAttr("trace"), [Mc], {}), wanttr, False, "coincidence:np.trace")
    # a second field handed over by keyword is stripped like the positional one
    Wt = _mk("w", (3, 2, 2, 2))
    wantavg = None
    try:
        num = reduce_plain(XArray._binop(XArray(A.shape, A.data), XArray(Wt.shape, Wt.data), lambda x, y: x * y), _UF["add"], -1)
        den = reduce_plain(XArray(Wt.shape, Wt.data), _UF["add"], -1)
        wantavg = XArray._binop(_rat_data(num), _rat_data(den), lambda x, y: x / y)
    except Exception:
        wantavg = None
    if wantavg is not None:
        run("np.average(field, axis=-1, weights=field)", lambda: M.call_hook(_NpAttr("average"), [A], {"axis": -1, "weights": Wt}), wantavg, True, "kwarg-field:average")
    lo, hi = _mk("l", (3, 2, 2, 2), numeric=True), _mk("h", (3, 2, 2, 2), numeric=True)
    An = _mk("a", (3, 2, 2, 2), numeric=True)
    mx, mn = _UF["maximum"], _UF["minimum"]
    wantclip = XArray._binop(XArray._binop(XArray(An.shape, An.data), XArray(lo.shape, lo.data), mx), XArray(hi.shape, hi.data), mn)
    run("np.clip(field, a_min=field, a_max=field)", lambda: M.call_hook(_NpAttr("clip"), [An], {"a_min": lo, "a_max": hi}), wantclip, True, "kwarg-field:clip")
    A3 = _mk("a", (3, 2, 3, 3))
    run("np.einsum('epij->eij', field(3,2,3,3)) (sums the Gauss-point axis)", lambda: M.call_hook(_NpAttr("einsum"), ["epij->eij", A3], {}), xe("epij->eij", XArray(A3.shape, A3.data)), False, "einsum:drop-gauss-axis")
    run("np.einsum('epij,epij->e', field, field)", lambda: M.call_hook(_NpAttr("einsum"), ["epij,epij->e", A, B], {}), xe("epij,epij->e", XArray(A.shape, A.data), XArray(B.shape, B.data)), False, "einsum:drop")

    # ---- constructors: asfearray / broadcast decision table
    def ctor(desc, thunk, want_shape, key, want_raise=False):
        r.instance()
        try:
            got = thunk()
        except XRaise as e:
            if want_raise:
                r.ok(f"{desc}: refused ({e.exc_name})")
            else:
                r.fail(f"{LA}.FeArray", key, anchor.file, anchor.lineno, "FeArray", f"{desc}: raises {e}")
            return
        if want_raise:
            r.fail(f"{LA}.FeArray", key, anchor.file, anchor.lineno, "FeArray", f"{desc}: accepted (shape {getattr(got, 'shape', None)}), must be refused")
        elif not isinstance(got, FeV) or got.shape != want_shape:
            r.fail(f"{LA}.FeArray", key, anchor.file, anchor.lineno, "FeArray", f"{desc}: gives {type(got).__name__}{getattr(got, 'shape', '')}, expected FeArray{want_shape}")
        else:
            r.ok(f"{desc} -> FeArray{want_shape}")

    Ne, nPg = 3, 3  # deliberately equal to the tensor dimension
    Tn = (3, 3)
    ctor("asfearray of a 1-D array", lambda: M.static("asfearray", _mk("z", (3,), fe=False)), None, "asfe:1d", want_raise=True)
    ctor("asfearray((3,3,3)) views the array", lambda: M.static("asfearray", _mk("z", (3, 3, 3), fe=False)), (3, 3, 3), "asfe:view")
    ctor("asfearray(matrix, broadcastFeArrays=True)", lambda: M.static("asfearray", _mk("z", (3, 3), fe=False), True), (1, 1, 3, 3), "asfe:bc")
    for lead, name in (((), "homogeneous"), ((Ne,), "per-element"), ((Ne, nPg), "per-point")):
        arr = _mk("z", lead + Tn, fe=False)
        ctor(f"broadcast({name} tensor{arr.shape}, Ne=nPg=3, tensor_ndim=2)", lambda arr=arr: M.static("broadcast", arr, Ne, nPg, tensor_ndim=2), (Ne, nPg) + Tn, f"bc:t2:{name}")
        # value check: the (e, p) entry is the input's (e), (e, p) or () entry
        r.instance()
        try:
            got = M.static("broadcast", arr, Ne, nPg, tensor_ndim=2)
        except XRaise:
            got = None
        if not isinstance(got, XArray) or got.shape != (Ne, nPg) + Tn:
            r.fail(f"{LA}.FeArray", f"bc:value:{name}", anchor.file, anchor.lineno, "FeArray.broadcast", f"{name} tensor: not broadcast to (Ne, nPg) + tensor shape")
            continue
        okv = True
        for e in range(Ne):
            for p in range(nPg):
                src = XArray.__getitem__(arr, ((e,) if lead == (Ne,) else (e, p) if lead else ()) + (1, 2)) if lead else arr[1, 2]
                if got[e, p, 1, 2] != src:
                    okv = False
        if okv:
            r.ok(f"broadcast {name}: entry (e, p) comes from the input's {'(e)' if lead == (Ne,) else '(e, p)' if lead else 'only'} entry")
        else:
            r.fail(f"{LA}.FeArray", f"bc:value:{name}", anchor.file, anchor.lineno, "FeArray.broadcast", f"{name} tensor: entries are not held at the right (e, p)")
    ctor("broadcast(tensor with leading (nPg,)=(2,) and Ne=3, tensor_ndim=2)", lambda: M.static("broadcast", _mk("z", (2, 3, 3), fe=False), 3, 2, tensor_ndim=2), None, "bc:t2:bad", want_raise=True)
    ctor("broadcast(per-element scalars (Ne,), Ne=3, nPg=2)", lambda: M.static("broadcast", _mk("z", (3,), fe=False), 3, 2), (3, 2), "bc:s:Ne")
    ctor("broadcast(per-point scalars (nPg,), Ne=3, nPg=2)", lambda: M.static("broadcast", _mk("z", (2,), fe=False), 3, 2), (3, 2), "bc:s:nPg")
    ctor("broadcast(full field (Ne, nPg, 2))", lambda: M.static("broadcast", _mk("z", (3, 2, 2), fe=False), 3, 2), (3, 2, 2), "bc:s:full")
    _broadcast_1d_table(r, M, anchor)
    r.instance()
    got = M.static("broadcast", Q(3, 2), 3, 2)
    if isinstance(got, (Fraction, float, int)):
        r.ok("broadcast(scalar) stays a scalar")
    else:
        r.fail(f"{LA}.FeArray", "bc:scalar", anchor.file, anchor.lineno, "FeArray.broadcast", "a scalar coefficient is not returned as a scalar")


def matrix_function_rank_rule(ctx):
    """R12.9: 'irrespective of coincidences': Transpose / Trace / Det / Inv handed a finite-element array that is NOT a
    matrix field (a scalar field (Ne, nPg) with Ne == nPg, a vector field (Ne, nPg, n) with nPg == n) never treat the
    element / integration-point axes as tensor axes: the call is rejected, or (Transpose) returns the field unchanged,
    which is the per-point transpose of a scalar or a vector.  Interpreted under the protocol model."""
    from ..femodel import Model, FeV

    repo = ctx.repo
    r = ctx.rule("R12.9", "Transpose / Trace / Det / Inv on a scalar or vector finite-element array (Ne == nPg == n) do not read the (Ne, nPg) axes as matrix axes: rejected, or the field itself for Transpose", min_instances=8)
    M = Model(repo)
    fields = {
        "scalar field (2, 2)": FeV((2, 2), [Poly.var(f"s{e}{p}") for e in range(2) for p in range(2)]),
        "vector field (2, 2, 2)": FeV((2, 2, 2), [Poly.var(f"v{e}{p}{i}") for e in range(2) for p in range(2) for i in range(2)]),
    }
    for fname in ("Transpose", "Trace", "Det", "Inv"):
        f = repo.func(f"{LA}.{fname}")
        for label, fe in fields.items():
            r.instance(fn=f.qualname)
            try:
                out = M.I.call_function(f, [fe.copy()])
            except XRaise:
                r.ok(f"{fname}({label}) is rejected")
                continue
            same = isinstance(out, XArray) and out.shape == fe.shape and all(is_zero(Poly.of(a) - Poly.of(b)) for a, b in zip(out.data, fe.data))
            if fname == "Transpose" and same:
                r.ok(f"Transpose({label}) is the field itself")
            else:
                shp = out.shape if isinstance(out, XArray) else "a scalar"
                r.fail(f.qualname, f"non-matrix:{label.split(' (')[0]}", f.file, f.lineno, fname, f"{fname} of a {label} returns {shp} computed over the element / integration-point axes: there is no matrix at the points of a {label.split(' (')[0]}; the (Ne, nPg) axes were read as tensor axes by a shape coincidence")


def reflected_operator_rule(ctx, rid="R12.10"):
    """'with plain arrays acting as constant tensors': a field / finite-element array on the RIGHT of a plain operand.
    Every class of EasyFEA.FEM that defines reflected operators (`__rsub__`, `__rtruediv__`, `__rmatmul__`, `__radd__`,
    `__rmul__`) is interpreted on symbolic 2 x 2 operands: `x.__rop__(b)` must be `b op value(x)` - operands in that
    order - and `x.__op__(b)` must be `value(x) op b`."""
    from ..xeval import Interp, XObj, XRaise

    repo = ctx.repo
    r = ctx.rule(rid, "operators of Field: x.__op__(b) == value(x) op b and the reflected x.__rop__(b) == b op value(x), operands in that order (symbolic 2 x 2 operands: -, /, @ do not commute)", min_instances=8)
    ci = repo.cls("EasyFEA.FEM._field.Field")
    A = XArray((2, 2), [Poly.var(f"a{i}{j}") for i in range(2) for j in range(2)])
    B = XArray((2, 2), [Poly.var(f"b{i}{j}") for i in range(2) for j in range(2)])
    ops = {"add": lambda x, y: x + y, "sub": lambda x, y: x - y, "mul": lambda x, y: x * y, "truediv": lambda x, y: x / y, "matmul": lambda x, y: x @ y}
    obj = XObj(ci, {})

    def hook(fn, args, kwargs):
        if fn is obj:
            return A
        return NotImplemented

    I = Interp(repo)
    I.call_hook = hook
    for nm, op in ops.items():
        for refl in (False, True):
            meth = f"__{'r' if refl else ''}{nm}__"
            f = ci.methods.get(meth)
            if f is None:
                continue
            r.instance(fn=f.qualname)
            want = XArray.from_nested(op(B, A) if refl else op(A, B))
            try:
                got = XArray.from_nested(I.call_function(f, [B], self_obj=obj))
            except XRaise as e:
                r.fail(f.qualname, "raises", f.file, f.lineno, f"Field.{meth}", f"raises {e}")
                continue
            if got.shape == want.shape and all(is_zero(Rat.of(x) - Rat.of(y)) for x, y in zip(got.data, want.data)):
                r.ok(f"Field.{meth}(b) == {'b ' + nm + ' value' if refl else 'value ' + nm + ' b'}")
            else:
                r.fail(f.qualname, "operands", f.file, f.lineno, f"Field.{meth}", f"Field.{meth}(b) is not `{'b' if refl else 'field'} {nm} {'field' if refl else 'b'}` (entry [0, 0]: {got.data[0]!r}, expected {want.data[0]!r}): the operands of a non-commutative operation are taken in the wrong order")
