"""C11 -- linear elastic laws: C.S == I symbolically, reduction shape, flag
influence, lazy update typestate, Kelvin scaling."""

from __future__ import annotations

import ast

from ..alg import Poly, Q, MQ, Rat, is_zero
from ..repo import AnalysisError, dotted, norm_text, FuncInfo, walk_no_nested
from ..xeval import Interp, XObj, Opaque, _NpAttr, _Bound, Uninterpretable, XRaise
from ..xarray import XArray

LAWS = "EasyFEA.Models.Elastic._laws"
MU = "EasyFEA.Models._utils"
PARAMS = "EasyFEA.Utilities._params"


class Junk:
    """value of a numeric self-check the symbolic domain does not follow"""

    _xeval_open = True
    _absorbing = True

    def _j(self, *a, **k):
        return self

    __add__ = __radd__ = __sub__ = __rsub__ = __mul__ = __rmul__ = __truediv__ = __rtruediv__ = __neg__ = __call__ = _j

    def __lt__(self, o):
        return True

    __le__ = __gt__ = __ge__ = __lt__


class InvOf(Junk):
    _xeval_open = True

    def __init__(self, arg):
        self.arg = arg


def base_hook(fn, args, kwargs):
    if isinstance(fn, _NpAttr) and fn.path == "linalg.inv":
        return InvOf(args[0])
    if isinstance(fn, _NpAttr) and fn.path in ("linalg.norm", "max"):
        return Junk()
    return NotImplemented


def R(x):
    return Rat.of(x)


def matmul_rat(A, B, n):
    out = [[None] * n for _ in range(n)]
    for i in range(n):
        for j in range(n):
            tot = R(Poly())
            for k in range(n):
                a, b = A[i, k], B[k, j]
                if is_zero(a) or is_zero(b):
                    continue
                tot = tot + R(a) * R(b)
            out[i][j] = tot
    return out


def product_identity_rule(ctx):
    repo = ctx.repo
    r = ctx.rule("R11.1", "C . S == I as rational-function identities in the moduli (TransverselyIsotropic, Orthotropic); both literals symmetric; Isotropic: S = inv(C) by construction and the plane-stress law is the reduction of the 3-D law", min_instances=4)
    for cname, params, props in (
        ("TransverselyIsotropic", ["El", "Et", "Gl", "vl", "vt"], []),
        ("Orthotropic", ["E1", "E2", "E3", "G23", "G13", "G12", "v23", "v13", "v12"], []),
    ):
        ci = repo.cls(f"{LAWS}.{cname}")
        f = ci.methods["_Behavior"]
        r.instance(fn=f.qualname)
        cap = {}
        obj = XObj(ci, {p: Poly.var(p) for p in params})
        obj.attrs.update(dim=3, planeStress=False)
        for ax in ("axis_l", "axis_t", "axis_1", "axis_2"):
            obj.attrs[ax] = Opaque(ax)

        def capture(**kw):
            cap.update(kw)
            return (kw["material_cM"], kw["material_sM"])

        obj.attrs["_Apply_basis_transformation"] = capture
        I = Interp(repo)
        I.call_hook = base_hook
        I.call_function(f, [3], self_obj=obj)
        if "material_cM" not in cap:
            r.fail(f.qualname, "capture", f.file, f.lineno, f"{cname}._Behavior", "the material matrices are no longer passed to _Apply_basis_transformation as material_cM / material_sM")
            continue
        cM, sM = XArray.from_nested(cap["material_cM"]), XArray.from_nested(cap["material_sM"])
        n = 6
        if cM.shape != (6, 6) or sM.shape != (6, 6):
            r.fail(f.qualname, "shape", f.file, f.lineno, f"{cname}._Behavior", f"material matrices have shapes {cM.shape}, {sM.shape}")
            continue
        prod = matmul_rat(cM, sM, n)
        bad = [(i, j) for i in range(n) for j in range(n) if not is_zero(prod[i][j] - (1 if i == j else 0))]
        asym = [(i, j) for i in range(n) for j in range(i) if not is_zero(R(cM[i, j]) - R(cM[j, i])) or not is_zero(R(sM[i, j]) - R(sM[j, i]))]
        if bad:
            i, j = bad[0]
            r.fail(f.qualname, "CS=I", f.file, f.lineno, f"{cname}._Behavior", f"(material_cM . material_sM)[{i},{j}] is not {'1' if i == j else '0'} identically in the moduli ({len(bad)} entries differ): the stiffness literal is not the inverse of the compliance literal")
        elif asym:
            r.fail(f.qualname, "symmetric", f.file, f.lineno, f"{cname}._Behavior", f"material matrices are not symmetric at {asym[:3]}")
        else:
            r.ok(f"{cname}: material_cM . material_sM == I (36 rational identities in {len(params)} moduli), both symmetric")
    # Isotropic
    ci = repo.cls(f"{LAWS}.Isotropic")
    f = ci.methods["_Behavior"]
    I = Interp(repo)
    I.call_hook = base_hook
    res = {}
    for dim, ps in ((3, False), (2, True), (2, False)):
        obj = XObj(ci, dict(E=Poly.var("E"), v=Poly.var("v"), dim=dim, planeStress=ps))
        c, s = I.call_function(f, [dim], self_obj=obj)
        r.instance(fn=f.qualname)
        c = XArray.from_nested(c)
        if isinstance(s, InvOf) and s.arg is c or (isinstance(s, InvOf) and isinstance(s.arg, XArray) and s.arg.data == c.data):
            r.ok(f"Isotropic dim={dim} planeStress={ps}: S = inv(C) of the returned C")
        else:
            r.fail(f.qualname, f"inv{dim}{ps}", f.file, f.lineno, "Isotropic._Behavior", "the returned compliance is not np.linalg.inv of the returned stiffness")
        res[(dim, ps)] = c
    r.instance(fn=f.qualname)
    C3 = res[(3, False)]
    keep, elim = [0, 1, 5], [2, 3, 4]
    # Schur complement C_kk - C_ke C_ee^-1 C_ek ; C_ee is 3x3
    Cee = [[R(C3[a, b]) for b in elim] for a in elim]
    det = (Cee[0][0] * (Cee[1][1] * Cee[2][2] - Cee[1][2] * Cee[2][1]) - Cee[0][1] * (Cee[1][0] * Cee[2][2] - Cee[1][2] * Cee[2][0]) + Cee[0][2] * (Cee[1][0] * Cee[2][1] - Cee[1][1] * Cee[2][0]))
    adj = [[None] * 3 for _ in range(3)]
    for i in range(3):
        for j in range(3):
            m = [[Cee[a][b] for b in range(3) if b != i] for a in range(3) if a != j]
            adj[i][j] = (m[0][0] * m[1][1] - m[0][1] * m[1][0]) * ((-1) ** (i + j))
    bad = None
    for a, ka in enumerate(keep):
        for b, kb in enumerate(keep):
            corr = R(Poly())
            for i in range(3):
                for j in range(3):
                    corr = corr + R(C3[ka, elim[i]]) * adj[i][j] * R(C3[elim[j], kb])
            want = R(C3[ka, kb]) - corr / det
            if not is_zero(R(res[(2, True)][a, b]) - want):
                bad = ("plane stress", a, b)
            if not is_zero(R(res[(2, False)][a, b]) - R(C3[ka, kb])):
                bad = ("plane strain", a, b)
    if bad:
        r.fail(f.qualname, f"reduction:{bad[0]}", f.file, f.lineno, "Isotropic._Behavior", f"the 2-D {bad[0]} law differs from the reduction of the 3-D law at entry [{bad[1]},{bad[2]}] (as a rational function of E, v)")
    else:
        r.ok("Isotropic: 2-D plane-stress C == Schur complement of the 3-D C over (zz,yz,xz); plane-strain C == in-plane block, identically in (E, v)")


def reduction_rule(ctx, rid="R11.2"):
    repo = ctx.repo
    r = ctx.rule(rid, "_Apply_basis_transformation: plane stress takes the in-plane block of the compliance and inverts it, plane strain takes the block of the stiffness; index set = Kelvin in-plane set [0,1,5]; for one matrix, one per element and one per integration point", min_instances=6)
    ci = repo.cls(f"{LAWS}._Elastic")
    f = ci.methods["_Apply_basis_transformation"]
    sM_in = sM0 = XArray((6, 6), [Poly.var(f"ms{i}{j}") for i in range(6) for j in range(6)])
    cM_in = cM0 = XArray((6, 6), [Poly.var(f"mc{i}{j}") for i in range(6) for j in range(6)])
    S = S0 = XArray((6, 6), [Poly.var(f"S{i}{j}") for i in range(6) for j in range(6)])
    C = C0 = XArray((6, 6), [Poly.var(f"C{i}{j}") for i in range(6) for j in range(6)])

    def hook(fn, args, kwargs):
        if isinstance(fn, FuncInfo) and fn.name == "Get_Pmat":
            return Opaque("P")
        if isinstance(fn, FuncInfo) and fn.name == "Apply_Pmat":
            if not kwargs.get("toGlobal", True if len(args) < 3 else args[2]):
                # rotated the other way (P^T M P): a different tensor, which the comparisons below do not accept
                return XArray((6, 6), [Poly.var(f"{'St' if args[1] is sM_in else 'Ct'}{i}{j}") for i in range(6) for j in range(6)])
            return S if args[1] is sM_in else (C if args[1] is cM_in else Opaque("?"))
        if isinstance(fn, _NpAttr) and fn.path == "linalg.inv":
            return InvOf(args[0])
        if isinstance(fn, _NpAttr) and fn.path == "linalg.norm":
            a = XArray.from_nested(args[0])
            tot = Q(0)
            for x in a.data:
                tot = tot + x * x
            return MQ.sqrt(tot)
        return NotImplemented

    keep = [0, 1, 5]
    # the law may be one matrix, one per element (Ne, 6, 6) or one per integration point (Ne, nPg, 6, 6): the reduction of each
    # form reads the ROTATED matrices
    import itertools as _it

    def field(name, lead):
        return XArray(lead + (6, 6), [Poly.var(f"{name}{''.join(str(k) for k in ix[:-2])}_{ix[-2]}{ix[-1]}") for ix in _it.product(*[range(k) for k in lead + (6, 6)])])

    for lead in ((), (2,), (2, 2)):
        for ps in (True, False):
            r.instance(fn=f.qualname)
            if lead:
                sM_in, cM_in, S, C = field("ms", lead), field("mc", lead), field("S", lead), field("C", lead)
            else:
                sM_in, cM_in, S, C = sM0, cM0, S0, C0
            form = {(): "one matrix", (2,): "one matrix per element", (2, 2): "one matrix per integration point"}[lead]

            def hook_l(fn, args, kwargs, sM_in=sM_in, cM_in=cM_in, S=S, C=C):
                if isinstance(fn, FuncInfo) and fn.name == "Apply_Pmat":
                    if not kwargs.get("toGlobal", True if len(args) < 3 else args[2]):
                        return field("St" if args[1] is sM_in else "Ct", lead)
                    return S if args[1] is sM_in else (C if args[1] is cM_in else Opaque("?"))
                return hook(fn, args, kwargs)

            I = Interp(repo)
            I.call_hook = hook_l
            obj = XObj(ci, dict(planeStress=ps))
            a1 = XArray((3,), [Q(0), Q(1), Q(0)])
            a2 = XArray((3,), [Q(-1), Q(0), Q(0)])
            try:
                c, s = I.call_function(f, [2, cM_in, sM_in, a1, a2], self_obj=obj)
            except XRaise as e:
                r.fail(f.qualname, f"planeStress={ps}:{form}", f.file, f.lineno, "_Apply_basis_transformation", f"planeStress={ps}, {form}: raises {e}")
                continue
            src, lab = (S, "compliance") if ps else (C, "stiffness")
            direct, inv = (s, c) if ps else (c, s)
            ok = isinstance(direct, XArray) and direct.shape == lead + (3, 3) and all(direct[ix + (a, b)] == src[ix + (keep[a], keep[b])] for ix in _it.product(*[range(k) for k in lead]) for a in range(3) for b in range(3))
            ok = ok and isinstance(inv, InvOf) and isinstance(inv.arg, XArray) and inv.arg.data == direct.data
            if ok:
                r.ok(f"planeStress={ps}, {form}: in-plane block [0,1,5] of the rotated {lab}, the other matrix is its inverse")
            else:
                r.fail(f.qualname, f"planeStress={ps}" + ("" if not lead else f":{form}"), f.file, f.lineno, "_Apply_basis_transformation", f"planeStress={ps}, {form}: the 2-D law is not (block [0,1,5] of the material -> global rotated {lab} P M P^T, inverse of that block): stiffness and compliance must be turned by the SAME rotation, whatever the form the moduli are given in")
    # 3D: untouched
    r.instance(fn=f.qualname)
    I = Interp(repo)
    I.call_hook = hook
    c, s = I.call_function(f, [3, cM_in, sM_in, XArray((3,), [Q(0), Q(1), Q(0)]), XArray((3,), [Q(-1), Q(0), Q(0)])], self_obj=XObj(ci, dict(planeStress=False)))
    if c is C and s is S:
        r.ok("dim 3: (P C P^T, P S P^T) returned unchanged")
    else:
        r.fail(f.qualname, "dim3", f.file, f.lineno, "_Apply_basis_transformation", "dim 3 does not return (P C P^T, P S P^T): stiffness and compliance are not turned by the same material -> global rotation (S is no longer the inverse of C for rotated axes)")


def flag_rule(ctx):
    repo = ctx.repo
    r = ctx.rule("R11.3", "a notation flag that is part of the statement reaches the returned law on every path (differential interpretation: the two flag values must give different symbolic results)", min_instances=2)
    ci = repo.cls(f"{LAWS}.Anisotropic")
    f = ci.methods["_Behavior"]

    def hook(fn, args, kwargs):
        if isinstance(fn, FuncInfo) and fn.name == "Get_Pmat":
            return Opaque("P")
        if isinstance(fn, FuncInfo) and fn.name == "Apply_Pmat":
            return args[1]
        if isinstance(fn, _NpAttr) and fn.path in ("linalg.norm", "max"):
            return Junk()
        return NotImplemented

    for dim in (2, 3):
        n = 3 if dim == 2 else 6
        Cin = XArray((n, n), [Poly.var(f"C{min(i,j)}{max(i,j)}") for i in range(n) for j in range(n)])
        out = {}
        for flag in (True, False):
            I = Interp(repo)
            I.call_hook = hook
            obj = XObj(ci, {"dim": dim, "_Anisotropic__axis1": Opaque("a1"), "_Anisotropic__axis2": Opaque("a2")})
            out[flag] = XArray.from_nested(I.call_function(f, [Cin, flag], self_obj=obj))
        r.instance(fn=f.qualname)
        s2 = MQ.sqrt(2)
        kap = [Q(1)] * dim + [s2] * (n - dim)
        same = out[True].data == out[False].data
        right = all(is_zero(out[True][i, j] - Cin[i, j] * (kap[i] * kap[j])) for i in range(n) for j in range(n)) and all(is_zero(out[False][i, j] - Cin[i, j]) for i in range(n) for j in range(n))
        if same:
            r.fail(f.qualname, f"dead-flag:dim{dim}", f.file, f.lineno, "Anisotropic._Behavior", f"dim {dim}: useVoigtNotation has no influence on the returned law (the Kelvin-Mandel conversion is dead on this path): the same material given in Voigt and in Kelvin-Mandel notation yields different laws")
        elif not right:
            r.fail(f.qualname, f"conversion:dim{dim}", f.file, f.lineno, "Anisotropic._Behavior", f"dim {dim}: with identity axes the law is not C (Kelvin-Mandel input) / kappa_i kappa_j C_ij (Voigt input)")
        else:
            r.ok(f"Anisotropic dim {dim}: Voigt input is scaled by kappa_i*kappa_j, Kelvin-Mandel input is kept, both reach the return")


def notation_rotation_rule(ctx):
    """R11.9: 'supplying the same material in Voigt or Kelvin-Mandel notation ... yields the same law', also for material
    axes at a generic angle: Anisotropic._Behavior(C_voigt, True) == Anisotropic._Behavior(kappa C_voigt kappa, False)
    with Get_Pmat / Apply_Pmat interpreted on rational axes that are not a signed permutation ((3/5, 4/5, 0),
    (-4/5, 3/5, 0) and a 3-D pair) -- the Kelvin-Mandel scaling commutes with the change of basis only for axes at
    multiples of 90 degrees."""
    repo = ctx.repo
    r = ctx.rule("R11.9", "Voigt input and Kelvin-Mandel input of the same material give the same law for material axes at a generic angle (symbolic C, Get_Pmat / Apply_Pmat interpreted)", min_instances=2)
    ci = repo.cls(f"{LAWS}.Anisotropic")
    f = ci.methods["_Behavior"]

    def symbolic(a):
        return isinstance(a, Junk) or (isinstance(a, XArray) and any(isinstance(x, Junk) or (isinstance(x, Poly) and not x.is_const()) for x in a.data))

    def hook(fn, args, kwargs):
        # the symmetry self-check of the symbolic matrix is not followed; the norms of the (rational) axes are
        if isinstance(fn, _NpAttr) and fn.path in ("linalg.norm", "max") and (any(symbolic(a) for a in args) or isinstance(kwargs.get("axis"), tuple)):
            return Junk()
        return NotImplemented

    s2 = MQ.sqrt(2)
    for dim, a1, a2 in ((2, [Q(3, 5), Q(4, 5), Q(0)], [Q(-4, 5), Q(3, 5), Q(0)]), (3, [Q(2, 3), Q(2, 3), Q(1, 3)], [Q(-2, 3), Q(1, 3), Q(2, 3)])):
        n = 3 if dim == 2 else 6
        r.instance(fn=f.qualname)
        Cin = XArray((n, n), [Poly.var(f"C{min(i,j)}{max(i,j)}") for i in range(n) for j in range(n)])
        kap = [Q(1)] * dim + [s2] * (n - dim)
        Ckm = XArray((n, n), [Cin[i, j] * (kap[i] * kap[j]) for i in range(n) for j in range(n)])
        out = {}
        for flag, Carg in ((True, Cin), (False, Ckm)):
            I = Interp(repo, max_steps=50_000_000)
            I.call_hook = hook
            obj = XObj(ci, {"dim": dim, "_Anisotropic__axis1": XArray((3,), list(a1)), "_Anisotropic__axis2": XArray((3,), list(a2))})
            out[flag] = XArray.from_nested(I.call_function(f, [Carg, flag], self_obj=obj))
        bad = None
        if out[True].shape != out[False].shape:
            bad = f"shapes {out[True].shape} and {out[False].shape}"
        else:
            for k, (x, y) in enumerate(zip(out[True].data, out[False].data)):
                if not is_zero(x - y):
                    bad = f"entry ({k // n}, {k % n}) differs"
                    break
        if bad:
            r.fail(f.qualname, f"notation-rotation:dim{dim}", f.file, f.lineno, "Anisotropic._Behavior", f"dim {dim}, material axes {[str(x) for x in a1]}, {[str(x) for x in a2]}: the law built from the Voigt matrix differs from the law built from the Kelvin-Mandel matrix of the same material ({bad}): the notation conversion and the change of basis are applied in an order in which they do not commute")
        else:
            r.ok(f"dim {dim}: Voigt and Kelvin-Mandel input agree for rotated axes")


def descriptor_rule(ctx, r=None):
    """the _Parameter descriptor raises Need_Update on every completing path of __set__ and hands out copies"""
    repo = ctx.repo
    if r is None:
        r = ctx.rule("R11.5", "parameter descriptors: __set__ raises Need_Update on the owner on every completing path; __get__ hands out a copy", min_instances=2)
    pcls = repo.cls(f"{PARAMS}._Parameter")
    fset = pcls.methods["__set__"]
    r.instance(fn=fset.qualname)
    # decided by interpretation (the must-pass-through form over the statements of __set__ fired on guard-clause rewrites,
    # refactored/C11-R8, C14-R2): every descriptor class is driven through its own __set__ / __get__ on an Updatable owner that
    # records Need_Update, for a first assignment, the same value again, THE SAME ARRAY OBJECT again (edited in place by the
    # caller), and a value that differs by 1e-12
    from ..xeval import Interp, XObj, XRaise
    from ..xarray import XArray
    from fractions import Fraction as Q_

    owner_cls = repo.cls("EasyFEA.Models._thermal.Thermal")
    candidates = [Q_(3), Q_(1, 4), True, "x", 2]
    classes = [pcls] + list(repo.subclasses(pcls))
    for pc in classes:
        if pc is pcls:
            continue
        fs = repo.lookup_method(pc, "__set__")
        fg = repo.lookup_method(pc, "__get__")
        r.instance(fn=fs.qualname)
        I = Interp(repo)
        desc = XObj(pc, {})
        init = repo.lookup_method(pc, "__init__")
        try:
            if init is not None:
                npar = len(init.node.args.args) - 1 - len(init.node.args.defaults)
                I.call_function(init, [[1, 2, 3]] * npar if npar else [], {}, self_obj=desc)
            sn = repo.lookup_method(pc, "__set_name__")
            if sn is not None:
                I.call_function(sn, [owner_cls, "p"], {}, self_obj=desc)
        except XRaise:
            r.ok(None)
            continue
        calls = []
        owner = XObj(owner_cls, {"Need_Update": lambda value=True: calls.append(value)})
        good = None
        for c in candidates:
            try:
                I.call_function(fs, [owner, c], {}, self_obj=desc)
                good = c
                break
            except XRaise:
                del calls[:]
                continue
        if good is None:
            r.ok(None)
            continue
        bad = None
        if not calls or calls[-1] is not True and calls[-1] != True:
            bad = "a first assignment does not raise Need_Update on the owner"
        # (re-assigning an EQUAL immutable scalar may legitimately skip the update: not asked)
        seq = []
        if isinstance(good, Q_) and not isinstance(good, bool):
            arr = XArray((3,), [good, good + 1, good + 2])
            seq += [("a value that differs by 1e-12", good + Q_(1, 10**12)), ("an array", arr), ("the same array object again, edited in place by the caller in between", arr)]
        elif isinstance(good, bool):
            seq += [("the opposite value", not good)]
        for label, v in seq:
            if bad:
                break
            del calls[:]
            if label.startswith("the same array object"):
                v.data[0] = v.data[0] + 5
            try:
                I.call_function(fs, [owner, v], {}, self_obj=desc)
            except XRaise:
                continue  # the descriptor's own checker rejects this value (fields, values outside a finite set)
            if not calls or calls[-1] is False:
                bad = f"{label}: the value is stored without raising Need_Update on the owner: the law (C, S) keeps the values computed from the old parameter"
                break
            got = I.call_function(fg, [owner, owner_cls], {}, self_obj=desc)
            if isinstance(v, XArray):
                if got is v or got is owner.attrs.get("p"):
                    bad = f"{label}: __get__ hands out the stored array itself: `law.E[0] = x` would change the law without raising Need_Update"
                elif not (isinstance(got, XArray) and list(got.data) == list(v.data)):
                    bad = f"{label}: __get__ returns {got!r}, the value assigned was {v!r}"
            elif got != v:
                bad = f"{label}: __get__ returns {got!r}, the value assigned was {v!r}"
        if bad:
            r.fail(fs.qualname, "need-update", fs.file, fs.lineno, f"{pc.name}.__set__", f"{pc.name}: {bad}")
        else:
            r.ok(f"{pc.name}: every assignment raises Need_Update, __get__ returns a copy of the assigned value")
    return pcls


def lazy_rule(ctx):
    repo = ctx.repo
    r = ctx.rule("R11.5", "lazy update typestate: parameters are _Parameter descriptors whose __set__ raises Need_Update; C/S getters update when dirty and clear the flag; every _Update assigns both C and S; setters reset the cached square roots", min_instances=8)
    pcls = descriptor_rule(ctx, r)
    base = repo.cls(f"{LAWS}._Elastic")
    for ci in [base] + repo.subclasses(base):
        for name, expr in ci.class_attrs.items():
            if isinstance(expr, ast.Call) and (dotted(expr.func) or "").startswith("_params."):
                r.instance(fn=ci.qualname)
                pc = repo.resolve_name(ci.module, dotted(expr.func))
                if pc is not None and pcls in getattr(pc, "mro", []):
                    r.ok(f"{ci.name}.{name} is a {pc.name} descriptor" if name in ("E", "El", "E1") else None)
                else:
                    r.fail(ci.qualname, f"param:{name}", ci.file, ci.node.lineno, f"{ci.name}.{name}", f"parameter {name} is not a _Parameter descriptor")
    for prop in ("C", "S"):
        g = base.methods[prop]
        r.instance(fn=g.qualname)
        # interpreted on a recorder law (the `if self.needUpdate:` shape used to be matched; it fired when the block moved into
        # a helper, refactored/C14-R8): dirty -> _Update once, then the flag is lowered; clean -> no update; dirty again -> update
        from ..xeval import Interp as _Ig, XObj as _Xg, XRaise as _XRg

        ups = []
        og = _Xg(base, {})
        from ..xarray import XArray as _XAg

        og.attrs["_Update"] = lambda _o=og, _u=ups: (_u.append(1), _o.attrs.__setitem__(base.mangle("__C"), _XAg((1,), [100 + len(_u)])), _o.attrs.__setitem__(base.mangle("__S"), _XAg((1,), [200 + len(_u)])))[0]
        Ig = _Ig(repo)
        try:
            Ig.call_function(repo.lookup_method(base, "Need_Update"), [], self_obj=og)
            v1 = Ig.call_function(g, [], self_obj=og)
            n1 = len(ups)
            v2 = Ig.call_function(g, [], self_obj=og)
            n2 = len(ups)
            Ig.call_function(repo.lookup_method(base, "Need_Update"), [], self_obj=og)
            v3 = Ig.call_function(g, [], self_obj=og)
            n3 = len(ups)
            b0 = 100 if prop == "C" else 200
            val = lambda v: int(v.data[0]) if isinstance(v, _XAg) else v
            v1, v2, v3 = val(v1), val(v2), val(v3)
            ok = (n1, n2, n3) == (1, 1, 2) and (v1, v2, v3) == (b0 + 1, b0 + 1, b0 + 2)
            why = f"updates counted after the three reads: {(n1, n2, n3)}, values read {v1!r}, {v2!r}, {v3!r}"
        except _XRg as e:
            ok, why = False, f"raises {e}"
        if ok:
            r.ok(f"_Elastic.{prop}: update when dirty, then clear the flag")
        else:
            r.fail(g.qualname, "getter", g.file, g.lineno, f"_Elastic.{prop}", f"the getter does not (update when dirty, then clear the flag): {why}")
        s = base.setters[prop]
        r.instance(fn=s.qualname)
        if any(isinstance(n, ast.Assign) and f"sqrt_{prop}" in norm_text(n.targets[0]) and norm_text(n.value) == "None" for n in ast.walk(s.node)):
            r.ok(f"_Elastic.{prop} setter resets the cached square root")
        else:
            r.fail(s.qualname, "sqrt-reset", s.file, s.lineno, f"_Elastic.{prop}.setter", "the cached square root is not reset when the matrix changes")
    for ci in repo.subclasses(base):
        u = ci.methods.get("_Update")
        if u is None or u.cls is not ci or ci.name == "Anisotropic":
            continue
        r.instance(fn=u.qualname)
        assigned = {n.targets[0].attr for n in ast.walk(u.node) if isinstance(n, ast.Assign) and isinstance(n.targets[0], ast.Attribute) and isinstance(n.targets[0].value, ast.Name) and n.targets[0].value.id == "self"}
        if {"C", "S"} <= assigned:
            r.ok(f"{ci.name}._Update assigns both C and S")
        else:
            r.fail(u.qualname, "both", u.file, u.lineno, f"{ci.name}._Update", f"_Update assigns {sorted(assigned)}: stiffness and compliance can diverge")


def run(ctx):
    from . import e2e_rules as _e2e

    ctx.attempt(_e2e.heterogeneous_rule, ctx, 'R11.E2')
    ctx.attempt(_e2e.laws_rule, ctx, 'R11.E1')
    ctx.level = "proof"
    ctx.explanation = (
        "The stiffness and compliance literals of the transversely isotropic and orthotropic laws are interpreted entry by entry as rational functions of the moduli "
        "and their product is the identity by normal form; the isotropic plane-stress law is the Schur complement of the 3-D law identically in (E, v); the 2-D reduction "
        "takes the [0,1,5] block of the compliance (plane stress) or stiffness (plane strain) and inverts it; notation flags are shown to reach the result by differential "
        "interpretation; the lazy-update typestate is structural. NOT decided: positive-definiteness on the admissible parameter set, accuracy of np.linalg.inv."
    )
    ctx.trust("sa/alg.py Rat (equality by cross-multiplication); sa/xeval.py")
    product_identity_rule(ctx)
    reduction_rule(ctx)
    flag_rule(ctx)
    lazy_rule(ctx)
    rotation_direction_rule(ctx)
    ctx.attempt(axis_guard_rule, ctx)
    ctx.attempt(notation_rotation_rule, ctx)
    ctx.attempt(integer_stiffness_rule, ctx)
    ctx.attempt(integer_parameter_rule, ctx)
    ctx.attempt(admissibility_rule, ctx)
    ctx.attempt(heterogeneity_detection_rule, ctx)
    from ..shared import notify_last_rule as _notify_last_rule

    ctx.attempt(_notify_last_rule, ctx, "R11.8")
    # the rotated laws (transversely isotropic, orthotropic, anisotropic) are P C P^T with P from Get_Pmat / Apply_Pmat: R10.2, R10.3
    from . import c10

    c10.pmat_rules(ctx)


def rotation_direction_rule(ctx, rid="R11.6"):
    """R11.6: the laws are given in the material axes and handed out in the global frame: every Apply_Pmat call of the
    law module rotates material -> global (P M P^T, toGlobal=True, explicitly or by default). The siblings
    (_Apply_basis_transformation for transversely isotropic / orthotropic, Anisotropic._Behavior) must agree."""
    repo = ctx.repo
    r = ctx.rule(rid, "rotation direction: every Apply_Pmat call in the elastic laws is material -> global (toGlobal True, explicit or default)", min_instances=3)
    mod = repo.module(LAWS)
    fdef = repo.func("EasyFEA.Models._utils.Apply_Pmat")
    a = fdef.node.args
    defaults = dict(zip([x.arg for x in a.args][-len(a.defaults):], a.defaults))
    dflt = defaults.get("toGlobal")
    default_true = isinstance(dflt, ast.Constant) and dflt.value is True
    for f in repo.all_functions():
        if f.module is not mod:
            continue
        for n in ast.walk(f.node):
            if isinstance(n, ast.Call) and (dotted(n.func) or "").split(".")[-1] == "Apply_Pmat":
                r.instance(fn=f.qualname)
                flag = next((k.value for k in n.keywords if k.arg == "toGlobal"), n.args[2] if len(n.args) > 2 else None)
                ok = (flag is None and default_true) or (isinstance(flag, ast.Constant) and flag.value is True)
                if ok:
                    r.ok(f"{f.qualname}: {norm_text(n)[:60]}")
                else:
                    r.fail(f.qualname, f"direction:{f.name}", f.file, n.lineno, f.name, f"`{norm_text(n)[:80]}` rotates global -> material (P^T M P): the law is turned by the inverse rotation; aligned axes, isotropic tensors and quarter turns hide it")


def exact_q(x):
    from ..xeval import exact

    x = exact(x)
    if isinstance(x, MQ):
        return x.rational()
    if isinstance(x, Poly):
        return x.const_value()
    return Q(x)


def axis_guard_rule(ctx):
    """R11.7: 'material axes of any length': the perpendicularity guard of every law constructor that takes two material
    axes gives one verdict for (k a1, k a2) whatever the common length k, and one verdict for a pair and its mirror
    image (dot product of the opposite sign).  The constructors are interpreted with exact rational axes of rational
    norm: a pair inside the guard's own tolerance (cos = 2e-14), a pair outside it (cos = 2e-3), lengths 1, 1000 and
    1/1000."""
    repo = ctx.repo
    r = ctx.rule("R11.7", "axis guards of the law constructors are length-independent and sign-symmetric (verdict on (k a1, k a2) independent of k; verdict on a pair == verdict on its mirror image)", min_instances=3)
    mod = repo.module(LAWS)
    u = [Q(3, 5), Q(4, 5), Q(0)]
    v = [Q(-4, 5), Q(3, 5), Q(0)]

    def tilt(t):
        d = 1 + t * t
        return [((1 - t * t) * v[i] + 2 * t * u[i]) / d for i in range(3)]

    def hook(fn, args, kwargs):
        fi = fn if isinstance(fn, FuncInfo) else getattr(fn, "finfo", None)
        if isinstance(fi, FuncInfo):
            if fi.name == "__init__" or fi.name.startswith("Set_"):
                return None  # base-class initialisation / the law itself: not part of the guard
            if fi.name in ("AsCoords", "_") and fi.module.name.endswith("Geoms._utils"):
                vals = list(XArray.from_nested(args[0]).data)
                return XArray((3,), vals + [Q(0)] * (3 - len(vals)))
        return NotImplemented

    for cname, ci in sorted(mod.classes.items()):
        init = ci.methods.get("__init__")
        if init is None:
            continue
        axes = [a.arg for a in init.node.args.args if "axis" in a.arg.lower()]
        if len(axes) != 2:
            continue
        r.instance(fn=init.qualname)

        stored = {}

        def verdict(a1, a2, init=init, ci=ci, axes=axes, stored=stored):
            I = Interp(repo)
            I.call_hook = hook
            obj = XObj(ci, {})
            stored["obj"] = obj
            kwargs = {}
            for a in init.node.args.args[1:]:
                if a.arg not in axes:
                    kwargs[a.arg] = Opaque(a.arg)
            kwargs[axes[0]] = XArray((3,), list(a1))
            kwargs[axes[1]] = XArray((3,), list(a2))
            try:
                I.call_function(init, [], kwargs, self_obj=obj)
            except XRaise as e:
                return f"rejected ({e.kind if hasattr(e, 'kind') else 'raise'})"
            return "accepted"

        sc = lambda k, a: [k * x for x in a]
        bad = None
        groups = {}
        for label, t in (("inside the tolerance (cos = 2e-14)", Q(1, 10**14)), ("outside the tolerance (cos = 2e-3)", Q(1, 1000)), ("mirror image, inside (cos = -2e-14)", Q(-1, 10**14)), ("mirror image, outside (cos = -2e-3)", Q(-1, 1000))):
            a2 = tilt(t)
            vs = {str(k): verdict(sc(k, u), sc(k, a2)) for k in (Q(1), Q(1000), Q(1, 1000))}
            groups[label] = vs
            if len(set(vs.values())) > 1 and bad is None:
                bad = f"axes {label}: " + ", ".join(f"length {k}: {x}" for k, x in vs.items()) + " -- the verdict depends on the length of the axes"
        if bad is None:
            for a, b in (("inside the tolerance (cos = 2e-14)", "mirror image, inside (cos = -2e-14)"), ("outside the tolerance (cos = 2e-3)", "mirror image, outside (cos = -2e-3)")):
                if groups[a]["1"] != groups[b]["1"]:
                    bad = f"unit axes {a}: {groups[a]['1']}; {b}: {groups[b]['1']} -- the guard is one-sided"
        if bad is None and verdict(sc(Q(3), u), sc(Q(1, 2), v)) != "accepted":
            bad = "exactly perpendicular axes (lengths 3 and 1/2) are rejected"
        if bad is None:
            # the frame that is kept is the given one: each stored axis is a positive multiple of the axis it was given
            # (a reversed axis is another material frame: the law of a material with normal / shear coupling changes)
            for pname, given in zip(axes, (u, v)):
                att = [k for k in stored["obj"].attrs if k.endswith("__" + pname) or k == pname]
                if len(att) != 1:
                    continue
                val = list(XArray.from_nested(stored["obj"].attrs[att[0]]).data)
                lam = None
                for x, g in zip(val, given):
                    if g != 0:
                        lam = exact_q(x) / g
                        break
                if lam is None or lam <= 0 or any(exact_q(x) != lam * g for x, g in zip(val, given)):
                    bad = f"given {pname} = {[str(3 * x) if pname == axes[0] else str(x / 2) for x in given]}, the constructor keeps {[str(exact_q(x)) for x in val]}: not a positive multiple of the given axis (another material frame)"
                    break
        if bad:
            r.fail(init.qualname, "axis-guard", init.file, init.lineno, f"{cname}.__init__", bad)
        else:
            r.ok(f"{cname}: guard verdicts " + "; ".join(f"{k}: {sorted(set(x.values()))[0]}" for k, x in groups.items()))


def integer_parameter_rule(ctx):
    """R11.10: 'supplying the same material ... yields the same law': a heterogeneous parameter given as an INTEGER array
    (moduli in Pa: 210_000_000_000) is held as floats -- the laws multiply moduli, and a product of two such int64
    values exceeds 2^63 and wraps around silently (TransverselyIsotropic with integer El, Et, Gl: C off by 42 %).
    _Parameter.__set__ is interpreted on an integer-kind array through every concrete descriptor class."""
    repo = ctx.repo
    base = repo.cls(f"{PARAMS}._Parameter")
    fset = base.methods["__set__"]
    r = ctx.rule("R11.10", "parameter descriptors hold an integer array as floats (int64 products of moduli in Pa overflow silently)", min_instances=3)
    for ci in sorted(repo.subclasses(base), key=lambda c: c.qualname):
        if ci.name in ("BoolParameter", "StringParameter", "ParameterInValues", "ScalarParameter", "PositiveScalarParameter"):
            continue  # not array-valued
        f = repo.lookup_method(ci, "__set__")
        r.instance(fn=f"{ci.qualname}.__set__")
        I = Interp(repo)
        # the checkers (range tests on the values) are not the subject: accept
        I.call_hook = lambda fn, args, kwargs: None if getattr(fn if isinstance(fn, FuncInfo) else getattr(fn, "finfo", None), "name", "").startswith(("_Check", "_checker")) else NotImplemented
        inst = XObj(repo.cls(f"{LAWS}.Isotropic"), {})
        inst.attrs["Need_Update"] = lambda *a, **k: None
        inst.attrs["__dict__"] = {}
        desc = XObj(ci, {base.mangle("__name"): "E", ci.mangle("__inf"): Q(0), ci.mangle("__sup"): Q(10**12), ci.mangle("__values"): []})
        val = XArray((2,), [210_000_000_000, 100_000_000_000], "i")
        try:
            I.call_function(f, [inst, val], self_obj=desc)
        except Uninterpretable as e:
            raise
        stored = inst.attrs["__dict__"].get("E")
        if isinstance(stored, XArray) and stored.dtype == "i":
            r.fail(f"{ci.qualname}.__set__", "integer-array", f.file, f.lineno, f"{ci.name}.__set__", "an integer array is stored with its integer type: the products of moduli in the constitutive laws are int64 products (2.1e11 * 1e11 > 2^63) that wrap around without a warning -- the same material given as integers and as floats yields different laws")
        else:
            r.ok(f"{ci.name}: integer arrays are held as floats")


def heterogeneity_detection_rule(ctx):
    """R11.11: 'for every elastic law ...', also when one parameter is a field: the test that selects the element type of
    the law matrices (`dtype = object if <...> is an array else float`) must see EVERY parameter the matrices are built
    from -- otherwise a law whose only heterogeneous parameter is outside the test is built with dtype=float from a
    ragged literal (ValueError), or silently broadcast.  Dataflow: parameters read by the matrix literals of _Behavior
    (through locals and self-properties) must be a subset of those read by the dtype test."""
    from ..flow import CallGraph

    repo = ctx.repo
    cg = CallGraph(repo)
    base = repo.cls(f"{LAWS}._Elastic")
    pcls = repo.cls(f"{PARAMS}._Parameter")
    r = ctx.rule("R11.11", "heterogeneity detection in _Behavior reads every parameter the law matrices read (sibling laws agree: a field given for any single parameter is detected)", min_instances=3)
    for ci in sorted(repo.subclasses(base), key=lambda c: c.qualname):
        f = ci.methods.get("_Behavior")
        if f is None or f.cls is not ci:
            continue
        params = set()
        for c in ci.mro:
            for nm, expr in c.class_attrs.items():
                if isinstance(expr, ast.Call):
                    pc = repo.resolve_name(c.module, dotted(expr.func) or "")
                    if pc is not None and pcls in getattr(pc, "mro", []) and pc.name not in ("BoolParameter", "StringParameter", "ParameterInValues", "ScalarParameter", "PositiveScalarParameter", "InstanceParameter"):
                        params.add(nm)  # descriptors that accept a field
        if not params:
            continue
        # the element type of the law matrices: whatever is passed as `dtype=` to their np.array(...) literals (a local of any
        # name, or an inline conditional); its defining assignment is the heterogeneity test
        lits0 = [n for n in ast.walk(f.node) if isinstance(n, ast.Call) and (dotted(n.func) or "").endswith("np.array") and n.args and isinstance(n.args[0], (ast.List, ast.Tuple)) and any(k.arg == "dtype" for k in n.keywords)]
        dnames = {k.value.id for n in lits0 for k in n.keywords if k.arg == "dtype" and isinstance(k.value, ast.Name)}
        dt = [n for n in ast.walk(f.node) if isinstance(n, ast.Assign) and any(isinstance(t, ast.Name) and t.id in dnames for t in n.targets) and any(isinstance(x, ast.Name) and x.id in ("object", "float") for x in ast.walk(n.value))]
        if not dt:
            continue
        r.instance(fn=f.qualname)
        # locals -> parameters they are computed from (transitively, through self properties)
        defs = {}
        for n in ast.walk(f.node):
            if isinstance(n, ast.Assign):
                for t in n.targets:
                    for x in (t.elts if isinstance(t, (ast.Tuple, ast.List)) else [t]):
                        if isinstance(x, ast.Name):
                            defs.setdefault(x.id, []).append(n.value)

        def reads(e, seen=None, depth=0):
            seen = seen if seen is not None else set()
            out = set()
            for x in ast.walk(e):
                if isinstance(x, ast.Attribute) and isinstance(x.value, ast.Name) and x.value.id == "self":
                    if x.attr in params:
                        out.add(x.attr)
                    else:
                        for g in cg.resolve_self_attr(ci, x.attr, include_overrides=False):
                            if id(g) not in seen and depth < 4:
                                seen.add(id(g))
                                out |= reads(g.node, seen, depth + 1)
                elif isinstance(x, ast.Name) and x.id in defs and x.id not in seen:
                    seen.add(x.id)
                    for v in defs[x.id]:
                        out |= reads(v, seen, depth)
                elif isinstance(x, ast.Call) and isinstance(x.func, ast.Attribute) and isinstance(x.func.value, ast.Name) and x.func.value.id == "self":
                    for g in cg.resolve_self_attr(ci, x.func.attr, include_overrides=False):
                        if id(g) not in seen and depth < 4:
                            seen.add(id(g))
                            out |= reads(g.node, seen, depth + 1)
            return out

        tested = reads(dt[0].value)
        literals = [n for n in ast.walk(f.node) if isinstance(n, ast.Call) and (dotted(n.func) or "").endswith("np.array") and n.args and isinstance(n.args[0], (ast.List, ast.Tuple)) and any(k.arg == "dtype" for k in n.keywords)]
        used = set()
        for lit in literals:
            used |= reads(lit.args[0])
        missing = sorted(used - tested)
        if missing:
            r.fail(f.qualname, "dtype-test", f.file, dt[0].lineno, f"{ci.name}._Behavior", f"`{norm_text(dt[0])[:70]}` reads the parameters {sorted(tested)} while the law matrices also read {missing}: a field given for {missing[0]} alone is not detected (the matrices are built with dtype=float from ragged entries)")
        else:
            r.ok(f"{ci.name}._Behavior: the dtype test reads every parameter of the matrices ({sorted(used)})")


def integer_stiffness_rule(ctx):
    """R11.12: 'supplying the same material in Voigt or Kelvin-Mandel notation ... yields the same law' -- also when the
    matrix is typed with INTEGERS (a stiffness table in GPa).  Anisotropic._Behavior is interpreted, with the integer
    array model of the interpreter (storing a definite non-integer into an integer-kind buffer is numpy's silent
    truncation), on an integer 2-D Voigt matrix with coupling terms C16, C26: the law must be the one the same numbers
    typed as floats give (kappa_i kappa_j C_ij), for the homogeneous matrix and for a per-element field of them."""
    from ..xarray import XTruncation

    repo = ctx.repo
    r = ctx.rule("R11.12", "Anisotropic._Behavior on an integer-typed Voigt stiffness (2-D, coupling terms) gives the law of the same numbers typed as floats: no buffer inherits the integer type", min_instances=2)
    ci = repo.cls(f"{LAWS}.Anisotropic")
    f = ci.methods["_Behavior"]
    s2 = MQ.sqrt(2)

    def hook(fn, args, kwargs):
        if isinstance(fn, FuncInfo) and fn.name == "Get_Pmat":
            return Opaque("P")
        if isinstance(fn, FuncInfo) and fn.name == "Apply_Pmat":
            return args[1]
        if isinstance(fn, _NpAttr) and fn.path in ("linalg.norm", "max"):
            return Junk()
        return NotImplemented

    base = [[10, 4, 5], [4, 12, 7], [5, 7, 6]]
    cases = {"homogeneous (3, 3)": XArray((3, 3), [v for row in base for v in row], "i"), "per-element (2, 3, 3)": XArray((2, 3, 3), [v + 2 * e for e in range(2) for row in base for v in row], "i")}
    kap = [Q(1), Q(1), s2]
    for label, Cin in cases.items():
        r.instance(fn=f.qualname)
        I = Interp(repo)
        I.call_hook = hook
        obj = XObj(ci, {"dim": 2, "_Anisotropic__axis1": Opaque("a1"), "_Anisotropic__axis2": Opaque("a2")})
        try:
            out = XArray.from_nested(I.call_function(f, [Cin, True], self_obj=obj))
        except (XTruncation, Uninterpretable) as e:
            if "integer type" in str(e):
                r.fail(f.qualname, f"integer-voigt:{label}", f.file, f.lineno, "Anisotropic._Behavior", f"integer Voigt matrix, {label}: {str(e).split(': ', 1)[-1] if ': ' in str(e) else e}: the sqrt(2)-scaled coupling terms are truncated (7.07 -> 7, 9.90 -> 9) and the law differs from the one of the same matrix typed as floats")
                continue
            raise
        bad = None
        lead = Cin.shape[:-2]
        for e in range(lead[0] if lead else 1):
            for i in range(3):
                for j in range(3):
                    src = Cin[(e, i, j)] if lead else Cin[i, j]
                    got = out[(e, i, j)] if lead else out[i, j]
                    want = MQ.of(Q(src)) * kap[i] * kap[j]
                    if bad is None and not (MQ.of(exact_num(got)) - want).is_zero():
                        bad = f"entry [{i},{j}]{f' of element {e}' if lead else ''} is {got}, expected kappa_i kappa_j C_ij = {want}"
        if bad:
            r.fail(f.qualname, f"integer-voigt:{label}", f.file, f.lineno, "Anisotropic._Behavior", f"integer Voigt matrix, {label}: {bad}")
        else:
            r.ok(f"integer Voigt matrix, {label}: kappa_i kappa_j C_ij exactly")


def exact_num(x):
    from ..xeval import exact

    x = exact(x)
    if isinstance(x, Poly) and x.is_const():
        x = x.const_value()
    return x


def admissibility_rule(ctx, rid="R11.13"):
    """'For every elastic law the stiffness is symmetric positive definite': the moduli an orthotropic / transversely
    isotropic law accepts.  `_Behavior` is interpreted at exact rational parameter points (chosen so that every square
    root the tests take is rational); the compliance literal it builds is classified exactly (Sylvester: leading
    principal minors in Q).  A positive definite compliance must be ACCEPTED (no admissibility test may refuse a
    material of the class, with the stiff direction first or last), and a compliance that is not positive definite
    (a 2 x 2 principal minor or the determinant of the normal block not positive) must be REFUSED."""
    repo = ctx.repo
    r = ctx.rule(rid, "admissible moduli: at exact parameter points inside the declared parameter ranges of the pinned version, the parameter descriptors and `_Behavior` accept the material iff the compliance literal is positive definite (2 x 2 minors and determinant of the normal block; stiff axis first, second or last; orthotropic and transversely isotropic)", min_instances=40)
    pts = []
    # every point lies inside the parameter ranges the pinned version declares (reference table: Poisson ratios of the orthotropic
    # law and vl in ]-1, 1/2[, vt in ]-1, 1[): a range narrowed later refuses materials that are positive definite
    # Orthotropic: (E1, E2, E3) permutations of (1, 16, 256); the 2 x 2 bounds sqrt(E_i / E_j) are 1/4, 1/16 (they bite inside the
    # declared range) or 4, 16 (they do not)
    for E in ((1, 16, 256), (256, 16, 1), (16, 256, 1), (16, 1, 256), (1, 256, 16), (256, 1, 16)):
        E1, E2, E3 = (Q(x) for x in E)
        bounds = [MQ.sqrt(E2 / E3).rational(), MQ.sqrt(E1 / E3).rational(), MQ.sqrt(E1 / E2).rational()]
        for k in range(3):
            vals = [bounds[k] * Q(3, 4), bounds[k] * Q(5, 4), -bounds[k] * Q(3, 4)] if bounds[k] <= Q(1, 4) else [Q(2, 5), Q(-2, 5)]
            for v in vals:
                vv = [Q(0)] * 3
                vv[k] = v
                pts.append(("Orthotropic", dict(E1=E1, E2=E2, E3=E3, G23=Q(3), G13=Q(5), G12=Q(7), v23=vv[0], v13=vv[1], v12=vv[2])))
        half = [min(b, Q(4, 5)) / 2 for b in bounds]
        pts.append(("Orthotropic", dict(E1=E1, E2=E2, E3=E3, G23=Q(3), G13=Q(5), G12=Q(7), v23=half[0], v13=half[1] / 2, v12=half[2] / 2)))
    # all 2 x 2 minors positive, determinant negative
    pts.append(("Orthotropic", dict(E1=Q(1), E2=Q(4), E3=Q(16), G23=Q(3), G13=Q(5), G12=Q(7), v23=Q(2, 5), v13=Q(1, 5), v12=Q(2, 5))))
    pts.append(("Orthotropic", dict(E1=Q(1), E2=Q(4), E3=Q(16), G23=Q(3), G13=Q(5), G12=Q(7), v23=Q(1, 5), v13=Q(1, 10), v12=Q(1, 5))))
    # transversely isotropic: positive definite iff -1 < vt and 1 - vt - 2 vl^2 Et / El > 0
    for El, Et, vl, vt in ((1, 16, Q(1, 5), Q(9, 20)), (1, 16, Q(1, 10), Q(9, 20)), (16, 1, Q(1, 4), Q(1, 4)), (16, 1, Q(2, 5), Q(9, 10)), (1, 4, Q(2, 5), Q(-1, 2)), (1, 1, Q(2, 5), Q(7, 10)),
                           (1, 1, Q(1, 10), Q(7, 10)), (4, 1, Q(0), Q(19, 20)), (1, 1, Q(-9, 10), Q(-1, 2)), (1, 1, Q(2, 5), Q(-9, 10))):
        pts.append(("TransverselyIsotropic", dict(El=Q(El), Et=Q(Et), Gl=Q(3), vl=vl, vt=vt)))
    params_mod = "EasyFEA.Utilities._params"

    def declared(ci):
        """{parameter: (descriptor class, keyword arguments)} read from the class body"""
        out = {}
        for c in ci.mro:
            for st in c.node.body:
                if isinstance(st, ast.AnnAssign) and isinstance(st.target, ast.Name) and isinstance(st.value, ast.Call) and st.target.id not in out:
                    d = (dotted(st.value.func) or "").split(".")[-1]
                    if d.endswith("Parameter"):
                        kw = {}
                        for k in st.value.keywords:
                            try:
                                kw[k.arg] = Q(str(ast.literal_eval(k.value)))
                            except Exception:
                                kw[k.arg] = None
                        out[st.target.id] = (d, kw)
        return out

    def descriptor_refuses(I, ci, name, value):
        d = declared(ci).get(name)
        if d is None:
            return None
        dname, kw = d
        try:
            dci = repo.cls(f"{params_mod}.{dname}")
        except Exception:
            return None
        fchk = repo.lookup_method(dci, "_checker")
        if fchk is None:
            return None
        dobj = XObj(dci, {dci.mangle("__" + k): v for k, v in kw.items()})
        try:
            I.call_function(fchk, [value], self_obj=dobj)
        except XRaise as e:
            return f"{name} = {value}: {dname}({', '.join(f'{k}={v}' for k, v in kw.items())}) refuses it ({e.msg or e.exc_name})"
        return None

    tally = {"accepted": 0, "refused": 0}
    for cname, prm in pts:
        ci = repo.cls(f"{LAWS}.{cname}")
        f = ci.methods["_Behavior"]
        cap = {}
        obj = XObj(ci, dict(prm))
        obj.attrs.update(dim=3, planeStress=False)
        for ax in ("axis_l", "axis_t", "axis_1", "axis_2"):
            obj.attrs[ax] = Opaque(ax)

        def capture(**kw):
            cap.update(kw)
            return (kw["material_cM"], kw["material_sM"])

        obj.attrs["_Apply_basis_transformation"] = capture
        I = Interp(repo)
        I.call_hook = base_hook
        r.instance(fn=f.qualname)
        refused = None
        # the parameter descriptors run first (at construction and at every assignment)
        for pn, pv in prm.items():
            refused = refused or descriptor_refuses(I, ci, pn, pv)
        try:
            if refused is None:
                I.call_function(f, [3], self_obj=obj)
        except XRaise as e:
            if e.exc_name != "AssertionError":
                r.fail(f.qualname, f"raises:{e.exc_name}", f.file, f.lineno, f"{cname}._Behavior", f"raises {e} at {prm}")
                continue
            refused = e.msg
        # the compliance of the class, from the parameters (engineering constants): classification in Q
        p = prm
        if cname == "TransverselyIsotropic":
            p = dict(E1=p["El"], E2=p["Et"], E3=p["Et"], v12=p["vl"], v13=p["vl"], v23=p["vt"])
        S3 = [[1 / p["E1"], -p["v12"] / p["E1"], -p["v13"] / p["E1"]], [-p["v12"] / p["E1"], 1 / p["E2"], -p["v23"] / p["E2"]], [-p["v13"] / p["E1"], -p["v23"] / p["E2"], 1 / p["E3"]]]
        m2 = [S3[a][a] * S3[b][b] - S3[a][b] ** 2 for a, b in ((0, 1), (0, 2), (1, 2))]
        det = (S3[0][0] * (S3[1][1] * S3[2][2] - S3[1][2] ** 2) - S3[0][1] * (S3[0][1] * S3[2][2] - S3[1][2] * S3[0][2]) + S3[0][2] * (S3[0][1] * S3[1][2] - S3[1][1] * S3[0][2]))
        spd = all(m > 0 for m in m2) and det > 0
        bad2 = any(m <= 0 for m in m2)
        label = ", ".join(f"{k}={v}" for k, v in prm.items() if k[0] in "Ev")
        if spd and refused is not None:
            r.fail(f.qualname, f"refuses-admissible:{refused[:60]}", f.file, f.lineno, f"{cname}._Behavior", f"a material whose compliance is positive definite ({label}) is refused by `{refused}`: the test is not a consequence of positive definiteness (it bounds the ratio the wrong way round)")
        elif not spd and refused is None:
            r.fail(f.qualname, "accepts-indefinite-2x2" if bad2 else "accepts-indefinite", f.file, f.lineno, f"{cname}._Behavior", f"a material whose compliance is not positive definite ({label}: {'a 2 x 2 principal minor' if bad2 else 'the determinant of the normal block'} is not positive) is accepted: the stiffness handed out is not positive definite")
        else:
            tally["accepted" if refused is None else "refused"] += 1
            r.ok(f"{cname} {label}: {'accepted' if refused is None else 'refused'} ({'positive definite' if spd else 'indefinite'})")
    if min(tally.values()) < 10:
        raise AnalysisError(f"{rid}: the parameter points no longer exercise both verdicts ({tally})")
