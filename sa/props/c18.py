"""C18 -- hyperelastic laws: the assembled dW and d2W of every built-in law are
compared, coefficient by coefficient, with the symbolic derivatives of W."""

from __future__ import annotations

import ast
import json
import os
import shutil
import subprocess
from fractions import Fraction

from ..alg import Lin, Q, MQ, Poly, is_zero
from ..repo import AnalysisError, dotted, norm_text, FuncInfo
from ..xeval import Interp, XObj, Opaque, XRaise, Uninterpretable, _NpAttr

LAWS = "EasyFEA.Models.HyperElastic._laws"
HERE = os.path.dirname(os.path.dirname(os.path.abspath(__file__)))


class SE:
    """expression in sympy syntax, built by the interpreter"""

    _xeval_open = True

    def __init__(self, s):
        self.s = s

    @staticmethod
    def of(x):
        if isinstance(x, SE):
            return x
        if isinstance(x, bool):
            raise AnalysisError("boolean in an energy expression")
        if isinstance(x, int):
            return SE(str(x))
        if isinstance(x, float):
            x = Fraction(repr(x))
        if isinstance(x, Fraction):
            return SE(f"Rational({x.numerator},{x.denominator})" if x.denominator != 1 else str(x.numerator))
        if isinstance(x, Poly) and x.is_const():
            return SE.of(x.const_value())
        if isinstance(x, MQ) and x.is_rational():
            return SE.of(x.rational())
        raise AnalysisError(f"cannot embed {type(x).__name__} in an energy expression")

    def is_zero(self):
        return self.s == "0"

    def _b(self, o, op, refl=False):
        if isinstance(o, Lin):
            return NotImplemented
        o = SE.of(o)
        a, b = (o, self) if refl else (self, o)
        return SE(f"(({a.s}){op}({b.s}))")

    def __add__(self, o):
        return self._b(o, "+")

    def __radd__(self, o):
        return self._b(o, "+", True)

    def __sub__(self, o):
        return self._b(o, "-")

    def __rsub__(self, o):
        return self._b(o, "-", True)

    def __mul__(self, o):
        return self._b(o, "*")

    def __rmul__(self, o):
        return self._b(o, "*", True)

    def __truediv__(self, o):
        return self._b(o, "/")

    def __rtruediv__(self, o):
        return self._b(o, "/", True)

    def __pow__(self, o):
        return self._b(o, "**")

    def __rpow__(self, o):
        return self._b(o, "**", True)

    def __neg__(self):
        return SE(f"(-({self.s}))")

    def __pos__(self):
        return self

    def __repr__(self):
        return self.s


class TL(Lin):
    """linear form over tensor atoms (dIk, d2Ik, TP(dIi,dIj)) with SE coefficients"""

    _xeval_open = True


class State:
    _xeval_open = True

    def __init__(self):
        self.reads = []

    def __getattr__(self, name):
        if name.startswith("__"):
            raise AttributeError(name)
        self.reads.append(name)
        if name.startswith("Compute_I") and name[len("Compute_I"):].isdigit():
            return lambda *a, **k: SE("I" + name[len("Compute_I"):])
        if name.startswith("Compute_dI") and name.endswith("dC"):
            return lambda *a, **k: TL.atom("dI" + name[len("Compute_dI"):-2])
        if name.startswith("Compute_d2I") and name.endswith("dC"):
            return lambda *a, **k: TL.atom("d2I" + name[len("Compute_d2I"):-2])
        raise AnalysisError(f"the law reads the state through `{name}`, not through an invariant of C")


def hook(fn, args, kwargs):
    if isinstance(fn, _NpAttr) and fn.path in ("exp", "log", "sqrt") and args and isinstance(args[0], SE):
        return SE(f"{fn.path}({args[0].s})")
    if isinstance(fn, FuncInfo) and fn.name == "TensorProd":
        a, b = args[0], args[1]
        if isinstance(a, TL) and isinstance(b, TL) and len(a.t) == 1 and len(b.t) == 1:
            (na, ca), = a.t.items()
            (nb, cb), = b.t.items()
            return TL({f"TP({na},{nb})": SE.of(ca) * SE.of(cb)})
        raise AnalysisError("TensorProd of non-atomic tensors")
    return NotImplemented


def extract(repo, ci):
    I = Interp(repo)
    I.call_hook = hook
    obj = XObj(ci)

    def attr_hook(o, attr):
        if o is obj:
            if repo.lookup_method(ci, attr) is not None or repo.lookup_method(ci, ci.mangle(attr)) is not None:
                return NotImplemented
            from ..xeval import _Frame

            if attr in o.attrs or ci.mangle(attr) in o.attrs or _Frame._init_literal(None, o, ci.mangle(attr))[0] or _Frame._init_literal(None, o, attr)[0]:
                return NotImplemented  # a field the constructor initialises with a literal (a lazy memo starts empty)
            return SE(attr.lstrip("_"))
        return NotImplemented

    I.attr_hook = attr_hook
    out = {}
    states = {}
    for m in ("Compute_W", "Compute_dWde", "Compute_d2Wde"):
        f = ci.methods[m]
        st = State()
        out[m] = I.call_function(f, [st], self_obj=obj)
        states[m] = st
    return out, states


def run(ctx):
    from ..shared import foreign_state_rule as _fsr

    ctx.attempt(_fsr, ctx, 'R18.21', lambda f, _s=('EasyFEA.FEM', 'EasyFEA.Simulations', 'EasyFEA.Models'): f.module.name.startswith(_s))
    from . import e2e_rules as _e2e

    ctx.attempt(_e2e.dynamics_rule, ctx, 'R18.E1')
    ctx.attempt(_e2e.hyperelastic_rule, ctx, 'R18.E2')
    from ..shared import lazy_field_memo_rule as _lazy_field_memo_rule

    ctx.attempt(_lazy_field_memo_rule, ctx, 'R18.22', lambda ci: ci.module.name.startswith('EasyFEA.Models'), 1)
    ctx.attempt(kinematics_rule, ctx)
    from .c18ops import operator_rule, surface_operator_rule, clenshaw_curtis_rule, adaptive_bookkeeping_rule

    ctx.attempt(clenshaw_curtis_rule, ctx)
    ctx.attempt(strain_path_rule, ctx)
    ctx.attempt(invariant_value_rule, ctx)
    from . import c05 as _c05

    # 'under the midpoint scheme, free motion conserves kinetic plus stored energy': the scheme relations the balance rests on
    ctx.attempt(_c05.midpoint_lemma_rule, ctx, "R18.19")
    ctx.attempt(adaptive_bookkeeping_rule, ctx)
    from .c16 import active_stress_guard_rule as _active_stress_guard_rule

    ctx.attempt(_active_stress_guard_rule, ctx, "R18.16")
    ctx.attempt(surface_operator_rule, ctx)
    ctx.attempt(operator_rule, ctx)
    # 'over arbitrarily many steps': no memo of the step-start state survives the end of the step
    from ..shared import memo_rule as _memo_rule, cached_param_rule as _cached_param_rule

    _scope = ("EasyFEA.Simulations._hyperelastic", "EasyFEA.Models.HyperElastic", "EasyFEA.FEM.Operators.NonLinear", "EasyFEA.Simulations._simu")
    ctx.attempt(_memo_rule, ctx, "R18.8", scope=lambda f: f.module.name.startswith(_scope), min_instances=0)
    ctx.attempt(_cached_param_rule, ctx, "R18.9", min_instances=20)
    from ..shared import decorator_memo_rule as _decorator_memo_rule

    ctx.attempt(_decorator_memo_rule, ctx, "R18.14", lambda ci: ci.module.name.startswith(("EasyFEA.Models.HyperElastic", "EasyFEA.FEM.Operators.NonLinear")), min_instances=10)
    from . import c14 as _c14

    ctx.attempt(_c14.simu_memo_state_rule, ctx, "R18.10")
    repo = ctx.repo
    ctx.level = "proof"
    ctx.explanation = (
        "For each built-in hyperelastic law the AST of Compute_W / Compute_dWde / Compute_d2Wde is interpreted into (i) the energy as an expression in the invariants and "
        "(ii) the assembled stress and tangent as linear forms over the tensor atoms dIk/dC, d2Ik/dC2, dIi/dC (x) dIj/dC. Every coefficient is compared with the symbolic "
        "derivative of W (2 dW/dIk, 4 dW/dIk, 4 d2W/dIidIj; absent terms must have a zero derivative), for all deformation states and parameter values. Reference state: "
        "W = 0 and zero stress at C = I. The invariant derivatives of _state.py (R18.2), the Green-Lagrange kinematics (R18.11) and EVERY "
        "non-linear element operator, interpreted end to end on a symbolic element with a generic polynomial energy (residual == dE/dU, tangent == dR/dU, damping, Gonzalez discrete gradient: R18.12, R18.13), "
        "the Clenshaw-Curtis rule (R18.15) and the bookkeeping of the adaptive rule (R18.17) are decided. NOT decided: AutoDiff laws, convergence of the Newton iterations, energy drift of a real run."
    )
    ctx.trust("sympy (tooling venv) as rewriting engine: diff, together, expand; cross-checked by 60-digit evaluation at random rational points when the normal form is not reached")
    ctx.trust("sa/xeval.py interpreter; substitution I3 = t^6 (t > 0) to clear the rational powers")
    r1 = ctx.rule("R18.1", "law derivatives: every coefficient of the assembled dW and d2W equals the corresponding derivative of W", min_instances=5)
    r3 = ctx.rule("R18.3", "reference state: W = 0, isotropic stress W_1 + 2 W_2 + W_3 = 0 and fibre terms vanish at I1=I2=3, I3=1, I4=I6=1, I8=0", min_instances=5)
    time_quadrature_rule(ctx)
    invariant_rules(ctx)
    thickness_degree_rule(ctx)
    r4 = ctx.rule("R18.4", "objectivity by construction: the laws read the deformation only through invariants of C", min_instances=5)
    base = repo.cls(f"{LAWS}._HyperElastic")
    laws = [c for c in repo.subclasses(base) if c.name not in ("AutoDiff",) and all(m in c.methods and c.methods[m].cls is c for m in ("Compute_W", "Compute_dWde", "Compute_d2Wde"))]
    payload = {"laws": {}, "seed": ctx.seed, "points": 200 if ctx.tier == "thorough" else 40}
    # second derivatives of invariants that are identically zero in _state.py (terms with them may be omitted)
    st = repo.cls("EasyFEA.Models.HyperElastic._state.HyperElasticState")
    zero_atoms = set()

    def returns_zero(f, depth=0):
        rets = [n.value for n in ast.walk(f.node) if isinstance(n, ast.Return) and n.value is not None]
        if len(rets) != 1 or depth > 3:
            return False
        v = rets[0]
        if isinstance(v, ast.Call) and (dotted(v.func) or "") == "self._Slice_Matrix" and v.args:
            v = v.args[0]
        if isinstance(v, ast.Call) and (dotted(v.func) or "") in ("FeArray.zeros", "np.zeros"):
            return True
        if isinstance(v, ast.Call) and (dotted(v.func) or "").startswith("self.Compute_d2I"):
            g = st.methods.get((dotted(v.func) or "").split(".")[-1])
            return g is not None and returns_zero(g, depth + 1)
        return False

    for k in ("1", "2", "3", "4", "6", "8"):
        g = st.methods.get(f"Compute_d2I{k}dC")
        if g is not None and returns_zero(g):
            zero_atoms.add(f"d2I{k}")
    payload["zero_atoms"] = sorted(zero_atoms)
    ctx.extra["zero_second_derivative_invariants"] = sorted(zero_atoms)
    meta = {}
    for ci in laws:
        f = ci.methods["Compute_W"]
        r4.instance(fn=f.qualname)
        try:
            out, states = extract(repo, ci)
        except AnalysisError as e:
            if "reads the state through" in str(e):
                r4.fail(f.qualname, "state-read", f.file, f.lineno, f"{ci.name}", str(e))
                continue
            raise
        r4.ok(f"{ci.name}: state read only through {sorted(set(states['Compute_W'].reads))}")
        W, dW, d2W = out["Compute_W"], out["Compute_dWde"], out["Compute_d2Wde"]
        if not isinstance(W, SE) or not isinstance(dW, TL) or not isinstance(d2W, TL):
            raise AnalysisError(f"{ci.name}: W / dW / d2W are not of the expected algebraic kinds ({type(W).__name__}, {type(dW).__name__}, {type(d2W).__name__})")
        bad_atoms = [a for a in dW.t if not a.startswith("dI")] + [a for a in d2W.t if not (a.startswith("d2I") or a.startswith("TP("))]
        if bad_atoms:
            r1.fail(ci.methods["Compute_dWde"].qualname, f"atoms:{bad_atoms}", ci.file, ci.methods["Compute_dWde"].lineno, ci.name, f"unexpected tensor atoms {bad_atoms} in the stress / tangent")
        payload["laws"][ci.name] = {"W": W.s, "dW": {a: SE.of(c).s for a, c in dW.t.items()}, "d2W": {a: SE.of(c).s for a, c in d2W.t.items()}}
        meta[ci.name] = ci
    if len(payload["laws"]) < 5:
        raise AnalysisError(f"only {len(payload['laws'])} laws extracted")
    exe = shutil.which("python3-vt") or "/opt/veriftools/pyvenv/bin/python"
    if not os.path.exists(exe) and shutil.which("python3-vt") is None:
        raise AnalysisError("python3-vt (sympy) is not available: C18 cannot be decided")
    p = subprocess.run([exe, os.path.join(HERE, "sym_c18.py")], input=json.dumps(payload), capture_output=True, text=True, timeout=900)
    if p.returncode != 0:
        raise AnalysisError(f"sympy side failed: {p.stderr[-600:]}")
    res = json.loads(p.stdout)
    randomised = 0
    for law, obs in res["laws"].items():
        ci = meta[law]
        for o in obs:
            is_ref = "reference" in o["ob"] or "vanishes" in o["ob"]
            rule = r3 if is_ref else r1
            rule.instance(fn=f"{ci.qualname}")
            if o["ok"]:
                if "randomised" in o["how"]:
                    randomised += 1
                rule.ok(f"{law}: {o['ob']} [{o['how']}]" if ("TP(" not in o["ob"] or "I1" in o["ob"]) else None)
            else:
                which = "Compute_W" if is_ref else ("Compute_dWde" if "in dW" in o["ob"] else "Compute_d2Wde")
                f = ci.methods[which]
                rule.fail(f.qualname, o["ob"], f.file, f.lineno, f"{law}.{which}", f"{law}: {o['ob']} does NOT hold ({o['how']}; witness {o['witness']})")
    if randomised:
        r1.note(f"{randomised} identities decided by the randomised identity test (normal form not reached by the rewriting engine)")


def time_quadrature_rule(ctx):
    """R18.6: fixed-rule branch of TimeQuadratureStressTensor interpreted with symbolic weights: the averaged stress
    is sum_k w_k dW(e(s_k)) and the tangent sum_k (w_k s_k / coefK) d2W(e(s_k)), where e(s) is the strain path between
    the two END states (e(0) = state_n, e(1) = state_np1); the scheme's base state u_t never enters the average."""
    from types import SimpleNamespace

    from ..alg import is_zero
    from ..xarray import XArray

    repo = ctx.repo
    r = ctx.rule("R18.6", "strain-path quadrature (energy-conserving stress): S_quad = sum_k w_k dW/de(e(s_k)), tangent sum_k (w_k s_k / coefK) d2W/de2(e(s_k)), e(s) on the segment between the strains of state_n and state_np1 for every node, weight and coefK", min_instances=4)
    f = repo.func("EasyFEA.FEM.Operators.NonLinear.TimeQuadratureStressTensor")
    # the fixed-rule block: the `if` whose body loops over the Clenshaw-Curtis nodes
    blk = None
    for n in ast.walk(f.node):
        if isinstance(n, ast.If):
            for st in n.body:
                if isinstance(st, ast.For) and "clenshaw_curtis" in norm_text(st.iter):
                    blk = (n, st)
    if blk is None:
        raise AnalysisError("TimeQuadratureStressTensor: fixed Clenshaw-Curtis loop not found")
    ifnode, loop = blk
    acc = {}
    for n in ast.walk(loop):
        if isinstance(n, ast.AugAssign) and isinstance(n.target, ast.Name):
            for c in ast.walk(n.value):
                if isinstance(c, ast.Call) and isinstance(c.func, ast.Attribute) and c.func.attr in ("Compute_dWde", "Compute_d2Wde"):
                    acc[c.func.attr] = n.target.id
    if set(acc) != {"Compute_dWde", "Compute_d2Wde"}:
        raise AnalysisError("TimeQuadratureStressTensor: accumulators of Compute_dWde / Compute_d2Wde not found")
    params = f.params()
    half = Q(1, 2)
    rules = {1: [half], 2: [Q(0), Q(1)], 3: [Q(0), half, Q(1)], 5: [Q(0), Q(1, 7), half, Q(6, 7), Q(1)]}

    class St:
        def __init__(self, tag):
            self.tag = tag
            self.groupElem = SimpleNamespace(Ne=1)

    for coefK in (half, Q(1), Q(3, 4)):
        for npts, nodes in rules.items():
            r.instance(fn=f.qualname)
            ws = [Poly.var(f"w{k}") for k in range(len(nodes))]
            sn, st, snp = St("path:0"), St("T"), St("path:1")

            def hk(fn, args, kwargs, nodes=nodes, ws=ws):
                if isinstance(fn, FuncInfo) and fn.name.endswith("clenshaw_curtis"):
                    return (list(nodes), list(ws))
                if isinstance(fn, (FuncInfo,)) and fn.name == "_StrainPathState" or getattr(fn, "name", "") == "_StrainPathState":
                    a, b, s = args[0], args[1], args[2]
                    if a.tag != "path:0" or b.tag != "path:1":
                        return St(f"badpath({a.tag},{b.tag},{s})")
                    return St(f"path:{Q(s)}")
                return NotImplemented

            I = Interp(repo)
            I.call_hook = hk
            material = SimpleNamespace(Compute_dWde=lambda s: Poly.var("dW[" + s.tag + "]"), Compute_d2Wde=lambda s: Poly.var("d2W[" + s.tag + "]"))
            env = {}
            vals = dict(material=material, state_n=sn, state_t=st, state_np1=snp, coefK=coefK, nPoints=npts, groupElem=SimpleNamespace(Ne=1))
            for p in params:
                env[p] = vals.get(p, None)
            for k, v in vals.items():
                env.setdefault(k, v)
            # locals defined before the block and read inside it
            pre = {}
            for stt in f.node.body:
                if stt is ifnode:
                    break
                if isinstance(stt, ast.Assign) and isinstance(stt.targets[0], ast.Name) and norm_text(stt.value) in ("state_t.groupElem",):
                    pre[stt.targets[0].id] = SimpleNamespace(Ne=1)
            env.update(pre)
            got_dw, got_d2 = I.run_statements(ifnode.body, env, f.module, [acc["Compute_dWde"], acc["Compute_d2Wde"]])
            want_dw = sum((ws[k] * Poly.var(f"dW[path:{Q(s)}]") for k, s in enumerate(nodes)), Poly())
            want_d2 = sum((ws[k] * s / coefK * Poly.var(f"d2W[path:{Q(s)}]") for k, s in enumerate(nodes) if s != 0), Poly())
            if is_zero(got_dw - want_dw) and is_zero(got_d2 - want_d2):
                r.ok(f"nPoints={npts}, coefK={coefK}: path average of dW and s-weighted d2W")
            else:
                r.fail(f.qualname, f"path-average:n{npts}:k{coefK}", f.file, loop.lineno, "TimeQuadratureStressTensor",
                       f"nPoints={npts}, coefK={coefK}: averaged stress {got_dw!r} / tangent {got_d2!r}; expected {want_dw!r} / {want_d2!r} (every node on the strain path between the end states): S_quad : de != dW, the discrete energy balance is lost")


def invariant_rules(ctx):
    """R18.2: the hand-written first and second derivatives of the invariants of C in _state.py are the derivatives of
    the invariants themselves, in the Kelvin-Mandel convention used by the laws (shear entries carry sqrt(2)):
    dIk[a] = s_a dIk/dc_a, d2Ik[a][b] = s_a s_b d2Ik/dc_a dc_b with s = (1, 1, 1, 1/sqrt2, 1/sqrt2, 1/sqrt2) over
    (xx, yy, zz, yz, xz, xy) - polynomial identities in the components of C and of the fibre directions."""
    from ..alg import is_zero
    from ..femchain import XFe, fe_hook_full
    from ..xarray import XArray
    from ..xeval import XObj

    repo = ctx.repo
    r = ctx.rule("R18.2", "invariants of C: dIk/dC and d2Ik/dC2 in _state.py are the Kelvin-Mandel derivatives of Ik (k = 1, 2, 3 and the fibre invariants 4, 6, 8), as polynomial identities", min_instances=10)
    st = repo.cls("EasyFEA.Models.HyperElastic._state.HyperElasticState")
    names = ["cxx", "cyy", "czz", "cyz", "cxz", "cxy"]
    c = {n: Poly.var(n) for n in names}
    f1 = lambda p: XFe((1, 1), [p])
    C9 = [f1(c["cxx"]), f1(c["cxy"]), f1(c["cxz"]), f1(c["cxy"]), f1(c["cyy"]), f1(c["cyz"]), f1(c["cxz"]), f1(c["cyz"]), f1(c["czz"])]
    s2 = MQ.sqrt(2)
    scale = [Q(1), Q(1), Q(1), 1 / s2, 1 / s2, 1 / s2]

    class Dir:
        def __init__(self, tag):
            self.tag = tag

    T1, T2 = Dir("p"), Dir("q")
    comps = lambda T: tuple(f1(Poly.var(f"{T.tag}{k}")) for k in "xyz")
    obj = XObj(st, dict(_Compute_C=lambda: list(C9), _GetDims=lambda: (1, 1, 3), _Get_normalized_components=comps))
    I = Interp(repo)
    I.call_hook = fe_hook_full

    def scalar(v):
        v = XArray.from_nested(v) if not isinstance(v, Poly) else v
        return v if isinstance(v, Poly) else (v.data[0] if not isinstance(v.data[0], (int, Fraction)) else Poly.const(v.data[0]))

    def topoly(x):
        return x if isinstance(x, Poly) else Poly.const(x)

    cases = [("1", []), ("2", []), ("3", []), ("4", [T1]), ("6", [T1]), ("8", [T1, T2])]
    for k, args in cases:
        fI = st.methods.get(f"Compute_I{k}")
        fd = st.methods.get(f"Compute_dI{k}dC")
        fdd = st.methods.get(f"Compute_d2I{k}dC")
        if fI is None or fd is None:
            raise AnalysisError(f"HyperElasticState.Compute_I{k} / Compute_dI{k}dC not found")
        Ik = topoly(scalar(I.call_function(fI, list(args), self_obj=obj)))
        d = XArray.from_nested(I.call_function(fd, list(args), self_obj=obj)).reshape(-1)
        r.instance(fn=fd.qualname)
        bad = None
        if d.size != 6:
            bad = f"dI{k}dC has {d.size} entries in 3-D"
        else:
            for a, nm in enumerate(names):
                want = Ik.diff(nm) * scale[a]
                if not is_zero(topoly(d.data[a]) - want):
                    bad = f"entry {a} ({nm[1:]}) is {d.data[a]!r}, expected {want!r}"
        if bad:
            r.fail(fd.qualname, f"dI{k}", fd.file, fd.lineno, f"Compute_dI{k}dC", f"dI{k}/dC is not the Kelvin-Mandel derivative of I{k}: {bad}: for every law using I{k} the stress is no longer dW/de")
        else:
            r.ok(f"dI{k}/dC == Kelvin-Mandel gradient of I{k}")
        if fdd is not None:
            r.instance(fn=fdd.qualname)
            dd = XArray.from_nested(I.call_function(fdd, [], self_obj=obj))
            dd = dd.reshape(6, 6) if dd.size == 36 else dd
            bad = None
            if dd.shape != (6, 6):
                bad = f"d2I{k}dC has shape {dd.shape}"
            else:
                for a, na in enumerate(names):
                    for b, nb in enumerate(names):
                        want = Ik.diff(na).diff(nb) * scale[a] * scale[b]
                        if not is_zero(topoly(dd[a, b]) - want):
                            bad = f"entry ({a},{b}) is {dd[a, b]!r}, expected {want!r}"
            if bad:
                r.fail(fdd.qualname, f"d2I{k}", fdd.file, fdd.lineno, f"Compute_d2I{k}dC", f"d2I{k}/dC2 is not the Kelvin-Mandel Hessian of I{k}: {bad}: the material tangent is no longer the derivative of the stress")
            else:
                r.ok(f"d2I{k}/dC2 == Kelvin-Mandel Hessian of I{k}")


def thickness_degree_rule(ctx):
    """R18.7: in 2-D every element array a non-linear operator hands back (tangent, residual, damping) is homogeneous of
    degree one in the thickness: a syntax-directed degree analysis over the statements of each operator (products add
    degrees, sums need equal degrees, the `dim == 2` branch is the analysed path)."""
    repo = ctx.repo
    r = ctx.rule("R18.7", "thickness homogeneity of the non-linear operators (2-D path): every array returned through the dof reordering carries the thickness exactly once, in all of its additive terms", min_instances=5)
    mod = repo.module("EasyFEA.FEM.Operators.NonLinear")
    MIXED = "mixed"

    def analyse(f):
        env = {}
        from ..flow import Locals as _Locals

        _L = _Locals(f.node)

        def dim_test(test):
            """2 / 3 / None: the dimension a branch test selects, by the provenance of its operand (a local holding `<x>.dim`)"""
            t = _L.text(test)
            for d in (2, 3):
                if f".dim == {d}" in t or t == f"dim == {d}":
                    return d
            return None

        def deg(e):
            if isinstance(e, ast.Constant):
                return 0
            if isinstance(e, ast.Name):
                return 1 if e.id == "thickness" and "thickness" not in env else env.get(e.id, 0)
            if isinstance(e, ast.Attribute):
                return 1 if e.attr == "thickness" else 0
            if isinstance(e, ast.UnaryOp):
                return deg(e.operand)
            if isinstance(e, ast.BinOp):
                a, b = deg(e.left), deg(e.right)
                if MIXED in (a, b) or isinstance(a, tuple) or isinstance(b, tuple):
                    return MIXED
                if isinstance(e.op, (ast.Mult, ast.MatMult)):
                    return a + b
                if isinstance(e.op, ast.Div):
                    return a - b
                if isinstance(e.op, (ast.Add, ast.Sub)):
                    if isinstance(e.left, ast.Constant) and e.left.value in (0, 0.0):
                        return b
                    if isinstance(e.right, ast.Constant) and e.right.value in (0, 0.0):
                        return a
                    return a if a == b else MIXED
                return MIXED if (a or b) else 0
            if isinstance(e, ast.IfExp):
                if dim_test(e.test) == 2:
                    return deg(e.body)
                a, b = deg(e.body), deg(e.orelse)
                return a if a == b else MIXED
            if isinstance(e, (ast.Tuple, ast.List)):
                return tuple(deg(x) for x in e.elts)
            if isinstance(e, ast.Subscript):
                d = deg(e.value)
                return d
            if isinstance(e, ast.Call):
                d = dotted(e.func) or ""
                args = [a for a in e.args if not (isinstance(a, ast.Constant) and isinstance(a.value, str))]
                ds = [deg(a) for a in args]
                if d.split(".")[-1] == "einsum":
                    return MIXED if any(x == MIXED or isinstance(x, tuple) for x in ds) else sum(ds)
                if d == "sum" and args and isinstance(args[0], ast.GeneratorExp):
                    return deg(args[0].elt)
                if d.split(".")[-1].endswith("__reorder_dofs"):
                    return tuple(ds[2:])
                flat = [x for x in ds if not isinstance(x, tuple)]
                if MIXED in flat:
                    return MIXED
                return max(flat, default=0)
            if isinstance(e, ast.GeneratorExp):
                return deg(e.elt)
            return 0

        def bind(t, d):
            if isinstance(t, ast.Name):
                env[t.id] = d
            elif isinstance(t, (ast.Tuple, ast.List)):
                for i, x in enumerate(t.elts):
                    bind(x, d[i] if isinstance(d, tuple) and i < len(d) else (0 if not isinstance(d, tuple) else MIXED))

        returned = []

        def run(stmts):
            for st in stmts:
                if isinstance(st, ast.Assign):
                    d = deg(st.value)
                    for t in st.targets:
                        bind(t, d)
                elif isinstance(st, ast.AugAssign) and isinstance(st.target, ast.Name):
                    a, b = env.get(st.target.id, 0), deg(st.value)
                    if MIXED in (a, b) or isinstance(a, tuple) or isinstance(b, tuple):
                        env[st.target.id] = MIXED
                    elif isinstance(st.op, ast.Mult):
                        env[st.target.id] = a + b
                    elif isinstance(st.op, ast.Div):
                        env[st.target.id] = a - b
                    else:
                        first = st.target.id not in env or a == 0 and isinstance(env.get(st.target.id), int) and env.get("_zero_" + st.target.id, False)
                        env[st.target.id] = b if (a == b or first) else MIXED
                elif isinstance(st, ast.If):
                    if dim_test(st.test) == 2:
                        run(st.body)
                    elif dim_test(st.test) == 3:
                        run(st.orelse)
                    else:
                        run(st.body)
                        run(st.orelse)
                elif isinstance(st, (ast.For, ast.While, ast.With)):
                    run(st.body)
                elif isinstance(st, ast.Return) and st.value is not None:
                    elts = st.value.elts if isinstance(st.value, ast.Tuple) else [st.value]
                    if all(isinstance(x, ast.Constant) and x.value is None for x in elts):
                        continue  # "nothing to contribute" exit
                    returned.append((st, deg(st.value)))

        # accumulators initialised to 0.0 take the degree of their first increment
        for n in ast.walk(f.node):
            if isinstance(n, ast.Assign) and isinstance(n.targets[0], ast.Name) and isinstance(n.value, ast.Constant) and n.value.value in (0, 0.0):
                env["_zero_" + n.targets[0].id] = True
        run(f.node.body)
        return returned

    for name, f in sorted(mod.functions.items()):
        if name.startswith("_") or not any(isinstance(n, ast.Attribute) and n.attr == "thickness" for n in ast.walk(f.node)):
            continue
        if not any(isinstance(n, ast.Call) and (dotted(n.func) or "").endswith("__reorder_dofs") for n in ast.walk(f.node)):
            continue
        r.instance(fn=f.qualname)
        rets = analyse(f)
        bad = None
        narr = 0
        for st, d in rets:
            ds = d if isinstance(d, tuple) else (d,)
            # the arrays are the leading entries produced by the reordering; trailing bookkeeping (point counts) has degree 0
            for k, x in enumerate(ds):
                is_array = k < 2 or x != 0
                if not is_array:
                    continue
                narr += 1
                if x != 1:
                    bad = f"entry {k} of `{norm_text(st)[:60]}` has thickness degree {x}"
        if bad or not narr:
            r.fail(f.qualname, f"thickness-degree:{name}", f.file, f.lineno, name, f"{bad or 'no returned array found'}: in 2-D the tangent, residual and damping arrays must each carry the thickness exactly once in every term (otherwise the tangent is not the derivative of the residual for thickness != 1)")
        else:
            r.ok(f"{name}: {narr} returned arrays of thickness degree 1")


# ---------------------------------------------------------------------------
# R18.11  kinematics: Green-Lagrange strain and its operators De / Deta as polynomial identities in the gradient
# ---------------------------------------------------------------------------


def kinematics_rule(ctx):
    """E = 1/2 (F^T F - I) with F = I + grad u; De = d e / d flat(grad u) with e the Kelvin-Mandel vector of E (so that
    the element residual B^T De^T S is the derivative of the stored energy and the material tangent uses the same
    operator); Deta = d (De . flat(grad v)) / d flat(grad u).  Compute_F / Compute_C / Compute_GreenLagrange /
    Compute_De / Compute_Deta are interpreted with a symbolic displacement gradient in 2-D and 3-D."""
    from types import SimpleNamespace

    from ..femchain import XFe, fe_hook_full
    from ..xarray import XArray
    from ..alg import MQ

    repo = ctx.repo
    r = ctx.rule("R18.11", "finite-strain kinematics: Compute_GreenLagrange == 1/2 (F^T F - I) with F = I + grad u; Compute_De == d(Kelvin-Mandel(E)) / d flat(grad u); Compute_Deta == d(De . flat(grad v)) / d flat(grad u) -- polynomial identities in the gradient entries, 2-D and 3-D", min_instances=6)
    st = repo.cls("EasyFEA.Models.HyperElastic._state.HyperElasticState")
    s2 = MQ.sqrt(2)
    for dim in (2, 3):
        g = [[Poly.var(f"g{i}{j}") if i < dim and j < dim else Poly() for j in range(3)] for i in range(3)]
        v = [[Poly.var(f"v{i}{j}") if i < dim and j < dim else Poly() for j in range(3)] for i in range(3)]
        marker_u, marker_v = XArray((1,), [Q(0)]), XArray((1,), [Q(1)])

        def grad(field, mt=None, g=g, v=v, marker_v=marker_v):
            m = v if field is marker_v else g
            return XFe((1, 1, 3, 3), [m[i][j] for i in range(3) for j in range(3)])

        ge = SimpleNamespace(Ne=1, Ncoords=1, Get_Gradient_e_pg=grad, Get_N_pg=lambda mt=None: XArray((1, 1, 1), [Q(1)]))
        obj = XObj(st, {st.mangle("__groupElem"): ge, st.mangle("__displacement"): marker_u, st.mangle("__matrixType"): Opaque("mt"), "_GetDims": lambda dim=dim: (1, 1, dim)})
        I = Interp(repo)
        I.call_hook = fe_hook_full
        fE, fDe, fDeta = st.methods["Compute_GreenLagrange"], st.methods["Compute_De"], st.methods["Compute_Deta"]
        # ---- E
        r.instance(fn=fE.qualname)
        try:
            E = XArray.from_nested(I.call_function(fE, [], self_obj=obj))
        except XRaise as e:
            r.fail(fE.qualname, f"E:dim{dim}", fE.file, fE.lineno, "Compute_GreenLagrange", f"dim {dim}: raises {e}")
            continue
        F = [[(Poly.const(1) if i == j else Poly()) + g[i][j] for j in range(3)] for i in range(3)]
        wantE = [[(sum((F[k][i] * F[k][j] for k in range(3)), Poly()) - (1 if i == j else 0)) * Q(1, 2) for j in range(3)] for i in range(3)]
        bad = [(i, j) for i in range(3) for j in range(3) if not is_zero(Poly.of(E[0, 0, i, j]) - wantE[i][j])]
        if bad:
            i, j = bad[0]
            r.fail(fE.qualname, f"E:dim{dim}", fE.file, fE.lineno, "Compute_GreenLagrange", f"dim {dim}: E[{i}][{j}] = {E[0, 0, i, j]!r}, expected 1/2 (F^T F - I) = {wantE[i][j]!r}")
            continue
        r.ok(f"dim {dim}: E == 1/2 (F^T F - I)")
        pairs = [(0, 0), (1, 1), (0, 1)] if dim == 2 else [(0, 0), (1, 1), (2, 2), (1, 2), (0, 2), (0, 1)]
        kel = [wantE[a][b] * (s2 if a != b else 1) for a, b in pairs]
        # ---- De
        r.instance(fn=fDe.qualname)
        try:
            De = XArray.from_nested(I.call_function(fDe, [], self_obj=obj))
        except XRaise as e:
            r.fail(fDe.qualname, f"De:dim{dim}", fDe.file, fDe.lineno, "Compute_De", f"dim {dim}: raises {e}")
            continue
        if De.shape != (1, 1, len(pairs), dim * dim):
            r.fail(fDe.qualname, f"De:dim{dim}", fDe.file, fDe.lineno, "Compute_De", f"dim {dim}: shape {De.shape}")
            continue
        bad = None
        for rr in range(len(pairs)):
            for i in range(dim):
                for j in range(dim):
                    want = kel[rr].diff(f"g{i}{j}")
                    got = Poly.of(De[0, 0, rr, i * dim + j])
                    if not is_zero(got - want):
                        bad = f"De[{rr}][{i}*{dim}+{j}] = {got!r}, expected d e_{rr} / d(grad u)_{i}{j} = {want!r}"
        if bad:
            r.fail(fDe.qualname, f"De:dim{dim}", fDe.file, fDe.lineno, "Compute_De", f"dim {dim}: {bad}: the residual B^T De^T S is not the derivative of the stored energy")
        else:
            r.ok(f"dim {dim}: De == d e / d flat(grad u) ({len(pairs)} x {dim * dim} entries)")
        # ---- Deta
        r.instance(fn=fDeta.qualname)
        try:
            Dn = XArray.from_nested(I.call_function(fDeta, [marker_v], self_obj=obj))
        except XRaise as e:
            r.fail(fDeta.qualname, f"Deta:dim{dim}", fDeta.file, fDeta.lineno, "Compute_Deta", f"dim {dim}: raises {e}")
            continue
        bad = None
        for rr in range(len(pairs)):
            edot = sum((kel[rr].diff(f"g{k}{l}") * v[k][l] for k in range(dim) for l in range(dim)), Poly())
            for i in range(dim):
                for j in range(dim):
                    want = edot.diff(f"g{i}{j}")
                    got = Poly.of(Dn[0, 0, rr, i * dim + j])
                    if not is_zero(got - want):
                        bad = f"Deta[{rr}][{i}*{dim}+{j}] = {got!r}, expected {want!r}"
        if bad:
            r.fail(fDeta.qualname, f"Deta:dim{dim}", fDeta.file, fDeta.lineno, "Compute_Deta", f"dim {dim}: {bad}")
        else:
            r.ok(f"dim {dim}: Deta == d(De . flat(grad v)) / d flat(grad u)")


def strain_path_rule(ctx, rid="R18.18"):
    """'With the energy-conserving stress options under the midpoint scheme ... conserves energy': the time-quadrature
    stress integrates dW/de along the strain path C(s) = C_n + s (C_{n+1} - C_n), s = 0 at the OLD state.  The class that
    holds a point of the path, `_StrainPathState`, is interpreted on symbolic end strains: `Compute_C()` of the state
    built with abscissa s must be C_n + s (C_{n+1} - C_n) - for numeric and for symbolic s - so that the s-weighted
    tangent (R18.5) is the derivative with respect to u_{n+1} of the stress it goes with."""
    from types import SimpleNamespace

    from ..xarray import XArray
    from ..femchain import XFe, fe_hook_full

    repo = ctx.repo
    ci = repo.cls("EasyFEA.FEM.Operators.NonLinear._StrainPathState")
    f = ci.methods["__init__"]
    fC = ci.methods["Compute_C"]
    r = ctx.rule(rid, "_StrainPathState(state_n, state_np1, s).Compute_C() == C_n + s (C_np1 - C_n): the old state at s = 0, the new one at s = 1, for numeric and symbolic abscissae", min_instances=5)
    mk = lambda nm: XFe((1, 1, 3, 3), [Poly.var(f"{nm}{i}{j}") for i in range(3) for j in range(3)])
    Cn, Cn1 = mk("a"), mk("b")
    g = SimpleNamespace(Ne=1)
    sn = SimpleNamespace(groupElem=g, displacement=Opaque("u_n"), matrixType="mass", Compute_C=lambda: Cn)
    s1 = SimpleNamespace(groupElem=g, displacement=Opaque("u_np1"), matrixType="mass", Compute_C=lambda: Cn1)

    def hook(fn, args, kwargs):
        fi = getattr(fn, "finfo", None) or (fn if isinstance(fn, FuncInfo) else None)
        if fi is not None and fi.name == "__init__" and fi.cls is not None and fi.cls is not ci:
            return None
        return fe_hook_full(fn, args, kwargs)

    for s in (Q(0), Q(1), Q(1, 2), Q(1, 7), Poly.var("s")):
        r.instance(fn=f.qualname)
        I = Interp(repo)
        I.call_hook = hook
        obj = XObj(ci, {})
        try:
            I.call_function(f, [sn, s1, s], self_obj=obj)
            got = XArray.from_nested(I.call_function(fC, [], self_obj=obj))
        except XRaise as e:
            r.fail(f.qualname, f"path:{s}", f.file, f.lineno, "_StrainPathState.__init__", f"s = {s}: raises {e}")
            continue
        want = [Poly.of(a) + s * (Poly.of(b) - Poly.of(a)) for a, b in zip(Cn.data, Cn1.data)]
        if got.shape == Cn.shape and all(is_zero(Poly.of(x) - w) for x, w in zip(got.data, want)):
            r.ok(f"s = {s}: C(s) = C_n + s (C_np1 - C_n)")
        else:
            r.fail(f.qualname, f"path:{s}", f.file, f.lineno, "_StrainPathState.__init__", f"s = {s}: Compute_C()[0, 0, 0, 0] is {got.data[0]!r}, the path gives {want[0]!r}: the abscissa runs from the new state to the old one (or off the segment): the quadrature nodes, their s-weighted tangent and the end-point shortcuts (s = 0 -> state_n, s = 1 -> state_np1) no longer belong to one path and S_quad : de != dW")


def invariant_value_rule(ctx, rid="R18.20"):
    """'the energy is unchanged by a superposed rigid rotation' / 'translating, rotating ... a whole problem ... hyperelastic':
    a law depends on the deformation through the invariants of C and of the fibre directions, which are SCALARS of the
    rotated problem: I1 = tr C, I2 = (tr^2 C - tr C^2) / 2, I3 = det C, I4 = T.C.T, I8 = T1.C.T2 (bilinear and symmetric in
    the two directions).  The hand-written component expressions of `HyperElasticState` are interpreted on a symbolic
    symmetric C and symbolic directions with all three components and compared with these definitions (a consistent
    value / derivative pair that is NOT the invariant - a cross term written as if T1 == T2 - passes every
    derivative check and still depends on the orientation of the problem in space)."""
    from ..femchain import XFe, fe_hook_full
    from ..xarray import XArray

    repo = ctx.repo
    r = ctx.rule(rid, "invariant values: Compute_I1, I2, I3, I4, I6, I8 of HyperElasticState equal tr C, (tr^2 C - tr C^2)/2, det C, T.C.T, T.C.T and T1.C.T2 for a symbolic symmetric C and fibre directions with three components", min_instances=6)
    st = repo.cls("EasyFEA.Models.HyperElastic._state.HyperElasticState")
    nm = [["cxx", "cxy", "cxz"], ["cxy", "cyy", "cyz"], ["cxz", "cyz", "czz"]]
    Cm = [[Poly.var(nm[i][j]) for j in range(3)] for i in range(3)]
    f1 = lambda p: XFe((1, 1), [p])
    C9 = [f1(Cm[i][j]) for i in range(3) for j in range(3)]

    class Dir:
        def __init__(self, tag):
            self.tag = tag
            self.v = [Poly.var(f"{tag}{k}") for k in "xyz"]

    T1, T2 = Dir("p"), Dir("q")
    comps = lambda T: tuple(f1(x) for x in T.v)
    obj = XObj(st, dict(_Compute_C=lambda: list(C9), _GetDims=lambda: (1, 1, 3), _Get_normalized_components=comps))
    I = Interp(repo)
    I.call_hook = fe_hook_full
    tr = Cm[0][0] + Cm[1][1] + Cm[2][2]
    C2 = [[sum((Cm[i][k] * Cm[k][j] for k in range(3)), Poly()) for j in range(3)] for i in range(3)]
    det = (Cm[0][0] * (Cm[1][1] * Cm[2][2] - Cm[1][2] * Cm[2][1]) - Cm[0][1] * (Cm[1][0] * Cm[2][2] - Cm[1][2] * Cm[2][0]) + Cm[0][2] * (Cm[1][0] * Cm[2][1] - Cm[1][1] * Cm[2][0]))
    quad = lambda a, b: sum((a.v[i] * Cm[i][j] * b.v[j] for i in range(3) for j in range(3)), Poly())
    want = {"1": (tr, []), "2": ((tr * tr - (C2[0][0] + C2[1][1] + C2[2][2])) * Q(1, 2), []), "3": (det, []), "4": (quad(T1, T1), [T1]), "6": (quad(T2, T2), [T2]), "8": (quad(T1, T2), [T1, T2])}
    for k, (w, args) in want.items():
        fI = st.methods.get(f"Compute_I{k}")
        if fI is None:
            raise AnalysisError(f"HyperElasticState.Compute_I{k} not found")
        r.instance(fn=fI.qualname)
        try:
            v = I.call_function(fI, list(args), self_obj=obj)
        except XRaise as e:
            r.fail(fI.qualname, f"I{k}", fI.file, fI.lineno, f"Compute_I{k}", f"raises {e}")
            continue
        v = XArray.from_nested(v).data[0] if not isinstance(v, Poly) else v
        if is_zero(Poly.of(v) - w):
            r.ok(f"I{k} == its definition")
        else:
            d = Poly.of(v) - w
            r.fail(fI.qualname, f"I{k}", fI.file, fI.lineno, f"Compute_I{k}", f"I{k} is not {'tr C' if k == '1' else '(tr^2 C - tr C^2)/2' if k == '2' else 'det C' if k == '3' else 'T.C.T' if k in '46' else 'T1.C.T2'} for a general symmetric C and directions with three components (difference {str(d)[:120]}): the quantity is not a scalar of the rotated problem - the stored energy and the response depend on the orientation of the problem in space")
