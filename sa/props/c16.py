"""C16 -- named results: exhaustive dispatch, component indices, source-field
agreement, von Mises, node<->element conversion, energy/reaction wiring."""

from __future__ import annotations

import ast
from types import SimpleNamespace
from fractions import Fraction

from ..alg import Poly, Q, MQ, is_zero
from ..repo import AnalysisError, dotted, norm_text, FuncInfo, walk_no_nested
from ..xeval import Interp, XObj, Opaque, XRaise, Uninterpretable, _NpAttr, _Bound
from ..xarray import XArray
from ..femchain import XFe

SIM = "EasyFEA.Simulations"
MU = "EasyFEA.Models._utils"


class Marker:
    """result of a computation the dispatcher does not follow"""

    _xeval_open = True
    _absorbing = True

    def __init__(self, tag, width=None):
        self.tag, self.width = tag, width

    def _m(self, *a, **k):
        return Marker(self.tag)

    __add__ = __radd__ = __sub__ = __rsub__ = __mul__ = __rmul__ = __truediv__ = __rtruediv__ = __neg__ = __matmul__ = __rmatmul__ = __call__ = _m

    def __getattr__(self, name):
        if name.startswith("__"):
            raise AttributeError(name)
        if name == "mean":
            return lambda *a, **k: Marker(self.tag + ".mean", self.width)
        if name in ("shape",):
            return (2, 2, self.width or 1)
        return Marker(f"{self.tag}.{name}", self.width)

    def __getitem__(self, key):
        k = key if isinstance(key, tuple) else (key,)
        last = k[-1]
        if self.width is not None and isinstance(last, int) and not isinstance(last, bool):
            if not -self.width <= last < self.width:
                raise IndexError(f"index {last} is out of bounds for the {self.tag} vector of width {self.width}")
            return Marker(f"{self.tag}[{last}]")
        return Marker(self.tag, self.width)

    def __iter__(self):
        return iter([Marker(self.tag), Marker(self.tag)])

    def __repr__(self):
        return f"<{self.tag}>"


VECTOR_ATTRS = {"displacement": "u", "speed": "v", "accel": "a", "u": "u", "v": "v", "a": "a", "thermal": "t", "thermalDot": "td", "damage": "d"}
ALLOWED_METHODS = {"Results_Available", "Result", "__indexResult", "_indexResult", "Results_dict_Energy", "Results_Iter_Summary"}


def labelled(name, Nn, dof_n):
    return XArray((Nn * dof_n,), [Poly.var(f"{name}_{n}_{c}") for n in range(Nn) for c in range(dof_n)])


def make_sim(repo, ci, dim, dof_n, extra=None):
    Nn = 2
    obj = XObj(ci)
    a = obj.attrs
    a["dim"] = dim
    a["mesh"] = SimpleNamespace(Nn=Nn, dim=dim, inDim=dim, Ne=2, groupElem=Marker("groupElem"), Get_list_groupElem=lambda *x, **k: [Marker("groupElem")])
    for attr in VECTOR_ATTRS:
        n = 1 if attr in ("thermal", "thermalDot", "damage") else dof_n
        a[attr] = labelled(attr, Nn, n)
    a["_Results_Check_Available"] = lambda r: True
    a["Results_Reshape_values"] = lambda v, nv=True: v
    a["Set_Iter"] = lambda *x, **k: None
    a["material"] = SimpleNamespace(coef=MQ.sqrt(2), dim=dim, layout=SimpleNamespace(slots={"alpha": slice(6, 7), "eps_p": slice(0, 6)}), Compute_stress=lambda *x, **k: Marker("stress"))
    from ..xeval import EnumVal

    algo_cls = repo.cls("EasyFEA.Simulations.Solvers.AlgoType")
    a["algo"] = EnumVal(algo_cls, "newmark", repo.enum_members(algo_cls.qualname)["newmark"])
    if extra:
        a.update(extra)
    return obj


def attr_hook_factory(selfobj, repo):
    def hook(obj, attr):
        if obj is not selfobj:
            return NotImplemented
        cls_names = {attr}
        for c in selfobj.cls.mro:
            cls_names.add(c.mangle(attr))
        for nm in cls_names:
            if nm in selfobj.attrs:
                return selfobj.attrs[nm]
        f = None
        for nm in cls_names:
            f = repo.lookup_method(selfobj.cls, nm)
            if f is not None:
                break
        base = attr.lstrip("_")
        if f is not None and (attr in ALLOWED_METHODS or attr.endswith("__indexResult") or attr.endswith("indexResult")):
            return NotImplemented
        return Marker(attr)

    return hook


def call_hook(events):
    def hook(fn, args, kwargs):
        if isinstance(fn, FuncInfo):
            if fn.name == "MyPrintError":
                events.append(("print-error", args[0] if args else ""))
                return None
            if fn.name in ("Result_strain_or_stress_field_e",):
                events.append(("strain-stress", kwargs.get("result", args[2] if len(args) > 2 else None)))
                return Marker("strain_or_stress_field")
            if fn.module.name.startswith("EasyFEA.Utilities") or fn.name.startswith("Project_"):
                return Marker(fn.name)
        if isinstance(fn, _NpAttr):
            if any(isinstance(x, Marker) for x in args):
                return Marker("np." + fn.path)
            if fn.path == "linalg.norm":
                return Marker("norm")
        return NotImplemented

    return hook


def configs(repo):
    """(class, label, dim, dof_n, extra attrs)"""
    out = []
    E = repo.cls(f"{SIM}._elastic.Elastic")
    for d in (2, 3):
        out.append((E, f"dim={d}", d, d, {}))
    W = repo.cls(f"{SIM}._weakforms.WeakForms")
    for n in (1, 2, 3):
        out.append((W, f"dof_n={n}", n, n, {"Get_dof_n": lambda *a, n=n: n, "weakForms": SimpleNamespace(field=SimpleNamespace(dof_n=n))}))
    T = repo.cls(f"{SIM}._thermal.Thermal")
    out.append((T, "dim=2", 2, 1, {}))
    H = repo.cls(f"{SIM}._hyperelastic.HyperElastic")
    for d in (2, 3):
        out.append((H, f"dim={d}", d, d, {}))
    N = repo.cls(f"{SIM}._inelastic.InElastic")
    for d in (2, 3):
        out.append((N, f"dim={d}", d, d, {}))
    P = repo.cls(f"{SIM}._phasefield.PhaseField")
    for d in (2, 3):
        out.append((P, f"dim={d}", d, d, {}))
    B = repo.cls(f"{SIM}._beam.Beam")
    for d, n in ((1, 1), (2, 3), (3, 6)):
        for tim in (False, True):
            width = {(1, False): 1, (2, False): 2, (3, False): 4, (1, True): 1, (2, True): 3, (3, True): 6}[(d, tim)]
            extra = {
                "Get_dof_n": lambda *a, n=n: n,
                "problemType": Opaque("pt"),
                "structure": SimpleNamespace(dof_n=n, dim=d),
                "useTimoshenko": tim,
                "_Calc_Epsilon_e_pg": lambda *a, w=width, **k: Marker("beam-strain", w),
                "_Calc_InternalForces_e_pg": lambda *a, w=width, **k: Marker("beam-forces", w),
                "_Calc_Sigma_e_pg": lambda *a, **k: Marker("beam-stress", 3 if d == 2 else 6),
            }
            out.append((B, f"dim={d},{'Timoshenko' if tim else 'EulerBernoulli'}", d, n, extra))
    return out


def dispatch_rules(ctx):
    repo = ctx.repo
    r1 = ctx.rule("R16.1", "exhaustive dispatch: every name Results_Available() advertises reaches a handling branch of Result() (no fall-through, no raise, no index past the array)", min_instances=150)
    r2 = ctx.rule("R16.2", "component suffix -> index: x->0, y->1, z->2 on the right column of the node table", min_instances=30)
    r3 = ctx.rule("R16.3", "source-field agreement: the component result for prefix u/v/a reads the same field as the vector result", min_instances=30)
    table = {}
    for ci, label, dim, dof_n, extra in configs(repo):
        fav = repo.lookup_method(ci, "Results_Available")
        fres = repo.lookup_method(ci, "Result")
        obj = make_sim(repo, ci, dim, dof_n, extra)
        events = []
        I = Interp(repo)
        I.attr_hook = attr_hook_factory(obj, repo)
        I.call_hook = call_hook(events)
        try:
            names = I.call_function(fav, [], self_obj=obj)
        except (Uninterpretable, XRaise) as e:
            raise AnalysisError(f"{ci.name}.Results_Available ({label}) is not interpretable: {e}")
        names = [str(n) for n in names]
        table[f"{ci.name}[{label}]"] = names
        for name in names:
            r1.instance(fn=fres.qualname)
            events.clear()
            con = fres.qualname
            key = f"{label}|name={name}"
            try:
                val = I.call_function(fres, [name], self_obj=obj)
            except XRaise as e:
                r1.fail(con, key, fres.file, fres.lineno, f"{ci.name}.Result", f"[{label}] advertised result '{name}' raises {e.exc_name}: {e.msg}")
                continue
            except Uninterpretable as e:
                msg = str(e)
                if "vector of width" in msg:
                    r1.fail(con, key, fres.file, fres.lineno, f"{ci.name}.Result", f"[{label}] advertised result '{name}' indexes past its array: {msg.split(': ', 1)[-1]}")
                else:
                    # a branch was reached whose body is outside the interpreter grammar: handled, not followed
                    r1.ok()
                    r1.note(f"{ci.name}[{label}] '{name}': branch reached, body not followed ({msg[:80]})")
                continue
            if any(e[0] == "print-error" for e in events) or val is None:
                r1.fail(con, key, fres.file, fres.lineno, f"{ci.name}.Result", f"[{label}] advertised result '{name}' falls through to the final else ('not implemented')")
                continue
            for e in events:
                if e[0] == "strain-stress":
                    comp = str(e[1])
                    if comp not in ("xx", "yy", "zz", "yz", "xz", "xy", "vm", "Strain", "Stress", "Green-Lagrange", "Piola-Kirchhoff") or (dim == 2 and comp in ("zz", "yz", "xz")):
                        r1.fail(con, key, fres.file, fres.lineno, f"{ci.name}.Result", f"[{label}] '{name}' asks the strain/stress extractor for component '{comp}', which it does not provide in dimension {dim}")
            r1.ok(f"{ci.name}[{label}] '{name}' handled")
            # component results
            if len(name) == 2 and name[0] in "uva" and name[1] in "xyz" and isinstance(val, XArray):
                r2.instance(fn=fres.qualname)
                r3.instance(fn=fres.qualname)
                vars_ = [next(iter(Poly.of(x).vars()), "") for x in val.data]
                srcs = {v.rsplit("_", 2)[0] for v in vars_}
                comps = {v.rsplit("_", 1)[-1] for v in vars_}
                want_c = str("xyz".index(name[1]))
                if comps == {want_c} and len(val.data) == 2:
                    r2.ok(f"{ci.name}[{label}] '{name}' -> column {want_c}")
                else:
                    r2.fail(con, f"index:{key}", fres.file, fres.lineno, f"{ci.name}.Result", f"[{label}] '{name}' returns column(s) {sorted(comps)} of the node table, expected column {want_c}")
                if len(srcs) == 1 and VECTOR_ATTRS.get(next(iter(srcs))) == name[0]:
                    r3.ok(f"{ci.name}[{label}] '{name}' reads self.{next(iter(srcs))}")
                else:
                    r3.fail(con, f"source:{key}", fres.file, fres.lineno, f"{ci.name}.Result", f"[{label}] '{name}' is extracted from {sorted(srcs)}; the '{name[0]}' results must read the {'displacement' if name[0]=='u' else 'velocity' if name[0]=='v' else 'acceleration'} field")
    ctx.extra["advertised"] = table


def extractor_rules(ctx):
    repo = ctx.repo
    r = ctx.rule("R16.4", "strain/stress extractor: components and full-tensor results in Kelvin order with the shear entries unscaled before use; von Mises == sqrt(3/2 s:s), 2-D form == 3-D form at zz=yz=xz=0", min_instances=18)
    mod = repo.module(MU)
    f = mod.functions["__Result_in_Strain_or_Stress_field"]
    repo.consulted.add(f.file)
    s2 = MQ.sqrt(2)
    captured = []

    def hook(fn, args, kwargs):
        if isinstance(fn, _NpAttr) and fn.path == "sqrt" and args and isinstance(args[0], (XArray, Poly)):
            captured.append(args[0])
            return Marker("sqrt")
        if isinstance(fn, _NpAttr) and fn.path == "asarray" and args and isinstance(args[0], XArray):
            a = args[0]
            return XArray(a.shape, a.data)
        if isinstance(fn, _NpAttr) and fn.path == "asarray" and args and isinstance(args[0], Marker):
            return args[0]
        return NotImplemented

    comps3 = ["xx", "yy", "zz", "yz", "xz", "xy"]
    for dim in (2, 3):
        names = comps3 if dim == 3 else ["xx", "yy", "xy"]
        for comp in names + ["vm"]:
            r.instance(fn=f.qualname)
            I = Interp(repo)
            I.call_hook = hook
            s = {c: Poly.var(f"s{c}") for c in names}
            kel = [s[c] * (s2 if c[0] != c[1] else 1) for c in names]
            field = XFe((1, 1, len(kel)), kel)
            captured.clear()
            try:
                val = I.call_function(f, [field, comp, s2])
            except (XRaise, Uninterpretable) as e:
                r.fail(f.qualname, f"{dim}:{comp}", f.file, f.lineno, "__Result_in_Strain_or_Stress_field", f"dim {dim}, '{comp}': {e}")
                continue
            if comp != "vm":
                v = val.data[0] if isinstance(val, XArray) else val
                if is_zero(v - s[comp]):
                    r.ok(f"dim {dim} '{comp}' -> unscaled tensor component")
                else:
                    r.fail(f.qualname, f"{dim}:{comp}", f.file, f.lineno, "__Result_in_Strain_or_Stress_field", f"dim {dim}: component '{comp}' returns {v!r}, expected the tensor component s{comp} (Kelvin shear entries divided by coef)")
            else:
                if not captured:
                    r.fail(f.qualname, f"{dim}:vm", f.file, f.lineno, "__Result_in_Strain_or_Stress_field", "von Mises is not computed as a square root")
                    continue
                got = captured[-1]
                got = got.data[0] if isinstance(got, XArray) else got
                g = lambda c: s.get(c, Poly())
                want = ((g("xx") - g("yy")) ** 2 + (g("yy") - g("zz")) ** 2 + (g("zz") - g("xx")) ** 2) / 2 + 3 * (g("xy") ** 2 + g("yz") ** 2 + g("xz") ** 2)
                if is_zero(got - want):
                    r.ok(f"dim {dim} von Mises^2 == 3/2 s:s" + (" with zz=yz=xz=0" if dim == 2 else ""))
                else:
                    r.fail(f.qualname, f"{dim}:vm", f.file, f.lineno, "__Result_in_Strain_or_Stress_field", f"dim {dim}: the expression under the square root is {got!r}, expected 3/2 s:s = {want!r}")
        # the full-tensor results: every component of the returned array is the unscaled tensor component, so that
        # Result("Sxy") == Result("Stress")[:, k] and Svm is the von Mises norm of Result("Stress")
        for full in ("Strain", "Stress", "Green-Lagrange", "Piola-Kirchhoff"):
            r.instance(fn=f.qualname)
            I = Interp(repo)
            I.call_hook = hook
            s = {c: Poly.var(f"s{c}") for c in names}
            kel = [s[c] * (s2 if c[0] != c[1] else 1) for c in names]
            field = XFe((1, 1, len(kel)), kel)
            try:
                val = I.call_function(f, [field, full, s2])
            except XRaise as e:
                if "not implemented" in str(e).lower() or "error" in str(e).lower():
                    r.ok(f"dim {dim} '{full}': not offered")
                    continue
                r.fail(f.qualname, f"{dim}:{full}", f.file, f.lineno, "__Result_in_Strain_or_Stress_field", f"dim {dim}, '{full}': {e}")
                continue
            except Uninterpretable as e:
                r.fail(f.qualname, f"{dim}:{full}", f.file, f.lineno, "__Result_in_Strain_or_Stress_field", f"dim {dim}, '{full}': {e}")
                continue
            arr = XArray.from_nested(val) if not isinstance(val, XArray) else val
            flat = list(arr.data)
            if len(flat) == len(names) and all(is_zero(flat[k] - s[c]) for k, c in enumerate(names)):
                r.ok(f"dim {dim} '{full}' -> the unscaled tensor components in Kelvin order")
            else:
                r.fail(f.qualname, f"{dim}:{full}", f.file, f.lineno, "__Result_in_Strain_or_Stress_field", f"dim {dim}: the tensor result '{full}' returns {flat!r}, expected the unscaled components {[s[c] for c in names]!r}: the shear entries keep the Kelvin-Mandel factor, so Result('S..') differs from the corresponding column of Result('{full}') and Svm is not the von Mises norm of it")


def field_e_rule(ctx):
    """R16.7: the per-element reduction extracts the named result at every Gauss point of every group and only then
    averages over the Gauss points (the equivalent stress of the mean is not the mean of the equivalent stress)."""
    repo = ctx.repo
    r = ctx.rule("R16.7", "per-element strain/stress results: the extractor receives the field at every Gauss point of each group, its output is averaged over the Gauss points once, groups are concatenated in list order", min_instances=2)
    mod = repo.module(MU)
    f = mod.functions["Result_strain_or_stress_field_e"]
    nPg = (2, 3)
    fields = {}
    seen = []

    def field_of(g):
        k = g.tag
        fields[k] = XFe((1, nPg[k], 3), [Poly.var(f"s{k}_{p}_{c}") for p in range(nPg[k]) for c in range(3)])
        return fields[k]

    def hook(fn, args, kwargs):
        if isinstance(fn, FuncInfo) and fn.name == "__Result_in_Strain_or_Stress_field":
            seen.append(args[0])
            k = len(seen) - 1
            a = XArray.from_nested(args[0])
            return XArray((1, a.shape[1]), [Poly.var(f"r{k}_{p}") for p in range(a.shape[1])])
        if isinstance(fn, _NpAttr) and fn.path == "asarray" and args and isinstance(args[0], XArray):
            return XArray(args[0].shape, args[0].data)
        from ..femchain import fe_hook_full

        return fe_hook_full(fn, args, kwargs)

    I = Interp(repo)
    I.call_hook = hook
    groups = [SimpleNamespace(tag=0), SimpleNamespace(tag=1)]
    r.instance(fn=f.qualname)
    out = XArray.from_nested(I.call_function(f, [field_of, groups, "vm", MQ.sqrt(2)]))
    bad = None
    if len(seen) != 2:
        bad = f"the extractor is called {len(seen)} times for 2 groups"
    else:
        for k in (0, 1):
            a = XArray.from_nested(seen[k])
            want = fields[k]
            if a.shape != want.shape or any(not is_zero(x - y) for x, y in zip(a.data, want.data)):
                bad = f"group {k}: the extractor receives an array of shape {a.shape} that is not the (Ne, nPg={nPg[k]}, n) field returned for the group (e.g. averaged over the Gauss points first: a nonlinear result such as the von Mises norm is then that of the mean tensor)"
    if bad:
        r.fail(f.qualname, "per-gauss-point", f.file, f.lineno, "Result_strain_or_stress_field_e", bad)
    else:
        r.ok("extractor applied to the full (Ne, nPg, n) field of each group")
    r.instance(fn=f.qualname)
    if len(seen) == 2 and out.shape == (2,):
        want = [sum((Poly.var(f"r{k}_{p}") for p in range(nPg[k])), Poly()) / nPg[k] for k in (0, 1)]
        if all(is_zero(out.data[k] - want[k]) for k in (0, 1)):
            r.ok("result_e = mean over Gauss points of the extracted values, groups in list order")
        else:
            r.fail(f.qualname, "mean", f.file, f.lineno, "Result_strain_or_stress_field_e", f"the per-element value is {out.data[0]!r}, expected the Gauss-point mean {want[0]!r} (groups in list order)")
    elif not bad:
        r.fail(f.qualname, "mean", f.file, f.lineno, "Result_strain_or_stress_field_e", f"result has shape {out.shape}, expected one value per element (2,)")


def reaction_rule(ctx):
    """R16.8: Calc_Reaction = K u (+ C v for the parabolic scheme, + C v + M a for every scheme the repository classes as hyperbolic)."""
    repo = ctx.repo
    r = ctx.rule("R16.8", "reactions: K[dofs] u, plus C[dofs] v for the parabolic scheme, plus C[dofs] v + M[dofs] a for every member of AlgoType.Get_Hyperbolic_Types(); every AlgoType member is classified", min_instances=6)
    from ..xeval import EnumVal

    simu = repo.cls(f"{SIM}._simu._Simu")
    f = simu.methods["Calc_Reaction"]
    algo_cls = repo.cls("EasyFEA.Simulations.Solvers.AlgoType")
    members = repo.enum_members(algo_cls.qualname)
    I0 = Interp(repo)
    hyp = {e.name for e in I0.call_function(algo_cls.methods["Get_Hyperbolic_Types"], [])}
    n = 2
    mat = lambda nm: XArray((n, n), [Poly.var(f"{nm}{i}{j}") for i in range(n) for j in range(n)])
    vec = lambda nm: XArray((n,), [Poly.var(f"{nm}{i}") for i in range(n)])
    K, C, M = mat("K"), mat("C"), mat("M")
    u, v, a = vec("u"), vec("v"), vec("a")
    for name in sorted(members):
        r.instance(fn=f.qualname)
        obj = XObj(simu, dict(
            isNonLinear=False, problemType=Opaque("pt"), algo=EnumVal(algo_cls, name, members[name]),
            Get_dofs=lambda pt=None: XArray((n,), list(range(n))), Get_K_C_M_F=lambda pt=None: (K, C, M, Opaque("F")),
            _Get_u_n=lambda pt=None: u, _Get_v_n=lambda pt=None: v, _Get_a_n=lambda pt=None: a,
        ))
        I = Interp(repo, extra_builtins={"MPI_SIZE": 1})
        out = XArray.from_nested(I.call_function(f, [], self_obj=obj))
        cls = "hyperbolic" if name in hyp else ("parabolic" if name == "parabolic" else "static")
        bad = None
        for i in range(n):
            want = sum((K[i, j] * u[j] for j in range(n)), Poly())
            if cls in ("parabolic", "hyperbolic"):
                want = want + sum((C[i, j] * v[j] for j in range(n)), Poly())
            if cls == "hyperbolic":
                want = want + sum((M[i, j] * a[j] for j in range(n)), Poly())
            if not is_zero(out.data[i] - want):
                bad = f"row {i}: {out.data[i]!r}"
        if bad:
            r.fail(f.qualname, f"algo:{name}", f.file, f.lineno, "_Simu.Calc_Reaction", f"algo {name} (classified {cls} by AlgoType.Get_Hyperbolic_Types()): the reaction is not K u{' + C v' if cls != 'static' else ''}{' + M a' if cls == 'hyperbolic' else ''}: {bad}")
        else:
            r.ok(f"{name}: {cls} terms")


def node_values_rule(ctx):
    repo = ctx.repo
    r = ctx.rule("R16.5", "element->node conversion divides connect_n_e @ values by the row sums of the same matrix (constants preserved)", min_instances=1)
    f = repo.method("EasyFEA.FEM._mesh.Mesh", "Get_Node_Values")
    r.instance(fn=f.qualname)
    txt = norm_text(f.node)
    # one matrix variable used both for the product and for the count
    mats = [n.targets[0].id for n in ast.walk(f.node) if isinstance(n, ast.Assign) and isinstance(n.targets[0], ast.Name) and any(isinstance(c, ast.Call) and (dotted(c.func) or "").endswith("Get_connect_n_e") for c in ast.walk(n.value))]
    ok = False
    for m in mats:
        uses_sum = any(isinstance(n, ast.Call) and isinstance(n.func, ast.Attribute) and n.func.attr == "sum" and isinstance(n.func.value, ast.Name) and n.func.value.id == m for n in ast.walk(f.node))
        uses_mul = any(isinstance(n, ast.BinOp) and isinstance(n.op, ast.MatMult) and isinstance(n.left, ast.Name) and n.left.id == m for n in ast.walk(f.node))
        if uses_sum and uses_mul:
            ok = True
    if ok:
        r.ok("Get_Node_Values: (connect_n_e @ v) / connect_n_e.sum(axis=1) with one matrix")
    else:
        r.fail(f.qualname, "average", f.file, f.lineno, "Mesh.Get_Node_Values", "the nodal average does not divide by the row sums of the matrix it multiplies with")


# (the former R16.6 compared the TEXT of _Calc_Psi_Elas and Construct_local_matrix_system - default quadrature names,
# occurrences of `thickness`, the substring `material.C` - and would fire on a renamed local; it is replaced by
# energy_identity_rule, which interprets both functions and decides W == 1/2 u.K u as a polynomial identity.)


def run(ctx):
    from . import e2e_rules as _e2e

    ctx.attempt(_e2e.beam_rule, ctx, 'R16.E3')
    ctx.attempt(_e2e.results_rule, ctx, 'R16.E1')
    # Wdef of a restored damage iteration is computed with the stiffness of THAT damage
    ctx.attempt(_e2e.phasefield_rule, ctx, 'R16.E4')
    # nodal and per-element forms of the results on a uniform state, single-group and mixed (TRI3 + QUAD4, TRI6 + QUAD8) meshes
    ctx.attempt(_e2e.patch_test_rule, ctx, 'R16.E2', ['TRI3', 'QUAD4', 'TRI3+QUAD4', 'TRI6+QUAD8'])
    from ..shared import zero_argument_division_rule as _zero_argument_division_rule

    ctx.attempt(_zero_argument_division_rule, ctx, "R16.12", scope=lambda f: f.module.name.startswith(("EasyFEA.Models.InElastic", "EasyFEA.Simulations._inelastic")))
    from ..shared import parameter_threading_rule as _parameter_threading_rule

    # a stress RESULT is the stress of the committed internal state: every step of the read receives that state
    ctx.attempt(_parameter_threading_rule, ctx, "R16.15", scope=lambda f: f.module.name.startswith("EasyFEA.Models.InElastic"), pname="z_e_pg", min_instances=4)
    ctx.attempt(stress_read_state_rule, ctx)
    ctx.attempt(active_stress_guard_rule, ctx)
    from .. import beamops as _beamops
    from ..elems import ElemLib as _ElemLib

    # internal forces of a beam (N, M, T results) are read in the axes of the member: the operators they are computed with carry the frame block
    ctx.attempt(_beamops.operator_frame_rule, ctx, _ElemLib(ctx.repo), "R16.18")
    ctx.attempt(hooke_rule, ctx)
    ctx.attempt(damaged_stress_rule, ctx)
    ctx.attempt(green_lagrange_result_rule, ctx)
    from . import c20 as _c20

    # 'the reported deformation energy equals one half of u'Ku, and reactions ... balance the applied loads': the two reductions,
    # also for a structure with Lagrange (connection) conditions, whose assembled operators carry the multiplier block
    ctx.attempt(_c20.owned_rows_rule, ctx, "R16.20")
    from ..shared import group_loop_rule as _group_loop_rule
    from . import c14 as _c14

    # 'the reported deformation energy equals one half of u'Ku' for the state the simulation holds: the memoised
    # stiffness of a staggered simulation is invalidated whenever the other field is replaced
    ctx.attempt(_c14.staggered_flags_rule, ctx, ctx.repo.cls("EasyFEA.Simulations._simu._Simu"))

    ctx.attempt(_group_loop_rule, ctx, "R16.11", scope=lambda f, _s=("EasyFEA.Simulations", "EasyFEA.Models._utils", "EasyFEA.FEM._mesh"): f.module.name.startswith(_s), min_instances=10)
    ctx.level = "other"
    ctx.explanation = (
        "Every Result() dispatcher is interpreted on a labelled two-node simulation stub for each dimension / dof configuration: the names folded out of "
        "Results_Available() are pushed through the if/elif chain (string predicates evaluated on the literal names); a name that falls through, raises, or "
        "indexes past its array is a violation; component results must return the right column of the right labelled field. The strain/stress extractor is "
        "interpreted on a symbolic Kelvin vector (components, von Mises identity). NOT decided: numerical values."
    )
    dispatch_rules(ctx)
    ctx.attempt(beam_conjugate_rule, ctx)
    ctx.attempt(group_order_rule, ctx)
    extractor_rules(ctx)
    field_e_rule(ctx)
    reaction_rule(ctx)
    node_values_rule(ctx)
    node_to_element_rule(ctx)
    ctx.attempt(storage_location_rule, ctx)
    ctx.attempt(energy_identity_rule, ctx)


def node_to_element_rule(ctx):
    """R16.9: nodal -> element conversion of a result is, element by element, the mean of the values at that element's own
    nodes - on meshes mixing element groups with different node counts too (constants are preserved)."""
    repo = ctx.repo
    r = ctx.rule("R16.9", "node -> element conversion: values_e[e] = mean of the nodal values over the nodes of element e, groups in Get_list_groupElem order, for groups with different node counts", min_instances=1)
    simu = repo.cls(f"{SIM}._simu._Simu")
    f = simu.methods["Results_Reshape_values"]
    r.instance(fn=f.qualname)
    quad = SimpleNamespace(nPe=4, connect=XArray((1, 4), [0, 1, 2, 3]))
    tri = SimpleNamespace(nPe=3, connect=XArray((2, 3), [1, 4, 2, 2, 4, 3]))
    conn = [[0, 1, 2, 3], [1, 4, 2], [2, 4, 3]]
    Nn, Ne = 5, 3
    cne = XArray((Nn, Ne), [Q(1) if n in conn[e] else Q(0) for n in range(Nn) for e in range(Ne)])
    mesh = SimpleNamespace(Nn=Nn, Ne=Ne, dim=2, Get_list_groupElem=lambda d=None: [quad, tri], Get_connect_n_e=lambda: cne, groupElem=quad)
    v = [Poly.var(f"v{n}") for n in range(Nn)]
    I = Interp(repo)
    out = XArray.from_nested(I.call_function(f, [XArray((Nn,), list(v)), False], self_obj=XObj(simu, dict(mesh=mesh)))).ravel()
    bad = None
    if out.size != Ne:
        bad = f"{out.size} element values for {Ne} elements"
    else:
        for e in range(Ne):
            want = sum((v[n] for n in conn[e]), Poly()) / len(conn[e])
            if not is_zero(out.data[e] - want):
                bad = f"element {e} ({len(conn[e])} nodes): {out.data[e]!r}, expected {want!r}"
    if bad:
        r.fail(f.qualname, "node-to-element", f.file, f.lineno, "_Simu.Results_Reshape_values", f"QUAD4 + TRI3 mesh: {bad}: a constant nodal field is not preserved on the elements of the second group")
    else:
        r.ok("values_e = per-element mean over each group's own connectivity (QUAD4 + TRI3)")


def storage_location_rule(ctx):
    """R16.10: a tensor result stored per element is converted to nodes by Get_Node_Values whatever the mesh sizes are.
    Results_Reshape_values is interpreted on a mesh where Ne * ncomp is a multiple of Nn (2 elements, 6 nodes, 3
    components): the element tensor must still be recognised as element data."""
    repo = ctx.repo
    r = ctx.rule("R16.10", "storage location of a result (per node / per element) is not inferred from a size coincidence: element data whose size happens to be a multiple of Nn is still converted with Get_Node_Values", min_instances=2)
    simu = repo.cls(f"{SIM}._simu._Simu")
    f = simu.methods["Results_Reshape_values"]
    Nn, Ne, nc = 6, 2, 3
    conn = [[0, 1, 4, 3], [1, 2, 5, 4]]
    quad = SimpleNamespace(nPe=4, connect=XArray((2, 4), [n for c in conn for n in c]))
    marker = {}

    def node_values(values_e):
        marker["called"] = True
        ve = XArray.from_nested(values_e)
        out = []
        for n in range(Nn):
            es = [e for e in range(Ne) if n in conn[e]]
            for c in range(ve.shape[1]):
                out.append(sum((ve[e, c] for e in es), Poly()) / len(es))
        return XArray((Nn, ve.shape[1]), out)

    mesh = SimpleNamespace(Nn=Nn, Ne=Ne, dim=2, Get_list_groupElem=lambda d=None: [quad], Get_Node_Values=node_values, groupElem=quad)
    I = Interp(repo)
    # (a) element tensor (Ne, 3) asked at nodes
    r.instance(fn=f.qualname)
    ve = XArray((Ne, nc), [Poly.var(f"s{e}{c}") for e in range(Ne) for c in range(nc)])
    marker.clear()
    out = XArray.from_nested(I.call_function(f, [ve, True], self_obj=XObj(simu, dict(mesh=mesh))))
    want = node_values(ve)
    ok = out.shape == want.shape and all(is_zero(a - b) for a, b in zip(out.data, want.data))
    if ok:
        r.ok("element tensor (2, 3) on a 6-node mesh -> Get_Node_Values")
    else:
        r.fail(f.qualname, "size-coincidence:element->node", f.file, f.lineno, "_Simu.Results_Reshape_values", f"2 elements x 3 components on a 6-node mesh: the element tensor is taken for nodal data because its size is a multiple of Nn (result shape {out.shape}, expected {want.shape} from Get_Node_Values): Result('Stress', nodeValues=True) disagrees with Result('Sxx', True)")
    # (b) nodal vector (Nn,) asked at elements when Nn is a multiple of Ne
    r.instance(fn=f.qualname)
    vn = XArray((Nn,), [Poly.var(f"v{n}") for n in range(Nn)])
    out = XArray.from_nested(I.call_function(f, [vn, False], self_obj=XObj(simu, dict(mesh=mesh)))).ravel()
    want = [sum((vn[n] for n in conn[e]), Poly()) / 4 for e in range(Ne)]
    ok = out.size == Ne and all(is_zero(a - b) for a, b in zip(out.data, want))
    if ok:
        r.ok("nodal scalar (6,) on a 2-element mesh -> per-element mean")
    else:
        r.fail(f.qualname, "size-coincidence:node->element", f.file, f.lineno, "_Simu.Results_Reshape_values", f"6 nodal values on a 2-element mesh: the nodal field is taken for element data because its size is a multiple of Ne (got {out.size} values: a (2, 3) reshape of the nodal vector)")


def beam_conjugate_rule(ctx):
    """R16.13: the beam strain results name the generalised strains conjugate to the internal forces: the beam law is
    diagonal (Get_D returns np.diag in every branch: force_k = D_kk strain_k), so "ux'" is the component of the strain
    vector at the index of "N", "rx'" at the index of "Mx", "ry'" at "My", "rz'" at "Mz" -- unscaled.  Beam.Result is
    interpreted with symbolic strain and force vectors; results that raise are R16.1's business."""
    repo = ctx.repo
    r = ctx.rule("R16.13", "beam strain results: Result(\"ux'\" / \"rx'\" / \"ry'\" / \"rz'\") == the strain component conjugate to N / Mx / My / Mz (same index as the force result, coefficient 1)", min_instances=8)
    B = repo.cls(f"{SIM}._beam.Beam")
    # premise: the law is diagonal
    for gd in [f for f in repo.all_functions() if f.name == "Get_D" and f.module.name.startswith("EasyFEA.Models.Beam") and not any(isinstance(n, ast.Return) and isinstance(n.value, ast.Constant) for n in ast.walk(f.node))]:
        for n in ast.walk(gd.node):
            if isinstance(n, ast.Assign) and any(isinstance(t, ast.Name) and t.id == "D" for t in n.targets):
                if not (isinstance(n.value, ast.Call) and (dotted(n.value.func) or "").endswith("np.diag")):
                    raise AnalysisError("R16.13: the beam law Get_D is no longer built with np.diag: the conjugacy premise must be re-established")
    pairs = (("ux'", "N"), ("rx'", "Mx"), ("ry'", "My"), ("rz'", "Mz"))
    fres = repo.lookup_method(B, "Result")
    for ci, label, dim, dof_n, extra in configs(repo):
        if ci is not B:
            continue
        tim = extra["useTimoshenko"]
        width = {(1, False): 1, (2, False): 2, (3, False): 4, (1, True): 1, (2, True): 3, (3, True): 6}[(dim, tim)]
        eps = XArray((1, 1, width), [Poly.var(f"e{k}") for k in range(width)])
        frc = XArray((1, 1, width), [Poly.var(f"f{k}") for k in range(width)])
        extra = dict(extra, _Calc_Epsilon_e_pg=lambda *a, **k: eps, _Calc_InternalForces_e_pg=lambda *a, **k: frc)
        obj = make_sim(repo, ci, dim, dof_n, extra)
        events = []
        I = Interp(repo)
        I.attr_hook = attr_hook_factory(obj, repo)
        I.call_hook = call_hook(events)
        names = [str(n) for n in I.call_function(repo.lookup_method(ci, "Results_Available"), [], self_obj=obj)]

        def one(name):
            try:
                v = I.call_function(fres, [name, False], self_obj=obj)
            except (XRaise, Uninterpretable):
                return None
            if isinstance(v, XArray) and v.size == 1:
                v = v.data[0]
            return v if isinstance(v, (Poly, int, Fraction)) or hasattr(v, "vars") else None

        for sname, fname in pairs:
            if sname not in names or fname not in names:
                continue
            r.instance(fn=fres.qualname)
            fv, sv = one(fname), one(sname)
            if fv is None or sv is None:
                r.ok(f"[{label}] {sname}: raises or is not followed (R16.1)")
                continue
            fv, sv = Poly.of(fv), Poly.of(sv)
            k = [i for i in range(width) if is_zero(fv - Poly.var(f"f{i}")) or is_zero(fv + Poly.var(f"f{i}"))]
            if len(k) != 1:
                r.ok(f"[{label}] {fname} is not a single force component here")
                continue
            want = Poly.var(f"e{k[0]}")
            if is_zero(sv - want):
                r.ok(f"[{label}] {sname} == strain[{k[0]}] (conjugate of {fname})")
            else:
                r.fail(fres.qualname, f"{label}|{sname}", fres.file, fres.lineno, "Beam.Result", f"[{label}] Result(\"{sname}\") returns {sv!r} where e_k is component k of the generalised strain vector; its conjugate force {fname} is component {k[0]}, so the result must be e{k[0]}")


def group_order_rule(ctx):
    """R16.14: 'converting between nodal and element values': element values are numbered group after group in the order of
    Mesh.Get_list_groupElem(); the node-element incidence matrix used for the conversion stacks the groups' blocks in
    that same order.  Get_connect_n_e is interpreted on a mesh with two main-dimension groups (and a boundary group)
    whose blocks are tagged."""
    repo = ctx.repo
    mesh = repo.cls("EasyFEA.FEM._mesh.Mesh")
    f = mesh.methods["Get_connect_n_e"]
    fl = mesh.methods["Get_list_groupElem"]
    r = ctx.rule("R16.14", "Mesh.Get_connect_n_e stacks the element groups in the order of Get_list_groupElem() (the order element results are numbered in)", min_instances=2)

    class G:
        _xeval_open = True

        def __init__(self, tag, dim):
            self.tag, self.dim = tag, dim

        def Get_connect_n_e(self):
            return ("block", self.tag)

    for tags in (["QUAD4", "TRI3"], ["TRI3", "QUAD4", "TRI6"]):
        r.instance(fn=f.qualname)
        groups = {"SEG2": G("SEG2", 1)}
        for t in tags:
            groups[t] = G(t, 2)
        groups["POINT"] = G("POINT", 0)
        obj = XObj(mesh, {mesh.mangle("__dict_groupElem"): groups, mesh.mangle("__dim"): 2})
        I = Interp(repo)
        I.call_hook = lambda fn, args, kwargs: ("stack", [b[1] for b in args[0]]) if isinstance(fn, Opaque) and fn.tag.endswith("hstack") else NotImplemented
        out = I.call_function(f, [], self_obj=obj)
        order = [g.tag for g in I.call_function(fl, [], self_obj=obj)]
        got = out[1] if isinstance(out, tuple) and out[0] == "stack" else [out[1]] if isinstance(out, tuple) else None
        if got == order:
            r.ok(f"groups {tags}: blocks stacked as {order}")
        else:
            r.fail(f.qualname, f"order:{'+'.join(tags)}", f.file, f.lineno, "Mesh.Get_connect_n_e", f"main-dimension groups {tags}: the incidence blocks are stacked as {got} while the elements (and every element result) are numbered in the order {order}: one group's element values are averaged over the other group's connectivity")


def stress_read_state_rule(ctx, rid="R16.16"):
    """The stress RESULT of an inelastic material is the stress of the given strain AT THE GIVEN INTERNAL STATE: Behavior.
    Compute_stress is interpreted with recording stand-ins for the kinematic completion (Compute_strain_6d: in plane
    stress it solves the out-of-plane strain that makes sig_zz vanish -- at a state) and for the stress evaluation
    (Compute_sigma): both must receive the state Compute_stress was given, and no time may elapse (dt = 0)."""
    from ..xeval import Interp, XObj, Opaque, XRaise
    from ..alg import Q

    repo = ctx.repo
    ci = repo.cls("EasyFEA.Models.InElastic._behavior.Behavior")
    f = ci.methods["Compute_stress"]
    r = ctx.rule(rid, "Behavior.Compute_stress hands the internal state it was given to the kinematic completion (plane-stress eps_zz) and to the stress evaluation, with no elapsed time", min_instances=1)
    r.instance(fn=f.qualname)
    log = {}
    Z, EPS, EPS6 = Opaque("z"), Opaque("eps"), Opaque("eps6")

    def strain6(eps, zOld=None, dt=Q(0), *a, **k):
        if "zOld_e_pg" in k:
            zOld = k["zOld_e_pg"]
        log["strain"] = (eps, zOld, k.get("dt", dt))
        return EPS6

    def sigma(eps6, z=None, *a, **k):
        log["sigma"] = (eps6, k.get("z_e_pg", z))
        return Opaque("sig6")

    obj = XObj(ci, {"Compute_strain_6d": strain6, "Compute_sigma": sigma, "dim": 3})
    try:
        Interp(repo).call_function(f, [EPS, Z], self_obj=obj)
    except XRaise as e:
        r.fail(f.qualname, "state-threading", f.file, f.lineno, "Behavior.Compute_stress", f"raises {e}")
        return
    bad = None
    if "strain" not in log or "sigma" not in log:
        bad = "the stress read no longer goes through Compute_strain_6d / Compute_sigma"
    elif log["strain"][0] is not EPS:
        bad = "the kinematic completion does not receive the given strain"
    elif log["strain"][1] is not Z:
        bad = f"the kinematic completion receives the state {log['strain'][1]!r} instead of the given one: in plane stress the out-of-plane strain is solved from a virgin material while the stress is then evaluated with the committed plastic strain (Sxx, Syy, Svm wrong after yielding and unloading)"
    elif not (isinstance(log["strain"][2], (int, float)) or hasattr(log["strain"][2], "numerator")) or log["strain"][2] != 0:
        bad = f"the kinematic completion runs with dt = {log['strain'][2]!r}: reading a stress lets time elapse"
    elif log["sigma"][0] is not EPS6 or log["sigma"][1] is not Z:
        bad = "the stress evaluation does not receive the completed strain and the given state"
    if bad:
        r.fail(f.qualname, "state-threading", f.file, f.lineno, "Behavior.Compute_stress", bad)
    else:
        r.ok("Compute_stress: (eps, z, dt=0) -> Compute_strain_6d; (eps6, z) -> Compute_sigma")


def active_stress_guard_rule(ctx, rid="R16.17"):
    """'the stress result equals the stress the assembly used': whether the active fibre stress takes part is decided at
    several places (the element operator, the assembly, the reported second Piola-Kirchhoff stress) by a test on
    `material.active_stress`, which may be a per-element / per-point FIELD.  Every such test is evaluated, with the
    interpreter, on three activation fields -- nowhere active, everywhere active, active in PART of the body -- and turned
    into 'the active part contributes' (a guard whose body returns early counts negated): all sites must agree, and a
    partly active body must contribute everywhere."""
    from ..xeval import Interp, XObj, XRaise
    from ..xarray import XArray
    from ..alg import Q

    repo = ctx.repo
    r = ctx.rule(rid, "every test on material.active_stress decides 'the active stress contributes' the same way for a nowhere / everywhere / partly active field (partly active contributes)", min_instances=3)
    fields = {"nowhere": XArray((2, 2), [Q(0)] * 4), "everywhere": XArray((2, 2), [Q(1), Q(2), Q(3), Q(4)]), "partly": XArray((2, 2), [Q(0), Q(0), Q(3), Q(4)])}
    want = {"nowhere": False, "everywhere": True, "partly": True}
    for f in sorted(repo.all_functions(), key=lambda f: f.qualname):
        if not f.module.name.startswith(("EasyFEA.Simulations._hyperelastic", "EasyFEA.FEM.Operators.NonLinear", "EasyFEA.Models.HyperElastic")):
            continue
        for n in ast.walk(f.node):
            if not (isinstance(n, ast.If) and any(isinstance(x, ast.Attribute) and x.attr == "active_stress" for x in ast.walk(n.test))):
                continue
            r.instance(fn=f.qualname)
            skips = bool(n.body) and isinstance(n.body[0], ast.Return)
            verdict = {}
            ok = True
            for lab, fld in fields.items():
                mat = SimpleNamespace(active_stress=fld)
                env = {"material": mat, "self": XObj(f.cls, {"material": mat}) if f.cls is not None else None}
                try:
                    t = Interp(repo).eval_expr(n.test, {k: v for k, v in env.items() if v is not None}, f.file, f.module)
                except XRaise as e:
                    ok = False
                    verdict[lab] = f"raises {e}"
                    continue
                contributes = (not bool(t)) if skips else bool(t)
                verdict[lab] = contributes
                ok = ok and contributes == want[lab]
            if ok:
                r.ok(f"{f.qualname}: `{norm_text(n.test)[:50]}` ({'skip' if skips else 'add'} guard) == any(active_stress != 0)")
            else:
                r.fail(f.qualname, f"active-guard:{norm_text(n.test)[:40]}", f.file, n.lineno, f"{(f.cls.name + '.') if f.cls else ''}{f.name}", f"`{norm_text(n.test)[:60]}` lets the active stress contribute for {verdict} (expected nowhere: False, everywhere: True, partly: True): with an activation field that vanishes in part of the body this site disagrees with the element operator -- the reported stress is not the stress the equilibrium was solved with")


def hooke_rule(ctx, rid="R16.19"):
    """'stress and strain components': the stress a result is read from is Hooke's law AT EACH POINT, sigma[e, p] =
    C[e, p] eps[e, p], whatever form the stiffness has: one matrix (d, d), one per element (Ne, d, d), one per integration
    point (Ne, nPg, d, d).  `_Elastic.Calc_Sigma_e_pg` and `Calc_Psi_e_pg` are interpreted (with the finite-element array
    model) on symbolic strains and stiffnesses, for (Ne, nPg) = (2, 3) and for the coincidences Ne == nPg and Ne == nPg == d."""
    from ..femchain import XFe, fe_hook_full

    repo = ctx.repo
    ci = repo.cls("EasyFEA.Models.Elastic._laws._Elastic")
    fS, fP = ci.methods["Calc_Sigma_e_pg"], ci.methods["Calc_Psi_e_pg"]
    r = ctx.rule(rid, "Hooke's law per point: Calc_Sigma_e_pg[e, p] == C[e(, p)] eps[e, p] and Calc_Psi_e_pg == 1/2 sigma . eps for a constant, per-element and per-point stiffness, Ne == nPg (== d) included", min_instances=9)
    d = 3
    for ne, npg in ((2, 3), (2, 2), (3, 3)):
        eps = XFe((ne, npg, d), [Poly.var(f"e{e}{p}{i}") for e in range(ne) for p in range(npg) for i in range(d)])
        for form in ("constant", "per element", "per point"):
            lead = {"constant": (), "per element": (ne,), "per point": (ne, npg)}[form]

            def cname(e, p, i, j):
                return {"constant": f"c{i}{j}", "per element": f"c{e}_{i}{j}", "per point": f"c{e}{p}_{i}{j}"}[form]

            import itertools as _it

            C = XArray(lead + (d, d), [Poly.var(cname(*(list(ix[: len(lead)]) + [0] * (2 - len(lead))), ix[-2], ix[-1])) for ix in _it.product(*[range(n) for n in lead + (d, d)])])
            obj = XObj(ci, {"C": C, "isHeterogeneous": len(lead) > 0})
            I = Interp(repo, extra_builtins={"Tic": lambda *a, **k: Sink()})
            I.call_hook = fe_hook_full
            r.instance(fn=fS.qualname)
            label = f"{form} stiffness, (Ne, nPg) = ({ne}, {npg})"
            try:
                sig = XArray.from_nested(I.call_function(fS, [eps], self_obj=obj))
                psi = XArray.from_nested(I.call_function(fP, [eps], self_obj=obj))
            except XRaise as e:
                r.fail(fS.qualname, f"hooke:{form}:{ne}x{npg}", fS.file, fS.lineno, "_Elastic.Calc_Sigma_e_pg", f"{label}: raises {e}")
                continue
            bad = None
            if sig.shape != (ne, npg, d) or psi.shape != (ne, npg):
                bad = f"shapes {sig.shape} / {psi.shape}"
            else:
                for e in range(ne):
                    for p in range(npg):
                        w = [sum((Poly.var(cname(e, p, i, j)) * eps[e, p, j] for j in range(d)), Poly()) for i in range(d)]
                        for i in range(d):
                            if bad is None and not is_zero(Poly.of(sig[e, p, i]) - w[i]):
                                bad = f"sigma[{e}, {p}, {i}] is {sig[e, p, i]!r}, expected {w[i]!r}"
                        wp = sum((w[i] * eps[e, p, i] for i in range(d)), Poly()) * Q(1, 2)
                        if bad is None and not is_zero(Poly.of(psi[e, p]) - wp):
                            bad = f"psi[{e}, {p}] is not 1/2 sigma . eps"
            if bad:
                r.fail(fS.qualname, f"hooke:{form}:{ne}x{npg}", fS.file, fS.lineno, "_Elastic.Calc_Sigma_e_pg", f"{label}: {bad}: the stress (and every component / von Mises / energy result read from it) is computed with the stiffness of another element or point")
            else:
                r.ok(f"{label}: sigma = C eps and psi = 1/2 sigma . eps at every (e, p)")


def energy_identity_rule(ctx, rid="R16.6"):
    """'the reported deformation energy equals one half of u'Ku': both sides are INTERPRETED on the same opaque element
    (symbolic shape-function gradients and weighted Jacobian, different symbols for each integration scheme, symbolic
    symmetric stiffness C, thickness t, nodal displacements u): `Elastic.Construct_local_matrix_system` gives K_e,
    `Elastic._Calc_Psi_Elas` the energy; the polynomial identity  W == 1/2 u . K_e u  is decided by normal form.  (A
    different default quadrature, a missing thickness, another law accessor or a factor all break the identity.)"""
    from ..elems import ElemLib
    from ..femchain import OpaqueGroup, fe_hook_full
    from ..xeval import EnumVal, Sink

    repo = ctx.repo
    r = ctx.rule(rid, "deformation energy interpreted: Elastic._Calc_Psi_Elas() == 1/2 u . K_e u with K_e from Elastic.Construct_local_matrix_system, as a polynomial identity in the geometric factors of each integration scheme, C, the thickness and u (2-D and 3-D)", min_instances=2)
    E = repo.cls(f"{SIM}._elastic.Elastic")
    law = repo.cls("EasyFEA.Models.Elastic._laws._Elastic")
    fpsi = E.methods["_Calc_Psi_Elas"]
    fK = E.methods["Construct_local_matrix_system"]
    lib = ElemLib(repo)
    for name in ("TRI3", "TETRA4"):
        r.instance(fn=fpsi.qualname)
        g = OpaqueGroup(lib, name, nPe=2)
        dim, nPe = g.dim, g.nPe
        ns = 3 if dim == 2 else 6
        a = g.obj.attrs
        key = lambda mt: mt.name if isinstance(mt, EnumVal) else ("rigi" if mt is None else str(mt))
        # one symbol set per integration scheme: a mismatch of schemes between the two sides cannot cancel
        a["Get_dN_e_pg"] = lambda mt=None: XFe((1, 1, dim, nPe), [Poly.var(f"d{key(mt)}{k}_{n}") for k in range(dim) for n in range(nPe)])
        a["Get_weightedJacobian_e_pg"] = lambda mt=None: XFe((1, 1), [Poly.var(f"wJ{key(mt)}")])
        nd = dim * nPe
        u = XArray((nd,), [Poly.var(f"u{i}") for i in range(nd)])
        a["Locates_sol_e"] = lambda sol, dof_n=None, asFeArray=False: XFe((1, 1, nd), list(XArray.from_nested(sol).data)) if asFeArray else XArray((1, nd), list(XArray.from_nested(sol).data))
        C = XArray((ns, ns), [Poly.var(f"C{min(i, j)}{max(i, j)}") for i in range(ns) for j in range(ns)])
        t = Poly.var("t")
        mat = XObj(law, {"C": C, "thickness": t, "isHeterogeneous": False, "dim": dim})
        mesh = SimpleNamespace(Get_list_groupElem=lambda d=None: [g.obj], groupElem=g.obj, Nn=nPe, dim=dim)
        sim = XObj(E, {"mesh": mesh, "dim": dim, "material": mat, "displacement": u, "rho": Poly.var("rho"), "_verbosity": False,
                       E.mangle("__coefK"): Poly.var("cK"), E.mangle("__coefM"): Poly.var("cM")})
        I = Interp(repo, max_steps=4_000_000, extra_builtins={"Tic": lambda *a_, **k_: Sink()})
        I.call_hook = fe_hook_full
        try:
            out = I.call_function(fK, [Opaque("problemType")], self_obj=sim)
            K = XArray.from_nested(out[g.obj][0])
            W = I.call_function(fpsi, [], self_obj=sim)
        except XRaise as e:
            r.fail(fpsi.qualname, f"energy:{name}", fpsi.file, fpsi.lineno, "Elastic._Calc_Psi_Elas", f"{name}: raises {e}")
            continue
        if K.shape != (1, nd, nd):
            r.fail(fK.qualname, f"energy:{name}", fK.file, fK.lineno, "Elastic.Construct_local_matrix_system", f"{name}: K_e has shape {K.shape}")
            continue
        want = sum((u[i] * K[0, i, j] * u[j] for i in range(nd) for j in range(nd)), Poly()) * Q(1, 2)
        W = Poly.of(W.data[0] if isinstance(W, XArray) else W)
        if is_zero(W - want):
            r.ok(f"{name}: W == 1/2 u.K_e u ({len(want.terms) if hasattr(want, 'terms') else '?'} monomials)")
        else:
            vars_w, vars_k = sorted(v for v in W.vars() if not v.startswith(("u", "C"))), sorted(v for v in want.vars() if not v.startswith(("u", "C")))
            r.fail(fpsi.qualname, "energy", fpsi.file, fpsi.lineno, "Elastic._Calc_Psi_Elas", f"{name} (dim {dim}): the reported deformation energy is not 1/2 u.K u for the stiffness the simulation assembles: the energy is built from {vars_w}, the stiffness from {vars_k} (integration scheme, thickness, law or a factor differ)")


def damaged_stress_rule(ctx, rid="R16.21"):
    """'stress ... components ... the reported deformation energy equals one half of u'Ku': in a phase-field simulation the
    stress results and the stiffness come from the same damaged law, c(d) = g(d) c+ + c-.  `PhaseField.__Construct_Elastic_Matrix`
    (the tensor it hands to the stiffness operator is captured) and `PhaseField._Calc_Sigma_e_pg` are interpreted with one
    symbolic split (c+, c-; Sigma+ = c+ eps, Sigma- = c- eps), a symbolic degradation g and a symbolic strain:
    the reported stress must be  c(d) eps  with the c(d) the stiffness is assembled from."""
    from ..femchain import fe_hook_full
    from ..xeval import Sink

    repo = ctx.repo
    ci = repo.cls(f"{SIM}._phasefield.PhaseField")
    fK = repo.lookup_method(ci, ci.mangle("__Construct_Elastic_Matrix"))
    fS = ci.methods["_Calc_Sigma_e_pg"]
    r = ctx.rule(rid, "phase-field: the stress handed to the results is c(d) eps with c(d) = g(d) c+ + c- the tensor the displacement stiffness is assembled from (symbolic split, degradation and strain)", min_instances=1)
    r.instance(fn=fS.qualname)
    n = 3
    cP = XFe((1, 1, n, n), [Poly.var(f"p{i}{j}") for i in range(n) for j in range(n)])
    cM = XFe((1, 1, n, n), [Poly.var(f"m{i}{j}") for i in range(n) for j in range(n)])
    eps = XFe((1, 1, n), [Poly.var(f"e{i}") for i in range(n)])
    g = XFe((1, 1), [Poly.var("g")])
    mv = lambda Mx: XFe((1, 1, n), [sum((Mx[0, 0, i, j] * eps[0, 0, j] for j in range(n)), Poly()) for i in range(n)])
    pfm = SimpleNamespace(Calc_C=lambda e_: (XFe(cP.shape, list(cP.data)), XFe(cM.shape, list(cM.data))), Calc_Sigma_e_pg=lambda e_: (mv(cP), mv(cM)),
                          Get_g_e_pg=lambda d, grp, mt=None: g, thickness=Poly.var("t"))
    group = XObj(repo.cls("EasyFEA.FEM._group_elem._GroupElem"), dict(Ne=1, Get_gauss=lambda mt=None: SimpleNamespace(nPg=1), elemType="TRI3"))
    captured = {}

    def hook(fn, args, kwargs):
        fi = fn if isinstance(fn, FuncInfo) else getattr(fn, "finfo", None)
        if fi is not None and fi.name == "LinearizedElasticity":
            captured["c"] = args[1]
            return XArray((1, 2, 2), [Poly.var(f"K{k}") for k in range(4)])
        return fe_hook_full(fn, args, kwargs)

    I = Interp(repo, extra_builtins={"Tic": lambda *a, **k: Sink()})
    I.call_hook = hook
    obj = XObj(ci, {"phaseFieldModel": pfm, "model": pfm, "damage": Opaque("d"), "displacement": Opaque("u"), "dim": 2, "_verbosity": False,
                    "mesh": SimpleNamespace(Get_list_groupElem=lambda d=None: [group], groupElem=group), "_Calc_Epsilon_e_pg": lambda *a, **k: eps})
    try:
        I.call_function(fK, [], self_obj=obj)
        sig = XArray.from_nested(I.call_function(fS, [eps, group], self_obj=obj))
    except XRaise as e:
        r.fail(fS.qualname, "damaged-stress", fS.file, fS.lineno, "PhaseField._Calc_Sigma_e_pg", f"raises {e}")
        return
    c = captured.get("c")
    if c is None:
        raise AnalysisError(f"{rid}: the tensor handed to LinearizedElasticity by __Construct_Elastic_Matrix was not captured")
    c = XArray.from_nested(c)
    want = [sum((Poly.of(c[0, 0, i, j]) * eps[0, 0, j] for j in range(n)), Poly()) for i in range(n)]
    if sig.shape == (1, 1, n) and all(is_zero(Poly.of(sig[0, 0, i]) - want[i]) for i in range(n)):
        r.ok("Sigma == (g c+ + c-) eps, the law of the assembled stiffness")
    else:
        r.fail(fS.qualname, "damaged-stress", fS.file, fS.lineno, "PhaseField._Calc_Sigma_e_pg", f"the reported stress component 0 is {sig.data[0]!r}; the stiffness is assembled from c(d) = {c.data[0]!r} ..., so c(d) eps has {want[0]!r}: Stress / Sxx / Svm results do not belong to the matrix the displacement solves with (1/2 int Stress : Strain != 1/2 u'K(d)u)")


def green_lagrange_result_rule(ctx, rid="R16.22"):
    """'each named component result equals the corresponding component of the vector or tensor result it belongs to': the
    strain results of a hyperelastic simulation.  `HyperElastic._Calc_GreenLagrange` is interpreted on a state whose
    Green-Lagrange tensor is a symbolic symmetric 3 x 3 matrix E, for a 2-D and a 3-D simulation, and what it returns is
    pushed through the component extractor the Result dispatch uses: 'xx', 'yy', 'xy' (and 'zz', 'yz', 'xz' in 3-D) must
    come out as E_xx, E_yy, E_xy ... - the vector must be laid out as the extractor reads it for its length."""
    from ..femchain import fe_hook_full

    repo = ctx.repo
    ci = repo.cls(f"{SIM}._hyperelastic.HyperElastic")
    f = ci.methods["_Calc_GreenLagrange"]
    fx = repo.module(MU).functions["__Result_in_Strain_or_Stress_field"]
    r = ctx.rule(rid, "HyperElastic strain results: the vector _Calc_GreenLagrange returns, read by the component extractor, gives E_xx, E_yy, E_xy (2-D) and the six components (3-D) of a symbolic Green-Lagrange tensor", min_instances=2)
    s2 = MQ.sqrt(2)
    idx = {"xx": (0, 0), "yy": (1, 1), "zz": (2, 2), "yz": (1, 2), "xz": (0, 2), "xy": (0, 1)}
    for dim in (2, 3):
        r.instance(fn=f.qualname)
        E = [[Poly.var(f"E{min(i, j)}{max(i, j)}") if (dim == 3 or (i < 2 and j < 2) or i == j == 2) else Poly() for j in range(3)] for i in range(3)]
        Emat = XFe((1, 1, 3, 3), [E[i][j] for i in range(3) for j in range(3)])

        def hook(fn, args, kwargs):
            from ..repo import ClassInfo

            if isinstance(fn, ClassInfo) and fn.name == "HyperElasticState":
                return SimpleNamespace(Compute_GreenLagrange=lambda: Emat)
            return fe_hook_full(fn, args, kwargs)

        I = Interp(repo)
        I.call_hook = hook
        group = SimpleNamespace(Ne=1)
        obj = XObj(ci, {"dim": dim, "displacement": Opaque("u"), "mesh": SimpleNamespace(groupElem=group)})
        bad = None
        try:
            vec = I.call_function(f, [group], self_obj=obj)
            for comp in (["xx", "yy", "xy"] if dim == 2 else list(idx)):
                val = I.call_function(fx, [XFe(vec.shape, list(vec.data)), comp, s2])
                v = val.data[0] if isinstance(val, XArray) else val
                a, b = idx[comp]
                if bad is None and not is_zero(Poly.of(v) - E[a][b]):
                    bad = f"component '{comp}' comes out as {v!r}, the Green-Lagrange tensor has E_{comp} = {E[a][b]!r}"
        except (XRaise, Uninterpretable) as e:
            bad = f"raises {e}"
        if bad:
            r.fail(f.qualname, f"green-lagrange:dim{dim}", f.file, f.lineno, "HyperElastic._Calc_GreenLagrange", f"{dim}-D simulation: {bad}: the strain vector is not in the layout the extractor reads for its length (Exy / Evm / the tensor result are those of another component)")
        else:
            r.ok(f"dim {dim}: named strain components == entries of the Green-Lagrange tensor")
