"""C05 -- time-integration schemes: the four hand-written case tables (evaluation
states, system-matrix weights, history right-hand side, corrector) are
interpreted as linear forms over (u_np1, u_n, v_n, a_n) x (K, C, M) with
coefficients in Q(dt, beta, gamma, alpha) and compared by normal form."""

from __future__ import annotations

import ast

from ..alg import Lin, Poly, Rat, Q, is_zero
from ..repo import AnalysisError, AnchorMissing, dotted, norm_text, walk_no_nested
from ..xeval import Interp, XObj, EnumVal, Opaque, Sink, XRaise, Uninterpretable
from ..xarray import XArray

SIMU = "EasyFEA.Simulations._simu._Simu"
ALGO = "EasyFEA.Simulations.Solvers.AlgoType"

EVAL = "_Solver_Evaluate_u_v_a_for_time_scheme"
COEF = "_Solver_Get_K_C_M_coefs_for_time_scheme"
RHS = "_Solver_Apply_Neumann"
DIR = "_Solver_Apply_Dirichlet"
CORR = "_Solver_Update_solutions"


class Vec(Lin):
    _xeval_attrs = ("count_nonzero", "nnz", "any")

    # value tests a program can make on a state vector: a generic vector has a non-zero entry, the zero vector none
    def count_nonzero(self):
        return 1 if self.t else 0

    @property
    def nnz(self):
        return 1 if self.t else 0

    def any(self):
        return bool(self.t)


class Mat(Lin):
    def __matmul__(self, v):
        if not isinstance(v, Vec):
            raise TypeError("matrix @ non-vector")
        out = {}
        for m, cm in self.t.items():
            for a, ca in v.t.items():
                k = f"{m}@{a}"
                out[k] = out.get(k, 0) + cm * ca
        return Vec(out)


dt, beta, gamma, alpha = (Poly.var(n) for n in ("dt", "beta", "gamma", "alpha"))


def make_self(repo, algo_name, interp):
    simu = repo.cls(SIMU)
    members = repo.enum_members(ALGO)
    ev = EnumVal(repo.cls(ALGO), algo_name, members[algo_name])
    obj = XObj(simu)
    a = obj.attrs
    a["isNonLinear"] = False
    a["_verbosity"] = False
    a["_Get_u_n"] = lambda *x, **k: Vec.atom("u_n")
    a["_Get_v_n"] = lambda *x, **k: Vec.atom("v_n")
    a["_Get_a_n"] = lambda *x, **k: Vec.atom("a_n")
    a["Get_K_C_M_F"] = lambda *x, **k: (Mat.atom("K"), Mat.atom("C"), Mat.atom("M"), Vec.atom("F"))
    a["Bc_dofs_Neumann"] = lambda *x, **k: []
    a["Bc_values_Neumann"] = lambda *x, **k: []
    a["Bc_dofs_Dirichlet"] = lambda *x, **k: []
    a["Bc_values_Dirichlet"] = lambda *x, **k: XArray((0,), [])
    a["_Simu__Get_Ndof"] = lambda *x, **k: 0
    a["_Simu__Solver_Get_Dirichlet_A_x"] = lambda pt, res, A, b, vals: (A, "x")
    # parameters through the public setters (so that hht_newmark's derived beta/gamma are read from the code)
    if algo_name == "parabolic":
        f = repo.method(SIMU, "Solver_Set_Parabolic_Algorithm")
        interp.call_function(f, [dt, alpha], self_obj=obj)
    else:
        f = repo.method(SIMU, "Solver_Set_Hyperbolic_Algorithm")
        interp.call_function(f, [dt], dict(algo=ev, beta=beta, gamma=gamma, alpha=alpha), self_obj=obj)
    if "_Simu__algo" not in a or a["_Simu__algo"] != ev:
        raise AnalysisError(f"setter did not select algorithm {algo_name}")
    return obj, f


def call_hook(fn, args, kwargs):
    if isinstance(fn, Opaque) and fn.tag.endswith("csr_matrix"):
        return Vec.atom("f_ext")
    return NotImplemented


def lin_sub(form: Lin, env):
    """substitute parameter polynomials in the coefficients"""
    out = {}
    for a, c in form.t.items():
        if isinstance(c, (Poly, Rat)):
            c = c.subs(env)
        out[a] = c
    return form.__class__(out)


def coef_of(form, atom):
    return form.t.get(atom, Q(0)) if form is not None else Q(0)


def eq(a, b):
    d = a - b
    return is_zero(d)


def ratq(x):
    return Rat.of(x)


# reference (documented) relations ------------------------------------------------


def ref_update_residuals(algo, u1, v1, a1, un, vn, an, prm):
    """Documented update relations of each scheme written as residual forms that
    must vanish (Solvers.AlgoType docstrings / Hughes 1987 ch. 8-9)."""
    dt_, be, ga, al = prm
    if algo in ("newmark", "hht", "hht_newmark"):
        return [
            ("u' = u_n + dt v_n + dt^2/2 [(1-2beta) a_n + 2 beta a']", u1 - (un + dt_ * vn + dt_**2 / 2 * ((1 - 2 * be) * an + 2 * be * a1))),
            ("v' = v_n + dt [(1-gamma) a_n + gamma a']", v1 - (vn + dt_ * ((1 - ga) * an + ga * a1))),
        ]
    if algo == "midpoint":
        return [
            ("v' = 2/dt (u'-u_n) - v_n", v1 - (2 / ratq(dt_) * (u1 - un) - vn)),
            ("a' = 2/dt (v'-v_n) - a_n", a1 - (2 / ratq(dt_) * (v1 - vn) - an)),
        ]
    if algo == "euler_implicit":
        return [
            ("v' = (u'-u_n)/dt", v1 - (u1 - un) / dt_),
            ("a' = (v'-v_n)/dt", a1 - (v1 - vn) / dt_),
        ]
    if algo == "euler_explicit":
        return [
            ("u' = u_n + dt v_n", u1 - (un + dt_ * vn)),
            ("v' = v_n + dt a'", v1 - (vn + dt_ * a1)),
        ]
    if algo == "parabolic":
        return [("u' = u_n + dt [(1-alpha) v_n + alpha v']", u1 - (un + dt_ * ((1 - al) * vn + al * v1)))]
    raise AnalysisError(f"no documented relations for algorithm {algo}")


def ref_eval_points(algo, u1, v1, a1, un, vn, an, prm):
    dt_, be, ga, al = prm
    if algo in ("newmark", "euler_implicit"):
        return u1, v1, a1
    if algo == "hht":
        return (1 - al) * u1 + al * un, (1 - al) * v1 + al * vn, (1 - al) * a1 + al * an
    if algo == "midpoint":
        return (u1 + un) / 2, (v1 + vn) / 2, (a1 + an) / 2
    if algo == "hht_newmark":
        return (1 - al) * u1 + al * un, v1, a1
    if algo == "parabolic":
        return u1, v1, None
    if algo == "euler_explicit":
        return un, vn, a1
    raise AnalysisError(algo)


def run(ctx):
    from . import e2e_rules as _e2e

    ctx.attempt(_e2e.dynamics_rule, ctx, 'R5.E1')
    ctx.attempt(step_commit_rule, ctx)
    ctx.attempt(derived_parameters_rule, ctx)
    ctx.attempt(validate_before_commit_rule, ctx)
    ctx.attempt(scheme_switch_frame_rule, ctx)
    ctx.attempt(newton_loop_rule, ctx)
    ctx.attempt(load_equivalence_rule, ctx)
    # 'for all step sequences including switching algorithm or step size between steps': no memo of a scheme-dependent quantity survives a change of the scheme
    from ..shared import memo_rule as _memo_rule, cached_param_rule as _cached_param_rule

    _scope = ("EasyFEA.Simulations._simu", "EasyFEA.Simulations.Solvers")
    ctx.attempt(_memo_rule, ctx, "R5.8", scope=lambda f: f.module.name.startswith(_scope), min_instances=0)
    ctx.attempt(_cached_param_rule, ctx, "R5.9", min_instances=20)
    repo = ctx.repo
    ctx.level = "proof"
    ctx.explanation = (
        "The four case tables of _Simu (EVAL, COEF, RHS+A, CORR) are interpreted branch by branch (AlgoType tests folded) into "
        "linear forms over the atoms X@y, X in {K,C,M}, y in {u_np1,u_n,v_n,a_n}, with coefficients in Q(dt,beta,gamma,alpha); "
        "the identities R5.1-R5.4 are decided by normal form of rational functions, i.e. for every prior state, step size and parameter value."
    )
    ctx.trust("sa/alg.py Lin/Rat/Poly normal forms; sa/xeval.py interpreter (branch folding on AlgoType)")
    ctx.assume("the linear solve returns the solution of A x = b (C04) and K, M are symmetric (C02) for the energy statements")
    simu = repo.cls(SIMU)
    members = [m for m in repo.enum_members(ALGO)]
    time_algos = [m for m in members if m != "elliptic"]

    r1 = ctx.rule("R5.1", "COEF = d EVAL / d u_np1 (system-matrix weights are the derivatives of the evaluation-point states)", min_instances=7)
    r2 = ctx.rule("R5.2", "discrete equation: A u_np1 - b == K u_t + C v_t + M a_t - (F + f_ext) as a linear form", min_instances=7)
    r3 = ctx.rule("R5.3", "corrector satisfies the documented update relations and EVAL equals the documented evaluation point of the corrected state; predictor copies agree", min_instances=7)
    r4 = ctx.rule("R5.4", "conservation lemmas (midpoint, average-acceleration Newmark, backward Euler)", min_instances=3)
    r5 = ctx.rule("R5.5", "every AlgoType member is handled by each of the four tables and by the type lists", min_instances=8)
    r15 = ctx.rule("R5.15", "the step is the same linear map at every state: with u_n, v_n, a_n (or some of them) zero - a body at rest with an initial acceleration, a released state - EVAL, the right-hand side and the corrector are the general expressions restricted to that state (no value-dependent shortcut)", min_instances=30)
    r6 = ctx.rule("R5.6", "no denominator of the four tables can vanish on the parameter range the setters accept", min_instances=7)

    fE, fC, fR, fD, fU = (repo.method(SIMU, n) for n in (EVAL, COEF, RHS, DIR, CORR))
    u1 = Vec.atom("u_np1")
    un, vn, an = Vec.atom("u_n"), Vec.atom("v_n"), Vec.atom("a_n")
    PT = Opaque("problemType")
    denoms = {}

    def collect(form, where):
        if form is None:
            return
        for c in form.t.values():
            if isinstance(c, Rat) and not c.d.is_const():
                denoms.setdefault(where, []).append(c.d)

    results = {}
    for algo in time_algos:
        I = Interp(repo, extra_builtins={"Tic": lambda *a, **k: Sink()})
        I.call_hook = call_hook
        for r in (r1, r2, r3, r5, r6):
            r.instance()
        try:
            obj, fset = make_self(repo, algo, I)
        except XRaise as e:
            r5.fail(f"{SIMU}.setter[{algo}]", "raises", fE.file, fE.lineno, "Solver_Set_*_Algorithm", f"setter raises {e} for {algo}")
            continue
        params = obj.attrs.get("_Simu__parabolicParams" if algo == "parabolic" else "_Simu__hyperbolicParams")
        if algo == "parabolic":
            prm = (params[0], None, None, params[1])
        else:
            prm = tuple(params)

        def call(f, *args):
            try:
                return I.call_function(f, list(args), self_obj=obj)
            except XRaise as e:
                r5.fail(f"{f.qualname}[{algo}]", "unhandled", f.file, f.lineno, f.name, f"AlgoType.{algo} is not handled: raises {e}")
                return None

        ev = call(fE, PT, u1)
        co = call(fC)
        b = call(fR, PT)
        Ax = call(fD, PT, b, Opaque("resolution"))
        cr = call(fU, PT, u1)
        if None in (ev, co, b, Ax, cr):
            continue
        r5.ok(f"{algo}: handled by EVAL, COEF, RHS, A, CORR")
        u_t, v_t, a_t = ev
        cK, cC, cM = co
        A = Ax[0]
        uc, vc, ac = cr
        for f_, w in ((u_t, "EVAL"), (v_t, "EVAL"), (a_t, "EVAL"), (b, "RHS"), (vc, "CORR"), (ac, "CORR"), (uc, "CORR")):
            collect(f_, (algo, w))
        for c_, w in ((cK, "COEF"), (cC, "COEF"), (cM, "COEF")):
            if isinstance(c_, Rat) and not c_.d.is_const():
                denoms.setdefault((algo, w), []).append(c_.d)
        results[algo] = dict(ev=ev, co=co, b=b, A=A, cr=cr, prm=prm)

        # the solve variable: u_np1 except where the corrector documents otherwise (euler_explicit: a^n)
        explicit = not eq(uc, u1)

        # ---- R5.1
        if not explicit:
            for name, st, c in (("coefK", u_t, cK), ("coefC", v_t, cC), ("coefM", a_t, cM)):
                d = coef_of(st, "u_np1")
                if is_zero(Rat.of(d) - Rat.of(c)):
                    r1.ok(f"{algo}: {name} = {c!r} == d({'uva'[('coefK','coefC','coefM').index(name)]}_t)/d(u_np1)")
                else:
                    r1.fail(f"{fC.qualname}[{algo}]", name, fC.file, fC.lineno, COEF,
                            f"AlgoType.{algo}: {name} = {c!r} but the derivative of the evaluation-point state w.r.t. u_np1 in {EVAL} is {d!r}")
        else:
            # unknown x = a^n: A must be the M-weight only and EVAL must not depend on x
            ok = is_zero(Rat.of(cK)) and is_zero(Rat.of(cC)) and not is_zero(Rat.of(cM)) and is_zero(coef_of(u_t, "u_np1")) and is_zero(coef_of(v_t, "u_np1"))
            if ok:
                r1.ok(f"{algo}: unknown is the acceleration, weights (0, 0, {cM!r})")
            else:
                r1.fail(f"{fC.qualname}[{algo}]", "explicit", fC.file, fC.lineno, COEF, f"AlgoType.{algo}: explicit scheme must have coefK = coefC = 0 and states independent of the unknown")

        # ---- R5.2
        lhs = A @ u1 - b
        at_eff = a_t
        if a_t is None:
            # no acceleration state: the M-part of (A x - b) defines it; it must be what the corrector returns (or absent)
            at_eff = ac if ac is not None else None
        rhs = Mat.atom("K") @ u_t + Mat.atom("C") @ v_t - Vec.atom("F") - Vec.atom("f_ext")
        if at_eff is not None:
            rhs = rhs + Mat.atom("M") @ at_eff
        if explicit and a_t is None:
            # a' returned by the corrector is the solve variable
            pass
        d = lhs - rhs
        if d.is_zero():
            r2.ok(f"{algo}: A x - b == K u_t + C v_t + M a_t - F ({len(lhs.t)} matrix-vector atoms)")
        else:
            bad = ", ".join(f"{a}: {c!r}" for a, c in list(d.t.items())[:4])
            r2.fail(f"{fR.qualname}[{algo}]", "equation", fR.file, fR.lineno, RHS,
                    f"AlgoType.{algo}: A u_np1 - b differs from K u_t + C v_t + M a_t - F; residual coefficients: {bad}")

        # ---- R5.3
        vcs = vc if vc is not None else Vec()
        acs = ac if ac is not None else Vec()
        for label, res in ref_update_residuals(algo, uc, vcs, acs, un, vn, an, prm):
            if res.is_zero():
                r3.ok(f"{algo}: corrector satisfies {label}")
            else:
                bad = ", ".join(f"{a}: {c!r}" for a, c in list(res.t.items())[:4])
                r3.fail(f"{fU.qualname}[{algo}]", label, fU.file, fU.lineno, CORR,
                        f"AlgoType.{algo}: returned (u', v', a') violate the documented relation {label}; residual {bad}")
        ru, rv, ra = ref_eval_points(algo, uc, vcs, acs, un, vn, an, prm)
        for name, got, want in (("u_t", u_t, ru), ("v_t", v_t, rv), ("a_t", a_t, ra)):
            if got is None and (want is None or a_t is None and name == "a_t"):
                r3.ok()
                continue
            if got is None or want is None:
                r3.fail(f"{fE.qualname}[{algo}]", name, fE.file, fE.lineno, EVAL, f"AlgoType.{algo}: {name} is {'absent' if got is None else 'present'} but the documented scheme says otherwise")
                continue
            if (got - want).is_zero():
                r3.ok(f"{algo}: {name} == documented evaluation point of the corrected state")
            else:
                bad = ", ".join(f"{a}: {c!r}" for a, c in list((got - want).t.items())[:4])
                r3.fail(f"{fE.qualname}[{algo}]", name, fE.file, fE.lineno, EVAL,
                        f"AlgoType.{algo}: {name} of {EVAL} is not the documented evaluation point of the state returned by {CORR}; difference {bad}")

        # ---- R5.15 restriction to states with vanishing parts
        def drop(form, zero):
            if form is None:
                return None
            return form.__class__({a: c for a, c in form.t.items() if a.split("@")[-1] not in zero})

        for zero in (("u_n", "v_n"), ("a_n",), ("u_n",), ("v_n", "a_n"), ("u_n", "v_n", "a_n")):
            r15.instance()
            saved = {nm: obj.attrs["_Get_" + nm] for nm in ("u_n", "v_n", "a_n")}
            for nm in zero:
                obj.attrs["_Get_" + nm] = lambda *x, **k: Vec()
            label = " = ".join(zero) + " = 0"
            try:
                got = dict(zip(("u_t", "v_t", "a_t"), I.call_function(fE, [PT, u1], self_obj=obj)))
                got["b"] = I.call_function(fR, [PT], self_obj=obj)
                got.update(zip(("u'", "v'", "a'"), I.call_function(fU, [PT, u1], self_obj=obj)))
            except XRaise as e:
                r15.fail(f"{fR.qualname}[{algo}]", f"state:{label}", fR.file, fR.lineno, RHS, f"AlgoType.{algo}: at a state with {label} the step raises {e}")
                continue
            finally:
                obj.attrs.update({"_Get_" + nm: v for nm, v in saved.items()})
            want = dict(zip(("u_t", "v_t", "a_t"), ev))
            want["b"] = b
            want.update(zip(("u'", "v'", "a'"), cr))
            bad = []
            for nm, g in got.items():
                w = drop(want[nm], zero)
                if (g is None) != (w is None) or (g is not None and not (g - w).is_zero()):
                    fn = {"b": fR, "u'": fU, "v'": fU, "a'": fU}.get(nm, fE)
                    bad.append((nm, fn, g, w))
            if bad:
                nm, fn, g, w = bad[0]
                r15.fail(f"{fn.qualname}[{algo}]", f"state:{label}", fn.file, fn.lineno, fn.name,
                         f"AlgoType.{algo}: at a state with {label} (the other parts arbitrary) {nm} is {g!r}; the general expression restricted to that state is {w!r}: the step treats a state whose parts vanish differently from the scheme")
            else:
                r15.ok(f"{algo}: {label}: EVAL, RHS, CORR are the restrictions of the general expressions")

    # ---- R5.4 conservation lemmas
    def lemma(algo, label, form, subs=None):
        r4.instance()
        if subs:
            form = lin_sub(form, subs)
        if form.is_zero():
            r4.ok(f"{algo}: {label}")
        else:
            bad = ", ".join(f"{a}: {c!r}" for a, c in list(form.t.items())[:4])
            r4.fail(f"{fU.qualname}[{algo}]", label, fU.file, fU.lineno, CORR, f"conservation lemma fails for {algo}: {label}; residual {bad}")

    if "midpoint" in results:
        R = results["midpoint"]
        uc, vc, ac = R["cr"]
        u_t, v_t, a_t = R["ev"]
        d = R["prm"][0]
        lemma("midpoint", "v' + v_n == 2 (u' - u_n)/dt", vc + vn - 2 * (uc - un) / d)
        lemma("midpoint", "a_t == (v' - v_n)/dt", a_t - (vc - vn) / d)
        lemma("midpoint", "u_t == (u' + u_n)/2", u_t - (uc + un) / 2)
        lemma("midpoint", "v_t == (u' - u_n)/dt", v_t - (uc - un) / d)
    if "newmark" in results:
        R = results["newmark"]
        uc, vc, ac = R["cr"]
        d = R["prm"][0]
        s = {"beta": Q(1, 4), "gamma": Q(1, 2)}
        lemma("newmark(1/4,1/2)", "u' - u_n == dt (v' + v_n)/2", uc - un - d * (vc + vn) / 2, s)
        lemma("newmark(1/4,1/2)", "v' - v_n == dt (a' + a_n)/2", vc - vn - d * (ac + an) / 2, s)
    if "euler_implicit" in results:
        R = results["euler_implicit"]
        uc, vc, ac = R["cr"]
        d = R["prm"][0]
        lemma("euler_implicit", "v' == (u' - u_n)/dt", vc - (uc - un) / d)
        lemma("euler_implicit", "a' == (v' - v_n)/dt", ac - (vc - vn) / d)
    ctx.extra["energy_argument"] = (
        "midpoint, C=0, F=0: R5.2 gives M a_t + K u_t = 0; multiply by (u'-u_n) = dt v_t: (v'-v_n)^T M (v'+v_n)/2 + (u'-u_n)^T K (u'+u_n)/2 = 0, "
        "i.e. E' - E = 0 for symmetric K, M. Newmark(1/4,1/2): same with the two trapezoidal lemmas. Backward Euler: M a' + K u' = 0 times (u'-u_n) = dt v' gives "
        "E' - E = -1/2 dv^T M dv - 1/2 du^T K du <= 0 for K, M positive semi-definite."
    )

    # ---- R5.5 type lists
    I = Interp(repo)
    hyp = I.call_function(repo.method(ALGO, "Get_Hyperbolic_Types"), [])
    hp = I.call_function(repo.method(ALGO, "Get_Hyperbolic_and_Parabolic_Types"), [])
    r5.instance()
    names_h = sorted(str(x) for x in hyp)
    names_hp = sorted(str(x) for x in hp)
    want_h = sorted(m for m in time_algos if m != "parabolic")
    if names_h == want_h and names_hp == sorted(time_algos):
        r5.ok(f"type lists: hyperbolic = {names_h}")
    else:
        f = repo.method(ALGO, "Get_Hyperbolic_Types")
        r5.fail(f.qualname, "lists", f.file, f.lineno, "AlgoType.Get_Hyperbolic_Types", f"type lists {names_h} / {names_hp} do not cover the enum members {time_algos}")

    # ---- R5.6 denominators vs accepted ranges
    ranges = accepted_ranges(repo)
    ctx.extra["accepted_ranges"] = {k: [str(x) for x in v] for k, v in ranges.items()}
    for (algo, where), ds in sorted(denoms.items()):
        seen = set()
        for d in ds:
            for var in vanishing_vars(d, ranges["parabolic" if algo == "parabolic" else ("hht_newmark" if algo == "hht_newmark" else "hyperbolic")]):
                key = (algo, var)
                if key in seen:
                    continue
                seen.add(key)
                fn = {"EVAL": fE, "COEF": fC, "RHS": fR, "CORR": fU}[where]
                r6.fail(f"{SIMU}.time-scheme[{algo}]", f"zero-denominator:{var}", fn.file, fn.lineno, fn.name,
                        f"AlgoType.{algo}: a denominator ({d!r}) vanishes at {var} = 0, a value the setter accepts")
        if not seen:
            r6.ok(f"{algo}/{where}: {len(ds)} denominators non-zero on the accepted range")


def accepted_ranges(repo):
    """Parameter ranges the setters accept, read from their assert statements:
    {scheme-family: {var: (lo, lo_strict, hi, hi_strict)}}"""
    out = {"parabolic": {}, "hyperbolic": {}, "hht_newmark": {}}

    def scan(stmts, tgt):
        for st in stmts:
            if isinstance(st, ast.Assert) and isinstance(st.test, ast.Compare):
                c = st.test
                items = [c.left] + list(c.comparators)
                ops = c.ops
                # forms: name > 0 ; 0 <= name < 1 ; 0 <= name <= 1/3
                for i, it in enumerate(items):
                    if isinstance(it, ast.Name):
                        lo = hi = None
                        los = his = False
                        if i > 0:
                            try:
                                v = Q(str(eval(compile(ast.Expression(items[i - 1]), "", "eval"), {})))
                            except Exception:
                                v = None
                            op = ops[i - 1]
                            if v is not None and isinstance(op, (ast.Lt, ast.LtE)):
                                lo, los = v, isinstance(op, ast.Lt)
                        if i < len(items) - 1:
                            try:
                                from fractions import Fraction

                                val = eval(compile(ast.Expression(items[i + 1]), "", "eval"), {})
                                v = Fraction(val).limit_denominator(1000)
                            except Exception:
                                v = None
                            op = ops[i]
                            if v is not None and isinstance(op, (ast.Lt, ast.LtE)):
                                hi, his = v, isinstance(op, ast.Lt)
                            if v is not None and isinstance(op, (ast.Gt, ast.GtE)):
                                lo, los = v, isinstance(op, ast.Gt)
                        for t in tgt:
                            out[t][it.id] = (lo, los, hi, his)

    fp = repo.method(SIMU, "Solver_Set_Parabolic_Algorithm")
    scan(fp.node.body, ["parabolic"])
    fh = repo.method(SIMU, "Solver_Set_Hyperbolic_Algorithm")
    for st in fh.node.body:
        if isinstance(st, ast.If) and "hht_newmark" in norm_text(st.test):
            scan(st.body, ["hht_newmark"])
            scan(st.orelse, ["hyperbolic"])
        else:
            scan([st], ["hyperbolic", "hht_newmark"])
    return out


def vanishing_vars(d: Poly, rng):
    """Variables v such that the denominator polynomial d can vanish for an
    accepted value of v (sound for monomials and for polynomials with
    non-negative coefficients on non-negative ranges; otherwise undecided ->
    nothing reported)."""
    terms = list(d.t.items())
    if len(terms) == 1:
        m, c = terms[0]
        out = []
        for v, e in m:
            lo, los, hi, his = rng.get(v, (None, False, None, False))
            # zero is accepted unless the range excludes it
            excludes0 = (lo is not None and (lo > 0 or (lo == 0 and los))) or (hi is not None and (hi < 0 or (hi == 0 and his)))
            if not excludes0:
                out.append(v)
        return out
    # general polynomial: factor out the monomial gcd, then require positivity
    vars_ = d.vars()
    mins = {v: min(dict(m).get(v, 0) for m in d.t) for v in vars_}
    out = []
    for v, e in mins.items():
        if e > 0:
            lo, los, hi, his = rng.get(v, (None, False, None, False))
            excludes0 = (lo is not None and (lo > 0 or (lo == 0 and los))) or (hi is not None and (hi < 0 or (hi == 0 and his)))
            if not excludes0:
                out.append(v)
    # cofactor: all coefficients of one sign and every variable >= 0 with a non-zero constant term -> never zero
    return out


def step_commit_rule(ctx):
    """R5.10: one step = solve, correct, commit -- in that order and through one tuple.  `_Solver_Solve_problemType` is
    interpreted (linear and Newton path) with recording stubs: the corrector receives what the solver returned, it is
    evaluated BEFORE the committed state is replaced (it reads u_n, v_n, a_n), `_Set_solutions` receives the corrector's
    (u, v, a) in that order and stores them in the u / v / a slots; the step returns the new displacement."""
    from ..xeval import Interp, XObj, FuncInfo, _Bound, XRaise
    from ..xarray import XArray

    repo = ctx.repo
    r = ctx.rule("R5.10", "step sequencing: solve -> corrector (reading the old state) -> commit of the corrector's (u, v, a) into the u / v / a slots; the step returns the new displacement", min_instances=3)
    simu = repo.cls(SIMU)
    f = simu.methods["_Solver_Solve_problemType"]
    fset = simu.methods["_Set_solutions"]
    for nonlinear in (False, True):
        r.instance(fn=f.qualname)
        log = []
        U = XArray((2,), [Poly.var("U0"), Poly.var("U1")])
        upd = (XArray((2,), [Poly.var("u0"), Poly.var("u1")]), XArray((2,), [Poly.var("v0"), Poly.var("v1")]), XArray((2,), [Poly.var("a0"), Poly.var("a1")]))

        def update(pt, u, log=log, upd=upd):
            log.append(("update", u))
            return upd

        def setsol(pt, *a, log=log):
            log.append(("commit", a))

        originals = [list(x.data) for x in upd]
        known = XArray((1,), [1], "i")  # dof 1 is prescribed (a moving support: its rates are what the corrector says)
        obj = XObj(simu, {"isNonLinear": nonlinear, "_Solver_Solve_Newton_Raphson": lambda pt, U=U: (U, 3, 0.0, []), "_Solver_Update_solutions": update, "_Set_solutions": setsol,
                          "Bc_dofs_Dirichlet": lambda pt=None: known, "Bc_dofs_known_unknown": lambda pt=None: (known, XArray((1,), [0], "i")), "Bc_values_Dirichlet": lambda pt=None: XArray((1,), [Poly.var("ubar")])})

        def hook(fn, args, kwargs, U=U):
            fi = fn if isinstance(fn, FuncInfo) else getattr(fn, "finfo", None)
            if isinstance(fi, FuncInfo) and fi.name == "Solve_simu":
                return (U, None)
            return NotImplemented

        I = Interp(repo)
        I.call_hook = hook
        try:
            ret = I.call_function(f, [Opaque("pt")], self_obj=obj)
        except XRaise as e:
            r.fail(f.qualname, f"sequence:{'newton' if nonlinear else 'linear'}", f.file, f.lineno, "_Solver_Solve_problemType", f"raises {e}")
            continue
        kinds = [k for k, _ in log]
        bad = None
        if kinds != ["update", "commit"]:
            bad = f"the step performs {kinds}, expected one corrector evaluation followed by one commit"
        elif log[0][1] is not U:
            bad = "the corrector does not receive the vector the solver returned"
        elif len(log[1][1]) != 3 or any(x is not y for x, y in zip(log[1][1], upd)):
            bad = "the commit does not receive the corrector's (u, v, a) in that order"
        elif ret is not upd[0]:
            bad = "the step does not return the new displacement"
        else:
            for nm, x, orig in zip("uva", log[1][1], originals):
                if list(x.data) != orig:
                    k = next(i for i, (p_, q_) in enumerate(zip(x.data, orig)) if p_ != q_)
                    bad = f"the committed {nm} differs from what the corrector returned (dof {k}{', a prescribed dof' if k == 1 else ''}: {x.data[k]!r} instead of {orig[k]!r}): the stored state no longer satisfies the scheme's update relations there"
                    break
        if bad:
            r.fail(f.qualname, f"sequence:{'newton' if nonlinear else 'linear'}", f.file, f.lineno, "_Solver_Solve_problemType", f"{'Newton' if nonlinear else 'linear'} path: {bad}")
        else:
            r.ok(f"{'Newton' if nonlinear else 'linear'} path: solve -> corrector -> commit(u, v, a)")
    # the commit stores each vector in its own slot
    r.instance(fn=fset.qualname)
    log = []
    obj = XObj(simu, {simu.mangle("__Set_u_n"): lambda pt, x: log.append(("u", x)), simu.mangle("__Set_v_n"): lambda pt, x: log.append(("v", x)), simu.mangle("__Set_a_n"): lambda pt, x: log.append(("a", x))})
    u, v, a = (XArray((1,), [Poly.var(n)]) for n in "uva")
    Interp(repo).call_function(fset, [Opaque("pt"), u, v, a], self_obj=obj)
    got = {k: x for k, x in log}
    if got.get("u") is u and got.get("v") is v and got.get("a") is a and len(log) == 3:
        r.ok("_Set_solutions: u -> u slot, v -> v slot, a -> a slot")
    else:
        r.fail(fset.qualname, "slots", fset.file, fset.lineno, "_Set_solutions", f"(u, v, a) are stored as {[(k, getattr(x, 'data', x)) for k, x in log]}")


def newton_loop_rule(ctx):
    """R5.11: the Newton-Raphson driver: starting from the committed displacement, every iteration re-assembles
    (Need_Update), publishes the current iterate (the value the incremental Dirichlet values and the tangent are
    computed at) BEFORE solving, adds the solved increment, and stops at the first iterate meeting a tolerance; the
    result is u_n + sum of the increments and a non-converged loop raises.  Interpreted with a scripted linear solver."""
    from ..xeval import Interp, XObj, FuncInfo, XRaise, Sink
    from ..xarray import XArray

    repo = ctx.repo
    r = ctx.rule("R5.11", "Newton-Raphson driver: u = u_n + sum(delta_k); each iteration raises Need_Update and publishes the current iterate before the solve; stops at the first iterate within tolerance; raises when not converged", min_instances=2)
    simu = repo.cls(SIMU)
    f = simu.methods["_Solver_Solve_Newton_Raphson"]
    for label, norms, absTol, maxIter, expect_iters, expect_raise in (("converges at the third iterate", [Q(1), Q(1, 2), Q(1, 1000)], Q(1, 100), 20, 3, False), ("never within tolerance", [Q(1), Q(1), Q(1)], Q(1, 100), 3, 3, True)):
        r.instance(fn=f.qualname)
        u_n = XArray((2,), [Poly.var("u0"), Poly.var("u1")])
        deltas = [XArray((2,), [Q(3 + k), Q(4 + 2 * k)]) for k in range(len(norms))]
        log = []
        state = {"k": 0, "current": None}

        def solve(*a, **k):
            i = state["k"]
            state["k"] += 1
            cur = state["current"]
            log.append(("solve", None if cur is None else list(cur.data)))
            return deltas[i], norms[i]

        def set_current(u):
            state["current"] = XArray(u.shape, list(u.data))  # value at the time of the call
            log.append(("publish", list(u.data)))

        obj = XObj(simu, {
            "_Get_u_n": lambda pt=None: XArray(u_n.shape, list(u_n.data)),
            "Need_Update": lambda *a, **k: log.append(("need_update", None)),
            simu.mangle("__Solver_Set_Newton_Raphson_current_solution"): set_current,
            simu.mangle("__Solver_Get_Newton_Raphson_Params"): lambda: (absTol, Q(1, 10**9), Q(1, 10**9), maxIter),
            "problemType": Opaque("pt"), "Niter": 0,
        })

        def hook(fn, args, kwargs):
            fi = fn if isinstance(fn, FuncInfo) else getattr(fn, "finfo", None)
            if isinstance(fi, FuncInfo) and fi.name == "Solve_simu":
                return solve()
            if isinstance(fi, FuncInfo) and fi.module.name.endswith(".Terminal"):
                return None
            return NotImplemented

        I = Interp(repo, extra_builtins={"MPI_RANK": 1, "MPI_SIZE": 1, "Tic": lambda *a, **k: Sink()})
        I.call_hook = hook
        raised = None
        try:
            out = I.call_function(f, [Opaque("pt")], self_obj=obj)
        except XRaise as e:
            raised = e
            out = None
        bad = None
        if expect_raise:
            if raised is None:
                bad = "the loop ends without converging and no error is raised"
        elif raised is not None:
            bad = f"raises {raised}"
        else:
            u = XArray.from_nested(out[0])
            want = [u_n.data[i] + sum((deltas[k].data[i] for k in range(expect_iters)), Q(0)) for i in range(2)]
            if state["k"] != expect_iters:
                bad = f"{state['k']} linear solves, expected {expect_iters} (stop at the first iterate within tolerance)"
            elif any(not is_zero(Poly.of(u.data[i]) - want[i]) for i in range(2)):
                bad = f"returns {list(u.data)!r}, expected u_n + sum of the increments = {want!r}"
        if bad is None:
            # per iteration: need_update and publish precede the solve, and the published iterate is u_n + previous increments
            k = 0
            seq = [x for x in log]
            idx = 0
            for it in range(state["k"]):
                chunk = []
                while idx < len(seq) and seq[idx][0] != "solve":
                    chunk.append(seq[idx])
                    idx += 1
                if idx >= len(seq):
                    bad = "missing solve"
                    break
                solve_entry = seq[idx]
                idx += 1
                kinds = [c[0] for c in chunk]
                cur = [u_n.data[i] + sum((deltas[j].data[i] for j in range(it)), Q(0)) for i in range(2)]
                if "need_update" not in kinds:
                    bad = f"iteration {it + 1}: the system is not re-assembled (no Need_Update before the solve)"
                    break
                pub = [c for c in chunk if c[0] == "publish"]
                if not pub or any(not is_zero(Poly.of(pub[-1][1][i]) - cur[i]) for i in range(2)):
                    bad = f"iteration {it + 1}: the iterate published before the solve is {pub[-1][1] if pub else None!r}, expected u_n + previous increments = {cur!r}"
                    break
        if bad:
            r.fail(f.qualname, f"newton:{label}", f.file, f.lineno, "_Solver_Solve_Newton_Raphson", f"{label}: {bad}")
        else:
            r.ok(f"{label}: {state['k']} iterations")


def derived_parameters_rule(ctx):
    """R5.12: the parameters a scheme runs with are the ones its documentation states.  For newmark / hht / midpoint the
    setter stores the (beta, gamma, alpha) it is given; for hht_newmark the pair is derived from alpha and must be the
    documented one, beta = 1/4 (1 + alpha)^2 and gamma = 1/2 + alpha (Doyen, Ern & Piperno 2011 with the sign of alpha
    reversed: the pair for which that scheme is second-order accurate and unconditionally stable) -- a table frozen
    from the AlgoType documentation.  The setter is interpreted with symbolic parameters."""
    repo = ctx.repo
    r = ctx.rule("R5.12", "stored scheme parameters: (beta, gamma, alpha) as given for newmark / hht / midpoint; hht_newmark: beta == 1/4 (1 + alpha)^2, gamma == 1/2 + alpha", min_instances=4)
    want = {
        "newmark": (beta, gamma, alpha),
        "hht": (beta, gamma, alpha),
        "midpoint": (beta, gamma, alpha),
        "hht_newmark": ((alpha + 1) * (alpha + 1) * Q(1, 4), alpha + Q(1, 2), alpha),
    }
    for algo, (wb, wg, wa) in want.items():
        I = Interp(repo)
        I.call_hook = call_hook
        obj, f = make_self(repo, algo, I)
        r.instance(fn=f.qualname)
        prm = obj.attrs.get("_Simu__hyperbolicParams")
        if not isinstance(prm, tuple) or len(prm) != 4:
            raise AnalysisError("R5.12: the hyperbolic parameters are no longer stored as (dt, beta, gamma, alpha)")
        bad = None
        for nm, got, w in (("dt", prm[0], dt), ("beta", prm[1], wb), ("gamma", prm[2], wg), ("alpha", prm[3], wa)):
            if not is_zero(Poly.of(got) - Poly.of(w)):
                bad = f"{nm} = {got!r}, documented {w!r}"
                break
        if bad:
            r.fail(f.qualname, f"params:{algo}", f.file, f.lineno, "Solver_Set_Hyperbolic_Algorithm", f"AlgoType.{algo}: the scheme runs with {bad}: every table reads the stored tuple, the step stays self-consistent but is not the documented scheme")
        else:
            r.ok(f"{algo}: stored parameters as documented")


def validate_before_commit_rule(ctx):
    """R5.13: a call that selects a time scheme either takes effect as a whole or not at all: in the Solver_Set_*
    setters no assertion / raise can run after a store through self (a rejected call -- dt <= 0, alpha outside the
    admissible range -- would otherwise leave the new algorithm paired with the parameters of the previous one; caught
    by the caller, the next steps run a scheme that is none of the documented ones).  Paths are followed over the
    if / else structure of the setter."""
    repo = ctx.repo
    simu = repo.cls(SIMU)
    r = ctx.rule("R5.13", "scheme setters validate before they store: no assert / raise is reachable after a store through self", min_instances=2)

    def walk(block, stored):
        """returns (stored-after-block, offending statement or None)"""
        for st in block:
            if isinstance(st, ast.If):
                s1, b1 = walk(st.body, stored)
                s2, b2 = walk(st.orelse, stored)
                if b1 or b2:
                    return True, b1 or b2
                stored = s1 or s2
                continue
            if isinstance(st, (ast.Assert, ast.Raise)) and stored:
                return stored, st
            if any(isinstance(n, ast.Attribute) and isinstance(n.value, ast.Name) and n.value.id == "self" and isinstance(n.ctx, ast.Store) for n in ast.walk(st)):
                stored = True
        return stored, None

    for nm, f in sorted(simu.methods.items()):
        if not nm.startswith("Solver_Set_") or not nm.endswith("_Algorithm") or f.cls is not simu:
            continue
        if not any(isinstance(n, (ast.Assert, ast.Raise)) for n in ast.walk(f.node)):
            continue
        r.instance(fn=f.qualname)
        _, bad = walk(f.node.body, False)
        if bad is not None:
            r.fail(f.qualname, "store-before-validation", f.file, bad.lineno, f"_Simu.{nm}", f"`{norm_text(bad)[:70]}` can reject the call after the setter has already stored part of the new configuration: a rejected call leaves the new algorithm with the parameters of the previous one")
        else:
            r.ok(f"{nm}: every check precedes every store")


def scheme_switch_frame_rule(ctx):
    """R5.14: 'for any previous state': selecting a time scheme (again, or another one, between two steps of a run) only
    changes the scheme: the committed displacement, velocity and acceleration -- the 'previous state' the next step's
    update relations start from -- are left as they are.  The Solver_Set_*_Algorithm setters are interpreted on a
    simulation object holding symbolic state vectors, for switches between schemes and for a re-selection; every
    attribute other than the scheme descriptor slots must be unchanged afterwards (by value)."""
    import copy

    from ..xeval import Interp, XObj, EnumVal, XRaise
    from ..xarray import XArray

    repo = ctx.repo
    simu = repo.cls(SIMU)
    r = ctx.rule("R5.14", "selecting a time scheme leaves the committed u, v, a (and every other attribute than the scheme descriptor) unchanged, for switches between schemes and re-selections", min_instances=4)
    members = repo.enum_members(ALGO)
    ev = lambda nm: EnumVal(repo.cls(ALGO), nm, members[nm])
    scheme_slots = {simu.mangle(n) for n in ("__algo", "__parabolicParams", "__hyperbolicParams")}
    cases = [("Solver_Set_Hyperbolic_Algorithm", "newmark", dict(dt=Q(1, 10), algo=ev("midpoint"))), ("Solver_Set_Hyperbolic_Algorithm", "midpoint", dict(dt=Q(1, 10), algo=ev("newmark"))),
             ("Solver_Set_Hyperbolic_Algorithm", "newmark", dict(dt=Q(1, 20), algo=ev("newmark"))), ("Solver_Set_Hyperbolic_Algorithm", "elliptic", dict(dt=Q(1, 10), algo=ev("hht"), alpha=Q(1, 5))),
             ("Solver_Set_Parabolic_Algorithm", "elliptic", dict(dt=Q(1, 10), alpha=Q(1, 2))), ("Solver_Set_Parabolic_Algorithm", "newmark", dict(dt=Q(1, 10)))]

    def snap(v):
        if isinstance(v, XArray):
            return ("arr", v.shape, tuple(v.data))
        if isinstance(v, dict):
            return ("dict", tuple((repr(k), snap(x)) for k, x in v.items()))
        if isinstance(v, (list, tuple)):
            return (type(v).__name__, tuple(snap(x) for x in v))
        return ("val", repr(v))

    for mname, old, kwargs in cases:
        f = simu.methods.get(mname)
        if f is None:
            continue
        r.instance(fn=f.qualname)
        vec = lambda t: XArray((2,), [Poly.var(f"{t}0"), Poly.var(f"{t}1")])
        attrs = {simu.mangle("__algo"): ev(old), simu.mangle("__dict_u_n"): {"pt": vec("u")}, simu.mangle("__dict_v_n"): {"pt": vec("v")}, simu.mangle("__dict_a_n"): {"pt": vec("a")},
                 simu.mangle("__hyperbolicParams"): (Q(1, 7), Q(1, 4), Q(1, 2), Q(1, 2)), simu.mangle("__parabolicParams"): (Q(1, 7), Q(1, 2)), "isNonLinear": False, "problemType": "pt"}
        obj = XObj(simu, attrs)
        before = {k: snap(v) for k, v in obj.attrs.items()}
        try:
            Interp(repo).call_function(f, [], dict(kwargs), self_obj=obj)
        except XRaise as e:
            r.fail(f.qualname, f"switch:{old}->{mname}", f.file, f.lineno, f"_Simu.{mname}", f"from {old}: raises {e}")
            continue
        # only what existed before the call is the simulation's state: an attribute the setter creates (a record of the
        # selection, say) changes nothing a step reads from the previous one
        changed = sorted(k for k in before if k not in scheme_slots and before.get(k) != (snap(obj.attrs[k]) if k in obj.attrs else None))
        label = f"{old}->{getattr(kwargs.get('algo'), 'name', 'parabolic')}"
        if changed:
            k = changed[0]
            r.fail(f.qualname, f"switch:{label}:{k.split('__')[-1]}", f.file, f.lineno, f"_Simu.{mname}", f"selecting the scheme ({label}) changes `{k}` from {before.get(k)} to {snap(obj.attrs[k]) if k in obj.attrs else 'deleted'}: the next step no longer starts from the state the previous step returned (update relations and energy balance broken at the switch)")
        else:
            r.ok(f"{mname} ({label}): only the scheme descriptor changes")


def load_equivalence_rule(ctx, rid="R5.16"):
    """A load can reach the right-hand side two ways: through the Neumann vector (add_volumeLoad, add_surfLoad ... of the
    dedicated simulations) or as the assembled vector F of the model (the linear form of a weak-form simulation).  For
    every time scheme (and the static solve) the right-hand side `_Solver_Apply_Neumann` builds is interpreted into a
    linear form: the two must enter it with the same weight (1), so that a weak-form simulation with l(v) = int f.v is
    advanced exactly like the dedicated simulation with the load f."""
    repo = ctx.repo
    r = ctx.rule(rid, "a load given as the model's assembled vector F and the same load given through the Neumann vector enter the right-hand side of every scheme with the same weight", min_instances=8)
    fR = repo.method(SIMU, RHS)
    members = [m for m in repo.enum_members(ALGO)]
    PT = Opaque("problemType")
    for algo in members:
        r.instance(fn=fR.qualname)
        I = Interp(repo, extra_builtins={"Tic": lambda *a, **k: Sink()})
        I.call_hook = call_hook
        try:
            if algo == "elliptic":
                ev = EnumVal(repo.cls(ALGO), algo, repo.enum_members(ALGO)[algo])
                obj, _ = make_self(repo, "newmark", I)
                obj.attrs["_Simu__algo"] = ev
            else:
                obj, _ = make_self(repo, algo, I)
            b = I.call_function(fR, [PT], self_obj=obj)
        except XRaise as e:
            r.fail(f"{fR.qualname}[{algo}]", "raises", fR.file, fR.lineno, RHS, f"AlgoType.{algo}: raises {e}")
            continue
        cF, cN = b.coef("F"), b.coef("f_ext")
        if is_zero(Rat.of(cF) - Rat.of(cN)) and is_zero(Rat.of(cF) - 1):
            r.ok(f"{algo}: b = F + f_ext + history terms")
        else:
            r.fail(f"{fR.qualname}[{algo}]", "load-weight", fR.file, fR.lineno, RHS, f"AlgoType.{algo}: the assembled load vector F enters the right-hand side with weight {cF!r} and the Neumann vector with weight {cN!r}: the same load written as a linear form (weak-form simulation) and applied with add_volumeLoad (dedicated simulation) is not advanced the same way")


def midpoint_lemma_rule(ctx, rid="R5.17"):
    """The relations of the midpoint scheme the discrete energy balance rests on, decided on the code's own tables (EVAL and
    CORR interpreted for AlgoType.midpoint, any previous state, any dt):
        u_t = (u' + u_n) / 2,   v_t = (u' - u_n) / dt,   a_t = (v' - v_n) / dt,   v' + v_n = 2 (u' - u_n) / dt.
    With them  (u' - u_n) . [M a_t + f_int(u_t)] = 1/2 v'.M v' - 1/2 v_n.M v_n + (u' - u_n) . f_int : the kinetic energy
    gained is exactly the work of the internal force over the step (which the energy-conserving stress makes equal to -dW)."""
    repo = ctx.repo
    r = ctx.rule(rid, "midpoint scheme: u_t = (u' + u_n)/2, v_t = (u' - u_n)/dt, a_t = (v' - v_n)/dt and v' + v_n = 2 (u' - u_n)/dt as identities of the interpreted EVAL / CORR tables", min_instances=4)
    fE, fU = repo.method(SIMU, EVAL), repo.method(SIMU, CORR)
    I = Interp(repo, extra_builtins={"Tic": lambda *a, **k: Sink()})
    I.call_hook = call_hook
    obj, _ = make_self(repo, "midpoint", I)
    PT = Opaque("problemType")
    u1 = Vec.atom("u_np1")
    un, vn = Vec.atom("u_n"), Vec.atom("v_n")
    d = obj.attrs["_Simu__hyperbolicParams"][0]
    try:
        u_t, v_t, a_t = I.call_function(fE, [PT, u1], self_obj=obj)
        uc, vc, ac = I.call_function(fU, [PT, u1], self_obj=obj)
    except XRaise as e:
        r.instance(fn=fU.qualname)
        r.fail(fU.qualname, "raises", fU.file, fU.lineno, CORR, f"AlgoType.midpoint: raises {e}")
        return
    for label, form, fn in (("v' + v_n == 2 (u' - u_n)/dt", vc + vn - 2 * (uc - un) / d, fU), ("a_t == (v' - v_n)/dt", a_t - (vc - vn) / d, fE), ("u_t == (u' + u_n)/2", u_t - (uc + un) / 2, fE), ("v_t == (u' - u_n)/dt", v_t - (uc - un) / d, fE)):
        r.instance(fn=fn.qualname)
        if form.is_zero():
            r.ok(f"midpoint: {label}")
        else:
            bad = ", ".join(f"{a}: {c!r}" for a, c in list(form.t.items())[:4])
            r.fail(f"{fn.qualname}[midpoint]", label, fn.file, fn.lineno, fn.name, f"midpoint scheme: {label} does not hold for the state the corrector returns (residual {bad}): kinetic plus stored energy is no longer conserved by a converged step")
