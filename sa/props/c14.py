"""C14 -- after any sequence of changes a simulation behaves like a fresh one.
Inductive one-step premise: every mutator invalidates every piece of derived
state that depends on what it changes."""

from __future__ import annotations

from types import SimpleNamespace

import ast

from ..flow import CallGraph, self_stores, self_reads, resolve_accessor_call
from ..repo import AnalysisError, dotted, norm_text, walk_no_nested, FuncInfo

SIMU = "EasyFEA.Simulations._simu._Simu"
GE = "EasyFEA.FEM._group_elem._GroupElem"
MESH = "EasyFEA.FEM._mesh.Mesh"
PARAM = "EasyFEA.Utilities._params._Parameter"
INVALIDATORS = ("clear_cached_computed_values",)


def _simple_getter(f):
    body = [s for s in f.node.body if not (isinstance(s, ast.Expr) and isinstance(s.value, ast.Constant))]
    return f.is_property() and len(body) == 1 and isinstance(body[0], ast.Return)


def transitive_self_reads(cg, ci, roots, same_module_only=False):
    """attributes of self read by the root methods and by everything they call on self"""
    seen, todo, reads = set(), list(roots), set()
    while todo:
        f = todo.pop()
        if id(f) in seen:
            continue
        seen.add(id(f))
        if same_module_only and f.module is not ci.module and not _simple_getter(f):
            continue
        reads |= self_reads(f)
        for n in ast.walk(f.node):
            if isinstance(n, ast.Attribute) and isinstance(n.value, ast.Name) and n.value.id == "self":
                for g in cg.resolve_self_attr(f.cls or ci, n.attr, include_overrides=False):
                    if id(g) not in seen:
                        todo.append(g)
    return reads


def calls_any(cg, f, names, depth=3, _seen=None):
    """does f (or a method it calls on self, transitively) call a function named in `names`?"""
    _seen = _seen or set()
    if id(f) in _seen or depth < 0:
        return False
    _seen.add(id(f))
    for n in ast.walk(f.node):
        if isinstance(n, ast.Call):
            d = dotted(n.func) or ""
            if d.split(".")[-1] in names:
                return True
    for n in ast.walk(f.node):
        if isinstance(n, ast.Call):
            acc = resolve_accessor_call(cg.repo, f, n)  # Base.prop.fset(self, v): the overridden setter
            if acc is not None and calls_any(cg, acc, names, depth - 1, _seen):
                return True
        if isinstance(n, ast.Call) and isinstance(n.func, ast.Attribute) and isinstance(n.func.value, ast.Name) and n.func.value.id == "self" and f.cls is not None:
            for g in cg.resolve_self_attr(f.cls, n.func.attr, include_overrides=False):
                if calls_any(cg, g, names, depth - 1, _seen):
                    return True
        # assignment through a property setter of self
        if isinstance(n, ast.Assign) and f.cls is not None:
            for t in n.targets:
                if isinstance(t, ast.Attribute) and isinstance(t.value, ast.Name) and t.value.id == "self":
                    s = cg.repo.lookup_setter(f.cls, t.attr)
                    if s is not None and calls_any(cg, s, names, depth - 1, _seen):
                        return True
    return False


def store_without_invalidation(cg, f, attr):
    """the guard under which the invalidation of `f` sits while a store to `attr` can run outside it: None when every
    completing path that stores the attribute also invalidates (paths enumerated over the if / try structure)"""
    INV = ("Need_Update", "_Notify")

    def invalidates(st):
        for n in ast.walk(st):
            if isinstance(n, ast.Call):
                if (dotted(n.func) or "").split(".")[-1] in INV:
                    return True
                if isinstance(n.func, ast.Attribute) and isinstance(n.func.value, ast.Name) and n.func.value.id == "self" and f.cls is not None:
                    if any(calls_any(cg, g, INV) for g in cg.resolve_self_attr(f.cls, n.func.attr, include_overrides=False)):
                        return True
                acc = resolve_accessor_call(cg.repo, f, n)
                if acc is not None and calls_any(cg, acc, INV):
                    return True
            if isinstance(n, ast.Assign) and f.cls is not None:
                for t in n.targets:
                    if isinstance(t, ast.Attribute) and isinstance(t.value, ast.Name) and t.value.id == "self":
                        sset = cg.repo.lookup_setter(f.cls, t.attr)
                        if sset is not None and calls_any(cg, sset, INV):
                            return True
        return False

    def stores(st):
        for n in ast.walk(st):
            if isinstance(n, ast.Attribute) and isinstance(n.value, ast.Name) and n.value.id == "self" and isinstance(n.ctx, ast.Store) and f.cls is not None and f.cls.mangle(n.attr) == attr:
                return True
        return False

    # paths: list of (stored, invalidated, last_guard) states; compound statements split them
    def walk(block, states):
        for st in block:
            if not states or len(states) > 512:
                return states
            if isinstance(st, ast.If):
                a = walk(st.body, [(s, i, g) for s, i, g in states])
                b = walk(st.orelse, [(s, i, st if not i else g) for s, i, g in states])
                states = a + b
            elif isinstance(st, (ast.For, ast.While, ast.With)):
                states = walk(st.body, states) + ([] if isinstance(st, ast.With) else states)
            elif isinstance(st, ast.Try):
                states = walk(st.body + st.orelse + st.finalbody, states)
            elif isinstance(st, (ast.Raise,)) or (isinstance(st, ast.Assert) and False):
                states = []
            elif isinstance(st, ast.Return):
                done.extend(states)
                states = []
            else:
                states = [(s or stores(st), i or invalidates(st), g) for s, i, g in states]
        return states

    done = []
    done.extend(walk(f.node.body, [(False, False, None)]))
    # a guard computed from the object's state BEFORE the store ("does the old configuration make this attribute matter?")
    # is a relevance test this rule cannot judge; a guard on the NEW value alone can never justify skipping the
    # invalidation: the assembled matrices still hold the old value
    params = set(f.params())
    derived = set()
    for n in ast.walk(f.node):
        if isinstance(n, ast.Assign) and any(isinstance(x, ast.Attribute) and isinstance(x.value, ast.Name) and x.value.id == "self" for x in ast.walk(n.value)):
            derived |= {t.id for t in n.targets if isinstance(t, ast.Name)}
    for s, i, g in done:
        if s and not i:
            if g is None:
                return f.node
            names = {x.id for x in ast.walk(g.test) if isinstance(x, ast.Name)}
            reads_self = any(isinstance(x, ast.Attribute) and isinstance(x.value, ast.Name) and x.value.id == "self" for x in ast.walk(g.test))
            if not reads_self and not (names & derived) and names <= params | {"np"}:
                return g
    return None


def simu_memo_state_rule(ctx, rid):
    """a memoised simulation method may depend on its arguments only (its cache key)"""
    repo = ctx.repo
    simu = repo.cls(SIMU)
    cached = [f for f in repo.all_functions() if f.is_cached() and f.cls is not None]
    r3d = ctx.rule(rid, "a memoised simulation method reads no model / simulation state through self: model changes only raise Need_Update (the memo is not cleared), so every input must be part of the cache key", min_instances=1)
    for f in cached:
        if f.cls is None or simu not in f.cls.mro:
            continue
        r3d.instance(fn=f.qualname)
        reads = sorted({n.attr for n in ast.walk(f.node) if isinstance(n, ast.Attribute) and isinstance(n.value, ast.Name) and n.value.id == "self" and isinstance(n.ctx, ast.Load)
                        and not (f.cls is not None and repo.lookup_method(f.cls, n.attr) is not None and n.attr not in f.cls.properties_all())} if hasattr(f.cls, "properties_all") else
                       {n.attr for n in ast.walk(f.node) if isinstance(n, ast.Attribute) and isinstance(n.value, ast.Name) and n.value.id == "self" and isinstance(n.ctx, ast.Load)})
        reads = [a for a in reads if a not in ("mesh",)]
        if not reads:
            r3d.ok(f"{f.qualname}: depends on its arguments only")
        else:
            r3d.fail(f.qualname, f"reads-state:{reads[0]}", f.file, f.lineno, f"{f.cls.name}.{f.name}", f"memoised (keyed by its arguments) but reads self.{reads[0]}: changing that state notifies the simulation, which raises Need_Update and re-assembles - with the memoised value of the old state")


def motion_notify_rule(ctx, cg=None):
    from ..flow import CallGraph

    repo = ctx.repo
    simu = repo.cls(SIMU)
    cg = cg or CallGraph(repo)
    # mesh motions and the coordinate setter notify
    # mesh motions and the coordinate setter: decided by interpretation on recorder groups (shared with C08)
    from .c08 import mesh_motion_rule as _mesh_motion_rule

    _mesh_motion_rule(ctx, "R14.4m")
    r4 = ctx.rule("R14.4", "the simulation registers itself as observer of its mesh and of its model", min_instances=1)
    mesh = repo.cls(MESH)
    # observer registration in the simulation constructor / mesh setter
    finit = simu.methods["__init__"]
    r4.instance(fn=finit.qualname)
    regs = [norm_text(n) for f in (finit, simu.setters.get("mesh"), simu.setters.get("model")) if f is not None for n in ast.walk(f.node) if isinstance(n, ast.Call) and (dotted(n.func) or "").endswith("_Add_observer")]
    if any("mesh" in x for x in regs) and any("model" in x for x in regs):
        r4.ok(f"_Simu registers itself on its mesh and model: {regs[:3]}")
    else:
        r4.fail(finit.qualname, "observer", finit.file, finit.lineno, "_Simu.__init__", f"the simulation does not register as observer of both its mesh and its model ({regs})")



def run(ctx):
    from ..shared import lazy_field_memo_rule as _lazy_field_memo_rule

    # a field filled on first use from assignable parameters and never reset survives the assignment (R18.22 shared)
    ctx.attempt(_lazy_field_memo_rule, ctx, 'R14.32', lambda ci: ci.module.name.startswith(('EasyFEA.Models', 'EasyFEA.Simulations', 'EasyFEA.FEM')), 1)
    from ..shared import foreign_state_rule as _fsr

    ctx.attempt(_fsr, ctx, 'R14.31', lambda f, _s=('EasyFEA.FEM', 'EasyFEA.Simulations', 'EasyFEA.Models'): f.module.name.startswith(_s))
    from . import c17 as _c17s

    # 'restoring an iteration ... the next matrices, solution and results are identical to those of a new simulation': the history protocol
    ctx.attempt(_c17s.history_protocol_rule, ctx, 'R14.30')
    from . import e2e_rules as _e2e

    ctx.attempt(_e2e.dynamics_rule, ctx, 'R14.E2')
    ctx.attempt(_e2e.history_rule, ctx, 'R14.E1')
    ctx.attempt(history_state_reset_rule, ctx)
    ctx.attempt(live_embedding_rule, ctx)
    ctx.attempt(model_event_rule, ctx)
    ctx.attempt(current_mesh_observed_rule, ctx)
    ctx.attempt(fresh_fields_rule, ctx)
    ctx.attempt(notify_all_rule, ctx)
    ctx.attempt(construction_parameter_rule, ctx)
    from ..shared import memo_result_escape_rule as _memo_result_escape_rule

    ctx.attempt(_memo_result_escape_rule, ctx, "R14.24", lambda f: f.qualname.startswith("EasyFEA."), 20)
    ctx.attempt(per_problem_memo_rule, ctx)
    ctx.attempt(history_walk_rule, ctx)
    from ..shared import notify_last_rule as _notify_last_rule

    ctx.attempt(_notify_last_rule, ctx, "R14.20")
    from ..shared import snapshot_rule as _snapshot_rule

    ctx.attempt(_snapshot_rule, ctx, "R14.18", scope=lambda ci: ci.module.name.startswith(("EasyFEA.Models", "EasyFEA.Simulations")))
    from ..shared import flag_pair_rule as _flag_pair_rule

    ctx.attempt(_flag_pair_rule, ctx, "R14.16", scope=lambda f, _s=("EasyFEA.FEM", "EasyFEA.Simulations", "EasyFEA.Models"): f.module.name.startswith(_s), min_instances=1)
    from ..shared import group_loop_leak_rule as _group_loop_leak_rule

    ctx.attempt(_group_loop_leak_rule, ctx, "R14.15", scope=lambda f, _s=("EasyFEA.Simulations",): f.module.name.startswith(_s), min_instances=8)
    from ..shared import group_loop_rule as _group_loop_rule

    ctx.attempt(_group_loop_rule, ctx, "R14.14", scope=lambda f, _s=("EasyFEA.FEM._mesh", "EasyFEA.Simulations"): f.module.name.startswith(_s), min_instances=10)
    from ..shared import copy_out_rule as _copy_out_rule

    ctx.attempt(_copy_out_rule, ctx, "R14.13", ["Get_K_C_M_F"], "EasyFEA.Simulations._simu._Simu")
    from ..shared import state_alias_rule as _state_alias_rule

    ctx.attempt(_state_alias_rule, ctx, "R14.11", scope=lambda f, _s=("EasyFEA.FEM", "EasyFEA.Simulations", "EasyFEA.Models"): f.module.name.startswith(_s), min_instances=500)
    from ..shared import shared_container_rule as _shared_container_rule

    ctx.attempt(_shared_container_rule, ctx, "R14.12", scope=lambda f, _s=("EasyFEA.FEM", "EasyFEA.Simulations", "EasyFEA.Models"): f.module.name.startswith(_s), min_instances=500)
    repo = ctx.repo
    ctx.level = "other"
    ctx.explanation = (
        "Inductive argument over histories: if after each single mutator every piece of derived state that depended on what it changed is invalid, then after any finite "
        "sequence the next read recomputes from the final configuration. Decided: the inventory of derived state (memoised methods, assembled matrices) with its read sets; "
        "every mutator of an attribute in a read set reaches the matching invalidator (cache clear, Need_Update, descriptor, _Notify); simulation-level caches keyed by an "
        "object whose state they read are cleared on that object's change events; getters re-assemble iff the flag is set; observers are registered. NOT decided: numerical "
        "identity with a fresh object; arrays mutated by the user through accessors."
    )
    cg = CallGraph(repo)
    pcls = repo.cls(PARAM)

    # ---- R14.1 inventory
    r1 = ctx.rule("R14.1", "derived-state inventory: memoised methods with the attributes they read", min_instances=20)
    cached = [f for f in repo.all_functions() if f.is_cached() and f.cls is not None]
    by_cls = {}
    for f in cached:
        by_cls.setdefault(f.cls, []).append(f)
        r1.instance(fn=f.qualname)
        r1.ok(f"{f.qualname} is memoised per (name, args)" if len(by_cls[f.cls]) == 1 else None)
    ctx.extra["cached_methods"] = {c.qualname: sorted(f.name for f in fs) for c, fs in by_cls.items()}

    # ---- R14.3a object-level caches: every mutator of a read attribute clears the cache
    r3 = ctx.rule("R14.3", "invalidate-on-mutate: every method that stores to an attribute read by a memoised method (outside __init__) reaches clear_cached_computed_values", min_instances=1)
    scope_roots = [repo.cls(GE), repo.cls(SIMU)]
    for ci, fs in sorted(by_cls.items(), key=lambda kv: kv[0].qualname):
        if not any(root in ci.mro for root in scope_roots):
            r3.note(f"{ci.qualname}: memoised helper object outside the simulation / mesh hierarchies (short-lived, not observed by a simulation): not in the property's scope")
            continue
        reads = transitive_self_reads(cg, ci, fs)
        ctx.extra.setdefault("read_sets", {})[ci.qualname] = sorted(reads)[:40]
        classes = [ci] + repo.subclasses(ci)
        checked = 0
        for c in classes:
            for name, f in list(c.methods.items()) + [(k, v) for k, v in c.setters.items()]:
                if f.cls is not c or f.name == "__init__" or f in fs:
                    continue
                hit = [(a, n, k) for a, n, k in self_stores(f) if a in reads]
                if not hit:
                    continue
                # a cached method storing its own lazily-built attribute is not a mutator
                r3.instance(fn=f.qualname)
                checked += 1
                a, n, k = hit[0]
                if calls_any(cg, f, INVALIDATORS):
                    # ... on every path that completes: a value-dependent skip of the invalidation keeps the old values
                    from ..flow import must_pass
                    from ..shared import _strip_diagnostics

                    def inval_stmt(st, f=f):
                        if isinstance(st, (ast.If, ast.For, ast.While, ast.With, ast.Try)):
                            return False
                        probe = FuncInfo(f.qualname + ".<stmt>", f.module, f.cls, ast.FunctionDef(name="_s", args=f.node.args, body=[st], decorator_list=[], returns=None, type_comment=None), [])
                        return calls_any(cg, probe, INVALIDATORS)

                    if must_pass(_strip_diagnostics(f.node.body), inval_stmt):
                        r3.ok(f"{c.name}.{f.name} stores self.{a} and clears the memoised values on every path")
                    else:
                        r3.fail(f.qualname, f"conditional-invalidate:{a}", f.file, n.lineno, f"{c.name}.{f.name}", f"stores self.{a} but the memoised values are cleared on some paths only (a guard decides whether the change is worth an invalidation): derived state of the old {a.split('__')[-1]} survives")
                else:
                    lazily = all(isinstance(m, (ast.Assign,)) and any(isinstance(p, ast.If) and m in ast.walk(p) and a.split("__")[-1] in norm_text(p.test) for p in ast.walk(f.node)) for _, m, _ in hit)
                    if lazily:
                        r3.ok(f"{c.name}.{f.name} lazily initialises self.{a}")
                    else:
                        r3.fail(f.qualname, f"no-invalidate:{a}", f.file, n.lineno, f"{c.name}.{f.name}", f"stores self.{a}, which the memoised methods of {ci.name} read ({', '.join(sorted(x.name for x in fs)[:3])}...), without clearing the memoised values: the next read returns results of the old {a.split('__')[-1]}")
    from ..shared import setter_discipline_rule, approx_guard_rule, memo_rule, cached_param_rule

    cached_param_rule(ctx, "R14.10", cg)

    memo_rule(ctx, "R14.9", cg, scope=lambda f: not f.module.name.startswith(("EasyFEA.Utilities._tic", "EasyFEA.Geoms")))

    setter_discipline_rule(ctx, "R14.7")
    approx_guard_rule(ctx, "R14.8", ["EasyFEA.FEM._group_elem", "EasyFEA.FEM._mesh", "EasyFEA.Simulations._simu", "EasyFEA.Utilities._params", "EasyFEA.Utilities._cache", "EasyFEA.Utilities._observers"])
    # ---- R14.3b assembled matrices: mutators of what Construct_local_matrix_system reads reach Need_Update
    r3b = ctx.rule("R14.3b", "every method that stores to a simulation attribute read by the assembly reaches Need_Update (directly, through a _Parameter descriptor, a property setter or _Notify)", min_instances=5)
    simu = repo.cls(SIMU)
    for ci in [simu] + repo.subclasses(simu):
        fc = ci.methods.get("Construct_local_matrix_system")
        if fc is None or fc.cls is not ci and ci is not simu:
            if fc is None:
                continue
        roots = [fc] if fc.cls is ci else []
        if not roots:
            continue
        # the size of the assembled system is an input too (Lagrange multipliers: number of conditions and of Dirichlet dofs)
        for nm in ("Assembly", simu.mangle("__Get_Ndof"), "_Bc_Lagrange_dim"):
            g = repo.lookup_method(ci, nm)
            if g is not None:
                roots.append(g)
        init = ci.methods.get("__init__")
        if init is not None and any(isinstance(n, ast.Call) and (dotted(n.func) or "").endswith("_Solver_Set_Newton_Raphson_Algorithm") for n in ast.walk(init.node)) and ci.name != "WeakForms":
            r3b.note(f"{ci.name}: Newton-driven (re-assembled at every iteration): assembled matrices are never reused across changes")
            continue
        reads = transitive_self_reads(cg, ci, roots, same_module_only=True)
        descriptors = set()
        for c in ci.mro:
            for nm, expr in c.class_attrs.items():
                if isinstance(expr, ast.Call):
                    pc = repo.resolve_name(c.module, dotted(expr.func) or "")
                    if pc is not None and pcls in getattr(pc, "mro", []):
                        descriptors.add(nm)
        for c in ci.mro:
            if c.module.name.startswith("EasyFEA.Utilities"):
                continue
            for f in list(c.methods.values()) + list(c.setters.values()):
                if f.cls is not c or f.name in ("__init__",) or f is fc:
                    continue
                if f.name.startswith("_") and not f.is_setter() and not f.name.startswith("_Solver_Set") and not f.name.startswith("_Bc_"):
                    continue  # internal helpers are reached through the public mutators checked here
                hit = [(a, n, k) for a, n, k in self_stores(f) if a in reads and a not in descriptors]
                if not hit:
                    continue
                r3b.instance(fn=f.qualname)
                a, n, k = hit[0]
                if a.endswith("needUpdate") or "__K" in a or f.name in ("Need_Update", "Get_K_C_M_F", "Assembly", "Solve", "Save_Iter", "Set_Iter", "_Set_solutions", "Construct_local_matrix_system"):
                    r3b.ok()
                    continue
                if calls_any(cg, f, ("Need_Update", "_Notify")):
                    # ... on every completing path that performs the store (a store outside the guard of the invalidation leaves
                    # the assembled matrices of the old value in use whenever the guard is false)
                    leak = store_without_invalidation(cg, f, a)
                    if leak is None:
                        r3b.ok(f"{ci.name}: {c.name}.{f.name} stores self.{a} and raises Need_Update")
                    else:
                        r3b.fail(f.qualname, f"conditional-need-update:{a}", f.file, leak.lineno, f"{c.name}.{f.name}", f"stores self.{a.split('__')[-1]} on a path that skips Need_Update (the invalidation sits under `{norm_text(leak)[:60]}`): when that test is false the assembled K, C, M, F of the old value are reused")
                else:
                    r3b.fail(f.qualname, f"no-need-update:{a}", f.file, n.lineno, f"{c.name}.{f.name}", f"stores self.{a}, which {ci.name}.Construct_local_matrix_system reads, without raising Need_Update: the assembled K, C, M, F of the old value are reused")
    # ---- R14.3c simulation-level caches keyed by an object whose state they read
    r3c = ctx.rule("R14.3c", "a memoised simulation method keyed by an object (element group) whose geometry it reads is cleared when that object changes (mesh event in _Simu._Update)", min_instances=1)
    fupd = simu.methods["_Update"]
    clears_on_mesh = False
    for n in ast.walk(fupd.node):
        if isinstance(n, ast.If):
            cur = n
            while isinstance(cur, ast.If):
                if "Mesh" in norm_text(cur.test):
                    body = ast.Module(body=cur.body, type_ignores=[])
                    if any(isinstance(c, ast.Call) and (dotted(c.func) or "").split(".")[-1] in INVALIDATORS for c in ast.walk(body)):
                        clears_on_mesh = True
                cur = cur.orelse[0] if len(cur.orelse) == 1 and isinstance(cur.orelse[0], ast.If) else None
    for f in cached:
        if f.cls is None or simu not in f.cls.mro:
            continue
        obj_params = []
        for p in f.params()[1:]:
            uses_state = any(isinstance(n, ast.Name) and n.id == p for n in ast.walk(f.node)) and any(
                (isinstance(n, ast.Attribute) and isinstance(n.value, ast.Name) and n.value.id == p) or (isinstance(n, ast.Call) and any(isinstance(a, ast.Name) and a.id == p for a in n.args) and not (dotted(n.func) or "").startswith("np."))
                for n in ast.walk(f.node)
            )
            if uses_state and "group" in p.lower():
                obj_params.append(p)
        if not obj_params:
            continue
        r3c.instance(fn=f.qualname)
        if clears_on_mesh:
            r3c.ok(f"{f.qualname} is keyed by {obj_params}; _Simu._Update clears the memoised values on mesh events")
        else:
            r3c.fail(f.qualname, f"stale-on-mesh-event:{obj_params[0]}", f.file, f.lineno, f"{f.cls.name}.{f.name}", f"memoised per `{obj_params[0]}` object but computed from its geometry; moving / re-coordinating the mesh notifies the simulation, whose _Update raises Need_Update but keeps the memoised value: the element matrix of the old geometry is reused")
    simu_memo_state_rule(ctx, "R14.3d")
    motion_notify_rule(ctx, cg)
    # the parameter descriptors are how a model change reaches Need_Update (R11.5)
    from . import c11

    c11.descriptor_rule(ctx)

    # ---- R14.5 read-after-flag, interpreted (the `if self.needUpdate:` shape used to be matched textually: it fired on a
    # guard-clause rewrite, refactored/C03-R8).  The base getter is driven on a recorder: dirty -> one assembly, flag lowered;
    # clean -> no assembly, the same values; Need_Update() -> one more assembly.  The per-problem overrides are R14.21.
    r5 = ctx.rule("R14.5", "Get_K_C_M_F re-assembles iff the flag is set and clears it afterwards", min_instances=1)
    from ..xeval import Interp as _I5, XObj as _X5, XRaise as _XR5
    from types import SimpleNamespace as _NS5

    f5 = simu.methods["Get_K_C_M_F"]
    r5.instance(fn=f5.qualname)
    calls5 = []

    class _Mat:
        _xeval_open = True

        def __init__(self, tag):
            self.tag = tag

        def copy(self):
            return _Mat(self.tag)

    def _assembly(pt=None):
        calls5.append(pt)
        k = len(calls5)
        return tuple(_Mat(f"{nm}{k}") for nm in "KCMF")

    o5 = _X5(simu, {"Assembly": _assembly, "problemType": "pt", "Get_problemTypes": lambda: ["pt"], "_Notify": lambda *a, **k: None})
    I5 = _I5(repo, extra_builtins={"MPI_SIZE": 1})
    tags = lambda t: [getattr(x, "tag", None) for x in t]
    try:
        I5.call_function(repo.lookup_method(simu, "Need_Update"), [], self_obj=o5)
        a1 = I5.call_function(f5, [], self_obj=o5)
        n1 = len(calls5)
        a2 = I5.call_function(f5, [], self_obj=o5)
        n2 = len(calls5)
        I5.call_function(repo.lookup_method(simu, "Need_Update"), [], self_obj=o5)
        a3 = I5.call_function(f5, [], self_obj=o5)
        n3 = len(calls5)
        bad5 = None
        if n1 != 1:
            bad5 = f"a dirty simulation assembles {n1} times at the first request"
        elif n2 != 1:
            bad5 = "a second request with nothing changed assembles again (the flag is not lowered)"
        elif tags(a2) != tags(a1):
            bad5 = f"a second request with nothing changed returns {tags(a2)}, the first returned {tags(a1)}"
        elif n3 != 2:
            bad5 = "after Need_Update() the next request does not assemble again"
        elif tags(a3) != ["K2", "C2", "M2", "F2"]:
            bad5 = f"after Need_Update() the request returns {tags(a3)}, the new assembly gave K2, C2, M2, F2"
    except _XR5 as e:
        bad5 = f"raises {e}"
    if bad5:
        r5.fail(f5.qualname, "flag", f5.file, f5.lineno, "_Simu.Get_K_C_M_F", bad5)
    else:
        r5.ok("_Simu.Get_K_C_M_F: assemble when dirty, then mark clean; clean -> the stored matrices; dirty again -> re-assemble")
    staggered_flags_rule(ctx, simu)
    ctx.attempt(mesh_index_rule, ctx)


def staggered_flags_rule(ctx, simu):
    """R14.6: a simulation that memoises one assembled system per problem type behind its own flag (staggered
    multi-field solve): every statement that replaces the solution field of problem X (a solve or a restore)
    is followed, on every completing path, by lowering the flag of every other problem's memo."""
    from ..flow import Locals, must_pass

    repo = ctx.repo
    r = ctx.rule("R14.6", "per-problem memo flags (multi-field simulations): after the solution field of one problem is replaced (solve / _Set_solutions), every path lowers the memo flag of each other problem before leaving", min_instances=3)

    def self_attr(n):
        return n.attr if isinstance(n, ast.Attribute) and isinstance(n.value, ast.Name) and n.value.id == "self" else None

    def last_attr(e):
        return e.attr if isinstance(e, ast.Attribute) else (e.id if isinstance(e, ast.Name) else None)

    for ci in repo.subclasses(simu):
        g = ci.methods.get("Get_K_C_M_F")
        if g is None or g.cls is not ci:
            continue
        flags = {}  # problem -> flag attribute
        for n in ast.walk(g.node):
            if isinstance(n, ast.If) and isinstance(n.test, ast.UnaryOp) and isinstance(n.test.op, ast.Not) and self_attr(n.test.operand):
                flag = self_attr(n.test.operand)
                asm = [c for st in n.body for c in ast.walk(st) if isinstance(c, ast.Call) and self_attr(c.func) == "Assembly" and c.args]
                sets = [st for st in n.body if isinstance(st, ast.Assign) and self_attr(st.targets[0]) == flag and isinstance(st.value, ast.Constant) and st.value.value is True]
                if asm and sets:
                    flags[last_attr(Locals(g.node).resolve(asm[0].args[0]))] = flag
        if len(flags) < 2:
            continue
        SETTERS = ("_Set_solutions", "_Solver_Solve_problemType", "_Solver_Solve")
        own = {f.node.name: f for nm, f in ci.methods.items() if f.cls is ci}

        def lowers(st, flag):
            if isinstance(st, ast.Assign) and any(self_attr(t) == flag for t in st.targets) and isinstance(st.value, ast.Constant) and st.value.value is False:
                return True
            if isinstance(st, ast.Expr) and isinstance(st.value, ast.Call) and self_attr(st.value.func) == "Need_Update":
                vals = list(st.value.args) + [k.value for k in st.value.keywords]
                return all(isinstance(v, ast.Constant) and v.value is True for v in vals)
            return False

        def continuation_ok(stmt_path, flag):
            """stmt_path: (block, index) pairs from the function body down to the block holding the event statement"""
            for block, idx in reversed(stmt_path):
                if must_pass(block[idx + 1:], lambda s: lowers(s, flag)):
                    return True
                if any(isinstance(s, ast.Return) for s in block[idx + 1:]):
                    return False
            return False

        def find_paths(block, pred, path=()):
            for i, st in enumerate(block):
                here = path + ((block, i),)
                if pred(st):
                    yield st, here
                if isinstance(st, (ast.FunctionDef, ast.ClassDef)):
                    continue
                for fld in ("body", "orelse", "finalbody"):
                    sub = getattr(st, fld, None)
                    if isinstance(sub, list) and sub and isinstance(sub[0], ast.stmt):
                        yield from find_paths(sub, pred, here)
                for h in getattr(st, "handlers", []) or []:
                    yield from find_paths(h.body, pred, here)

        def callee_name(n):
            a = self_attr(n.func) if isinstance(n, ast.Call) else None
            if a is None:
                return None
            m2 = repo.lookup_method(ci, a)
            return m2.node.name if m2 is not None and m2.cls is ci else a

        # pending[m]: (replaced problem, other problem) pairs m leaves to its caller (fixpoint over in-class calls)
        pending = {nm: set() for nm in own}
        reports = {}
        for _ in range(4):
            changed_any = False
            for nm, f in sorted(own.items()):
                if nm in ("Get_K_C_M_F", "Need_Update", "__init__"):
                    continue
                loc = Locals(f.node)

                def changed(st, nm=nm, loc=loc):
                    if isinstance(st, (ast.If, ast.For, ast.While, ast.With, ast.Try, ast.FunctionDef, ast.ClassDef)):
                        return set()
                    out = set()
                    for n in ast.walk(st):
                        if isinstance(n, ast.Call) and self_attr(n.func):
                            a = callee_name(n)
                            if a in SETTERS and n.args:
                                p = last_attr(loc.resolve(n.args[0]))
                                out |= {(p, q) for q in flags if q != p} if p in flags else set()
                            elif a in pending and a != nm:
                                out |= pending[a]
                    return out

                left = set()
                rep = []
                for st, path in find_paths(f.node.body, lambda s: bool(changed(s))):
                    for p, q in sorted(changed(st)):
                        ok = continuation_ok(list(path), flags[q])
                        rep.append((st, p, q, ok))
                        if not ok:
                            left.add((p, q))
                reports[nm] = rep
                if left != pending[nm]:
                    pending[nm] = left
                    changed_any = True
            if not changed_any:
                break
        for nm, rep in sorted(reports.items()):
            f = own[nm]
            has_caller = any(callee_name(n) == nm for m2, f2 in own.items() if m2 != nm for n in ast.walk(f2.node) if isinstance(n, ast.Call))
            for st, p, q, ok in rep:
                r.instance(fn=f.qualname)
                flag = flags[q]
                if ok:
                    r.ok(f"{ci.name}.{nm}: `{norm_text(st)[:60]}` replaces the {p} field, then lowers self.{flag.split('__')[-1]}")
                elif nm.startswith("_") and has_caller:
                    r.ok(f"{ci.name}.{nm}: private helper, obligation ({p} replaced -> lower the {q} memo flag) checked at its in-class call sites")
                else:
                    r.fail(f.qualname, f"stale:{q}-after-{p}", f.file, st.lineno, f"{ci.name}.{nm}",
                           f"`{norm_text(st)[:80]}` replaces the {p} field but a path leaves {nm} without lowering self.{flag.split('__')[-1]}: the memoised {q} system (assembled from the old {p} field) is served by Get_K_C_M_F")


def mesh_index_rule(ctx, rid="R14.17"):
    """After `simu.mesh = newMesh` the current-mesh index designates the new mesh in the mesh history, whatever iteration
    (hence whatever earlier mesh) was restored before: interpreted on a history of three meshes with the first one
    current."""
    from ..xeval import Interp, XObj, XRaise, Sink, Opaque

    repo = ctx.repo
    r = ctx.rule(rid, "mesh setter: afterwards listMesh[indexMesh] is the assigned mesh, also when an earlier mesh of the history was current", min_instances=2)
    simu = repo.cls(SIMU)
    f = simu.setters["mesh"]
    mcls = repo.cls(MESH)
    for current in (2, 0):
        r.instance(fn=f.qualname + ".setter")
        observed = []
        meshes = [XObj(mcls, {"_ResetMatrix": lambda: None, "_Add_observer": (lambda o, k=k: observed.append((k, o))), "tag": k}) for k in range(4)]
        attrs = {
            simu.mangle("__listMesh"): list(meshes[:3]),
            simu.mangle("__indexMesh"): current,
            simu.mangle("__NindexMesh"): 2,
            simu.mangle("__mesh"): meshes[current],
            "Need_Update": lambda *a, **k: None,
            "Bc_Init": lambda *a, **k: None,
            simu.mangle("__Init_Sols_n"): lambda *a, **k: None,
            "_Check_dim_mesh_material": lambda *a, **k: None,
        }
        obj = XObj(simu, attrs)
        I = Interp(repo, extra_builtins={"clear_cached_computed_values": lambda *a: None})
        try:
            I.call_function(f, [meshes[3]], self_obj=obj)
        except XRaise as e:
            r.fail(f.qualname + ".setter", "mesh-index", f.file, f.lineno, "_Simu.mesh.setter", f"raises {e}")
            continue
        lst = obj.attrs[simu.mangle("__listMesh")]
        idx = obj.attrs[simu.mangle("__indexMesh")]
        ok = isinstance(idx, int) and 0 <= idx < len(lst) and lst[idx] is meshes[3] and obj.attrs[simu.mangle("__mesh")] is meshes[3]
        if ok and not any(k == 3 and o is obj for k, o in observed):
            r.fail(f.qualname + ".setter", "new-mesh-not-observed", f.file, f.lineno, "_Simu.mesh.setter", "the simulation does not register itself as an observer of the assigned mesh (only the constructor's mesh is observed): moving / re-coordinating the new mesh later does not raise Need_Update, the matrices of the old geometry are reused")
        elif ok:
            r.ok(f"history of 3 meshes, mesh {current} current: the new mesh is entry {idx}, current and observed")
        else:
            r.fail(f.qualname + ".setter", "mesh-index", f.file, f.lineno, "_Simu.mesh.setter", f"history of 3 meshes with mesh {current} current (an earlier iteration was restored): after the assignment indexMesh = {idx!r} designates {'mesh ' + str(lst[idx].attrs.get('tag')) if isinstance(idx, int) and 0 <= idx < len(lst) else 'nothing'} of a history of {len(lst)}, not the assigned mesh: Save_Iter records that index, restoring the iteration later loads another mesh")


def history_state_reset_rule(ctx, rid="R14.19"):
    """'replacing the mesh ... identical to a new simulation': the mesh setter re-initialises the solutions; the history
    a simulation class commits in Save_Iter / restores in Set_Iter (internal variables, history energies) belongs to
    the replaced mesh as well, so the effective mesh setter of that class -- its own override or anything it reaches
    through self -- must write it.  (A fresh simulation starts from an empty history; a survivor is read by the next
    Solve: plastic strains or a damage-driving energy of another mesh.)"""
    repo = ctx.repo
    simu = repo.cls(SIMU)
    r = ctx.rule(rid, "history committed by Save_Iter / restored by Set_Iter of a simulation class is re-initialised by the effective mesh setter of that class (virtual dispatch through self resolved on the class)", min_instances=3)

    def stores(f):
        out = {}
        for n in ast.walk(f.node):
            tg = n.targets if isinstance(n, ast.Assign) else [n.target] if isinstance(n, (ast.AugAssign, ast.AnnAssign)) else []
            for t in tg:
                for x in (t.elts if isinstance(t, (ast.Tuple, ast.List)) else [t]):
                    if isinstance(x, ast.Attribute) and isinstance(x.value, ast.Name) and x.value.id == "self":
                        out.setdefault(f.cls.mangle(x.attr) if f.cls is not None else x.attr, []).append(n)
        return out

    for ci in [simu] + list(repo.subclasses(simu)):
        hist = {}
        for nm in ("Save_Iter", "Set_Iter"):
            f = ci.methods.get(nm)
            if f is None or f.cls is not ci:
                continue
            for attr, nodes in stores(f).items():
                if any(getattr(n, "value", None) is not None and not isinstance(n.value, ast.Constant) for n in nodes) and attr.startswith("_" + ci.name + "__"):
                    hist.setdefault(attr, f)
        if not hist:
            continue
        setter = repo.lookup_setter(ci, "mesh")
        if setter is None:
            raise AnalysisError(f"{rid}: no mesh setter found for {ci.name}")
        # closure of the setter on the concrete class
        seen, todo, written = set(), [setter], set()
        while todo:
            f = todo.pop()
            if id(f) in seen:
                continue
            seen.add(id(f))
            r.analysed(f.qualname)
            written |= set(stores(f))
            for n in ast.walk(f.node):
                if not isinstance(n, ast.Call):
                    continue
                fn = n.func
                if isinstance(fn, ast.Attribute) and isinstance(fn.value, ast.Name) and fn.value.id == "self":
                    nm = f.cls.mangle(fn.attr) if f.cls is not None else fn.attr
                    g = repo.lookup_method(ci, nm)
                    if g is not None:
                        todo.append(g)
                acc = resolve_accessor_call(repo, f, n)
                if acc is not None:
                    todo.append(acc)
                if isinstance(fn, ast.Attribute) and isinstance(fn.value, ast.Call) and dotted(fn.value.func) == "super" and f.cls is not None:
                    g = repo.lookup_method(f.cls, fn.attr, start_after=f.cls)
                    if g is not None:
                        todo.append(g)
        for attr, f in sorted(hist.items()):
            r.instance(fn=f.qualname)
            short = attr.split("__", 1)[1]
            if attr in written:
                r.ok(f"{ci.name}.__{short}: written on mesh replacement")
            else:
                r.fail(f"{ci.qualname}.{attr}", "survives-mesh-replacement", f.file, f.lineno, f"{ci.name}.{f.name}", f"{ci.name}.__{short} (history committed by {f.name}) is not re-initialised when the mesh is replaced: `simu.mesh = other` resets the solutions and the boundary conditions but the next Solve starts from the history of the previous mesh (a new simulation on that mesh starts from none)")


def per_problem_memo_rule(ctx, rid="R14.21"):
    """A simulation that overrides Get_K_C_M_F to memoise one assembled system per problem type: starting from the
    all-stale state its own Need_Update() produces, a request for problem X followed by a request for problem Y
    re-assembles Y (serving X must not mark Y fresh), for every ordered pair; a second request for Y is then served
    from the memo.  Get_K_C_M_F and Need_Update are interpreted on a stub that records the Assembly calls."""
    from types import SimpleNamespace

    from ..xeval import Interp, XObj, Opaque, XRaise, Uninterpretable

    repo = ctx.repo
    simu = repo.cls(SIMU)
    r = ctx.rule(rid, "per-problem memo of Get_K_C_M_F: from the all-stale state, serving problem X leaves every other problem stale (the next request for Y assembles Y)", min_instances=2)

    class Mat:
        _xeval_open = True
        shape = (4, 4)

        def __init__(self, tag):
            self.tag = tag

        def copy(self):
            return self

    for ci in repo.subclasses(simu):
        g = ci.methods.get("Get_K_C_M_F")
        nu = repo.lookup_method(ci, "Need_Update")
        pt = ci.nested.get("ProblemTypes") if hasattr(ci, "nested") else None
        if g is None or g.cls is not ci or pt is None or nu is None:
            continue
        names = [t.id for st in pt.node.body if isinstance(st, ast.Assign) for t in st.targets if isinstance(t, ast.Name)]
        if len(names) < 2:
            continue
        for x in names:
            for y in names:
                if x == y:
                    continue
                r.instance(fn=g.qualname)
                calls = []

                def assembly(p=None, calls=calls):
                    calls.append(p)
                    return (Mat(f"K[{p}]"), Mat("C"), Mat("M"), Mat(f"F[{p}]"))

                obj = XObj(ci, {"ProblemTypes": SimpleNamespace(**{n: n for n in names}), "Assembly": assembly})
                I = Interp(repo)
                I.call_hook = lambda fn, args, kwargs: Mat("zero") if isinstance(fn, Opaque) and fn.tag.endswith("csr_matrix") else NotImplemented
                try:
                    I.call_function(nu, [], self_obj=obj)
                    for p0 in names:  # a first round fills every memo
                        I.call_function(g, [p0], self_obj=obj)
                    I.call_function(nu, [], self_obj=obj)  # a change: everything stale
                    del calls[:]
                    I.call_function(g, [x], self_obj=obj)
                    n1 = len(calls)
                    I.call_function(g, [y], self_obj=obj)
                    second = calls[n1:]
                    I.call_function(g, [y], self_obj=obj)
                    third = calls[n1 + len(second):]
                except XRaise as e:
                    r.fail(g.qualname, f"{x}->{y}", g.file, g.lineno, f"{ci.name}.Get_K_C_M_F", f"request {x} then {y}: raises {e}")
                    continue
                except Uninterpretable as e:
                    if "is not modelled" in str(e) and "attribute" in str(e):
                        # a memo slot is read before anything was stored in it: a problem was marked fresh without being assembled
                        r.fail(g.qualname, f"{x}->{y}", g.file, g.lineno, f"{ci.name}.Get_K_C_M_F", f"request {x} then {y} on a simulation whose memos are all stale: a memo slot that was never assembled is read ({str(e).split(': ', 1)[-1]}): serving one problem marked another one up to date")
                        continue
                    raise
                if y not in second:
                    r.fail(g.qualname, f"{x}->{y}", g.file, g.lineno, f"{ci.name}.Get_K_C_M_F", f"after Need_Update(), Get_K_C_M_F({x}) followed by Get_K_C_M_F({y}) does not assemble the {y} system: serving {x} marked {y} up to date, the {y} matrices of an earlier state are returned")
                elif third:
                    r.fail(g.qualname, f"{x}->{y}:memo", g.file, g.lineno, f"{ci.name}.Get_K_C_M_F", f"a repeated request for {y} assembles again ({third}): the memo flag is never raised")
                else:
                    r.ok(f"{ci.name}: {x} then {y}: {y} assembled once")


def history_walk_rule(ctx, rid="R14.22"):
    """'restoring an earlier iteration': walking a history that spans two meshes (iterations recorded on mesh 0, 1, 0, 1)
    in any order leaves, after every Set_Iter, the mesh of that iteration current and the recorded index equal to it.
    _Simu.Set_Iter is interpreted with a recorder in place of the mesh switch."""
    from ..xeval import Interp, XObj

    repo = ctx.repo
    simu = repo.cls(SIMU)
    f = simu.methods["Set_Iter"]
    r = ctx.rule(rid, "Set_Iter across meshes: after each restore the current mesh and the recorded mesh index are those of the restored iteration, for every order of visits", min_instances=4)
    hist = [0, 1, 0, 1]
    for walk in ([0, 1], [1, 0, 1], [0, 2, 3, 1], [3, 2, 2, 0, 1]):
        r.instance(fn=f.qualname)
        cur = {"mesh": 1}
        obj = XObj(simu, {simu.mangle("__indexMesh"): 1, "Get_results": lambda it=-1: {"indexMesh": hist[int(it)]}})
        obj.attrs[simu.mangle("__Update_mesh")] = lambda idx, cur=cur: cur.__setitem__("mesh", int(idx))
        I = Interp(repo)
        bad = None
        for it in walk:
            I.call_function(f, [it], self_obj=obj)
            want = hist[it]
            if cur["mesh"] != want:
                bad = f"after Set_Iter({it}) (recorded on mesh {want}) the current mesh is mesh {cur['mesh']}"
                break
            if obj.attrs.get(simu.mangle("__indexMesh")) != want:
                bad = f"after Set_Iter({it}) the mesh index held by the simulation is {obj.attrs.get(simu.mangle('__indexMesh'))}, the restored iteration lives on mesh {want}: the next restore or Save_Iter works with a stale index"
                break
        if bad:
            r.fail(f.qualname, f"walk:{walk}", f.file, f.lineno, "_Simu.Set_Iter", f"history on meshes {hist}, visits {walk}: {bad}")
        else:
            r.ok(f"visits {walk}: mesh and index follow the restored iteration")


def live_embedding_rule(ctx):
    """R14.23: 'moving, rotating ... the mesh ... identical to a new simulation constructed directly in the final
    configuration': the quantities a Mesh derives from its element groups follow the groups' CURRENT state.  The
    constructor is interpreted on stub groups lying in the plane (inDim 2); the groups are then moved out of the plane
    (their own, live inDim becomes 3, as after Mesh.Rotate about an in-plane axis or `mesh.coord = ...`) and the public
    accessors are read again: Mesh.inDim must equal the value a Mesh constructed on the moved groups reports.  (A value
    frozen in __init__ keeps the planar answer: pressure loads, weak-form thickness and the dimension check of the
    simulation then work in the wrong space.)"""
    from types import SimpleNamespace

    from ..xarray import XArray
    from ..xeval import Interp, XObj

    repo = ctx.repo
    r = ctx.rule("R14.23", "Mesh.inDim (and dim) read after the element groups changed their embedding equal those of a Mesh constructed on the changed groups", min_instances=2)
    ci = repo.cls(MESH)
    init = ci.methods["__init__"]

    def build(groups):
        obj = XObj(ci, {})
        I = Interp(repo, extra_builtins={"print": lambda *a, **k: None})
        I.call_hook = lambda fn, args, kwargs: None if isinstance(fn, FuncInfo) and fn.module.name.startswith("EasyFEA.Utilities") else NotImplemented
        I.call_function(init, [groups], self_obj=obj)
        return I, obj

    for prop in ("inDim", "dim"):
        f = repo.lookup_method(ci, prop)
        r.instance(fn=f.qualname)
        groups = {}
        for tag, c, d in (("TRI3", [[0, 1, 2]], 2), ("SEG2", [[0, 1]], 1)):
            groups[tag] = SimpleNamespace(Ncoords=3, dim=d, inDim=2, connect=XArray((len(c), len(c[0])), [n for row in c for n in row]), elemType=tag)
        I, obj = build(groups)
        before = I.call_function(f, [], self_obj=obj)
        for g in groups.values():
            g.inDim = 3  # the groups were moved out of their plane
        after = I.call_function(f, [], self_obj=obj)
        I2, fresh = build(groups)
        want = I2.call_function(f, [], self_obj=fresh)
        if int(after) == int(want):
            r.ok(f"Mesh.{prop}: {int(before)} -> {int(after)} follows the groups")
        else:
            r.fail(f.qualname, f"stale-after-move:{prop}", f.file, f.lineno, f"Mesh.{prop}", f"after the element groups left their plane Mesh.{prop} still answers {int(after)}; a Mesh constructed on the same groups answers {int(want)}: add_pressureLoad, the weak-form thickness and _Check_dim_mesh_material use the stale value")


def model_event_rule(ctx, rid="R14.25"):
    """'Whatever sequence of public modifications is applied to ... the objects it observes - material or model parameters':
    the observer entry point.  For every simulation class the effective `_Update(observable, event)` is interpreted, from
    the state in which every assembled system is up to date (`Need_Update(False)`), with a model event coming from (a) the
    model of the simulation itself, (b) another model object it observes (the material inside a damage model, a beam of a
    structure) - and the flags it leaves must be exactly those `Need_Update()` leaves from the same state: a model event
    makes EVERY assembled system of the simulation stale (a parameter of the model may enter any of them)."""
    from ..xeval import Interp, XObj, XRaise, Sink

    repo = ctx.repo
    simu = repo.cls(SIMU)
    imodel = repo.cls("EasyFEA.Models._utils._IModel")
    r = ctx.rule(rid, "observer entry point: a model event (from the simulation's model or from another observed model object) leaves the same flags as Need_Update() does, starting from the all-up-to-date state, for every simulation class", min_instances=10)
    model_cls = imodel
    for ci in [simu] + sorted(repo.subclasses(simu), key=lambda c: c.qualname):
        fU = repo.lookup_method(ci, "_Update")
        fN = repo.lookup_method(ci, "Need_Update")
        if fU is None or fN is None:
            continue
        if not any(isinstance(n, ast.Call) and (dotted(n.func) or "").endswith("Need_Update") for n in ast.walk(fU.node)):
            continue  # (a simulation that refuses notifications altogether: DIC)
        for label in ("its own model", "another observed model object"):
            r.instance(fn=fU.qualname)
            own = XObj(model_cls, {})
            other = XObj(model_cls, {})

            def fresh():
                return XObj(ci, {"model": own, "_Simu__model": own})

            def flags(o):
                return {k: v for k, v in o.attrs.items() if isinstance(v, bool)}

            I = Interp(repo, extra_builtins={"Terminal": Sink()})
            try:
                ref = fresh()
                I.call_function(fN, [False], self_obj=ref)
                base = flags(ref)
                I.call_function(fN, [], self_obj=ref)
                want = flags(ref)
                obj = fresh()
                I.call_function(fN, [False], self_obj=obj)
                I.call_function(fU, [own if label == "its own model" else other, "Parameter changed"], self_obj=obj)
                got = flags(obj)
            except XRaise as e:
                r.fail(fU.qualname, f"raises:{label}", fU.file, fU.lineno, f"{ci.name}._Update", f"a model event from {label} raises {e}")
                continue
            if not want or want == base:
                raise AnalysisError(f"{rid}: Need_Update of {ci.name} changes no boolean flag in the model ({base} -> {want})")
            if got == want:
                r.ok(f"{ci.name}: model event from {label} == Need_Update() ({', '.join(sorted(want))})")
            else:
                bad = sorted(k for k in want if got.get(k) != want[k])
                r.fail(fU.qualname, f"model-event:{label}", fU.file, fU.lineno, f"{ci.name}._Update", f"{ci.name}: after a model event from {label} the flag(s) {bad} are not what Need_Update() leaves ({ {k: got.get(k) for k in bad} } instead of { {k: want[k] for k in bad} }): an assembled system that depends on the model is served stale after a parameter of the model changed")


def current_mesh_observed_rule(ctx, rid="R14.26"):
    """'moving, rotating, reflecting, re-coordinating ... the mesh ... restoring an earlier iteration': whatever mesh is the
    CURRENT mesh of a simulation, the simulation observes it (otherwise a later modification of that mesh leaves the
    assembled matrices stale).  `_Simu.__Update_mesh` - the path Set_Iter takes to another mesh of the history - is
    interpreted for a mesh kept in memory and for a mesh that `Save` replaced by its file path (it is then loaded from
    disk: a new object nobody observes yet); afterwards the simulation must be among the observers of `self.mesh`
    (interpreted with the repository's own Observable), the memo cleared and the flag raised."""
    from ..xeval import Interp, XObj, XRaise, Sink, FuncInfo

    repo = ctx.repo
    simu = repo.cls(SIMU)
    mesh_ci = repo.cls(MESH)
    f = repo.lookup_method(simu, simu.mangle("__Update_mesh"))
    r = ctx.rule(rid, "after Set_Iter switches to another mesh of the history (__Update_mesh), the simulation observes its current mesh - for a mesh kept in memory and for one reloaded from the path Save left in the history", min_instances=2)
    for label, stored in (("mesh kept in memory", "object"), ("mesh reloaded from the path left by Save", "path")):
        r.instance(fn=f.qualname)
        loaded = XObj(mesh_ci, {})
        inmem = XObj(mesh_ci, {})
        cleared = []

        def hook(fn, args, kwargs):
            fi = fn if isinstance(fn, FuncInfo) else getattr(fn, "finfo", None)
            if fi is not None and fi.name == "Load_Mesh":
                return loaded
            if fi is not None and fi.name == "clear_cached_computed_values":
                cleared.append(args[0])
                return None
            if fi is not None and fi.module.name.endswith(("Folder", "Terminal")):
                return "joined-path"
            return NotImplemented

        I = Interp(repo, extra_builtins={"Folder": Sink()})
        I.call_hook = hook
        obj = XObj(simu, {"folder": "F", "_Simu__listMesh": ["Meshes/mesh0.pickle" if stored == "path" else inmem], "_Simu__mesh": None})
        if stored == "object":
            # a mesh of the in-memory history was registered when it was assigned (mesh setter / constructor)
            I.call_function(repo.lookup_method(mesh_ci, "_Add_observer"), [obj], self_obj=inmem)
        try:
            I.call_function(f, [0], self_obj=obj)
            cur = obj.attrs.get("_Simu__mesh")
            observers = I.call_function(repo.lookup_method(mesh_ci, "observers"), [], self_obj=cur) if cur is not None else []
        except XRaise as e:
            r.fail(f.qualname, f"observed:{stored}", f.file, f.lineno, "_Simu.__Update_mesh", f"{label}: raises {e}")
            continue
        want = loaded if stored == "path" else inmem
        if cur is not want:
            r.fail(f.qualname, f"observed:{stored}", f.file, f.lineno, "_Simu.__Update_mesh", f"{label}: the current mesh is not the mesh of the requested index")
        elif not any(o is obj for o in observers):
            r.fail(f.qualname, f"observed:{stored}", f.file, f.lineno, "_Simu.__Update_mesh", f"{label}: after the switch the simulation is not an observer of its current mesh: moving / re-coordinating that mesh notifies nobody and the next matrices are those of the old geometry")
        elif not cleared or not obj.attrs.get("_Updatable__needUpdate", obj.attrs.get("needUpdate", True)):
            r.fail(f.qualname, f"stale:{stored}", f.file, f.lineno, "_Simu.__Update_mesh", f"{label}: the memoised values are not cleared / the flag is not raised after the switch")
        else:
            r.ok(f"{label}: observed, memo cleared, flag raised")


def fresh_fields_rule(ctx, rid="R14.27"):
    """'replacing the mesh ... the next matrices, solution and results are identical to those of a new simulation': a
    new simulation starts at rest.  `_Simu.__Init_Sols_n` - called by the constructor and by the mesh setter - is
    interpreted on a simulation that already holds non-zero u, v, a of exactly the size of the new mesh (a mesh replaced by
    another one with the same number of nodes) and on one whose fields have another size: afterwards every field of every
    problem type is the zero vector of the size of the current mesh."""
    from ..xeval import Interp, XObj, XRaise
    from ..xarray import XArray
    from ..alg import Poly, is_zero

    repo = ctx.repo
    simu = repo.cls(SIMU)
    f = repo.lookup_method(simu, simu.mangle("__Init_Sols_n"))
    r = ctx.rule(rid, "__Init_Sols_n (constructor, mesh setter): u, v, a of every problem type are zero vectors of the size of the current mesh afterwards, also when fields of that very size were held before", min_instances=3)
    for label, old_size in (("fields of the same size held before (mesh replaced by one with as many nodes)", 6), ("fields of another size held before", 4), ("no field yet (constructor)", None)):
        r.instance(fn=f.qualname)
        attrs = {"mesh": SimpleNamespace(Nn=3), "Get_problemTypes": lambda: ["pA", "pB"], "Get_dof_n": lambda pt=None: 2 if pt == "pA" else 1}
        if old_size is not None:
            for nm in ("u", "v", "a"):
                attrs[f"_Simu__dict_{nm}_n"] = {"pA": XArray((old_size,), [Poly.var(f"{nm}{k}") for k in range(old_size)]), "pB": XArray((3,), [Poly.var(f"{nm}b{k}") for k in range(3)])}
        obj = XObj(simu, attrs)
        try:
            Interp(repo).call_function(f, [], self_obj=obj)
        except XRaise as e:
            r.fail(f.qualname, f"fresh-fields:{old_size}", f.file, f.lineno, "_Simu.__Init_Sols_n", f"{label}: raises {e}")
            continue
        bad = None
        for nm in ("u", "v", "a"):
            d = obj.attrs.get(f"_Simu__dict_{nm}_n")
            for pt, size in (("pA", 6), ("pB", 3)):
                v = d.get(pt) if isinstance(d, dict) else None
                if bad is None and not (isinstance(v, XArray) and v.shape == (size,) and all(is_zero(x) for x in v.data)):
                    bad = f"{nm}_n of problem {pt} is {'missing' if v is None else ('of shape ' + str(v.shape) if v.shape != (size,) else 'the field held before: ' + str([str(x) for x in v.data][:3]) + '...')}, expected {size} zeros"
        if bad:
            r.fail(f.qualname, "fresh-fields", f.file, f.lineno, "_Simu.__Init_Sols_n", f"{label}: {bad}: after the mesh is replaced the simulation keeps the displacement / rates of the old mesh where a new simulation on that mesh starts at rest")
        else:
            r.ok(f"{label}: every field is zero and of the size of the mesh")


def notify_all_rule(ctx, rid="R14.28"):
    """'Whatever sequence of public modifications is applied to ... the objects it observes': EVERY event reaches EVERY
    observer - an observer may do more on an event than raise its flag (per-problem flags of the staggered simulations,
    memo clearing on a mesh event), so an observer that is already waiting for an update must still be told.
    `Observable._Notify` is interpreted (with the repository's own observer list) on an observable with three observers,
    one of them already flagged `needUpdate`: each receives `_Update(observable, event)` exactly once, in registration order."""
    from ..xeval import Interp, XObj, XRaise

    repo = ctx.repo
    ob = repo.cls("EasyFEA.Utilities._observers.Observable")
    f = ob.methods["_Notify"]
    r = ctx.rule(rid, "Observable._Notify hands the event to every registered observer exactly once, whatever the observer's own state (needUpdate already raised included)", min_instances=1)
    r.instance(fn=f.qualname)
    calls = []

    def mk(tag, flagged):
        return SimpleNamespace(tag=tag, needUpdate=flagged, _Update=lambda observable, event, tag=tag: calls.append((tag, observable, event)))

    observers = [mk("a", False), mk("b", True), mk("c", False)]
    obj = XObj(ob, {"_Observable__observers": list(observers)})
    try:
        Interp(repo, extra_builtins={"getattr": getattr}).call_function(f, ["The mesh has been modified"], self_obj=obj)
    except XRaise as e:
        r.fail(f.qualname, "notify-all", f.file, f.lineno, "Observable._Notify", f"raises {e}")
        return
    got = [t for t, o, ev in calls if o is obj and ev == "The mesh has been modified"]
    if got == ["a", "b", "c"]:
        r.ok("three observers (one already flagged): each told once, in order")
    else:
        r.fail(f.qualname, "notify-all", f.file, f.lineno, "Observable._Notify", f"observers a, b (already waiting for an update), c: the event reaches {got}: an observer that is skipped keeps what it does beyond raising its flag undone (the other problem's flag of a staggered simulation, the memo of a moved mesh)")


def construction_parameter_rule(ctx, rid="R14.29"):
    """'Whatever sequence of public modifications is applied to a simulation ... model parameters ... the next matrices ... are
    identical to those of a new simulation constructed directly in the final configuration': a PUBLIC, assignable parameter of
    a simulation class (a `_params` descriptor: assigning it only raises the update flag) whose value the constructor used to
    decide what it BUILDS - a branch of `__init__` on that parameter whose arms rebind something handed to the base
    constructor (the element mesh, the model) - cannot be honoured by a later assignment: the flag is raised, the matrices are
    re-assembled on the structure chosen at construction.  For every descriptor parameter of every simulation class the
    constructor is searched for such a branch (locals followed to the `super().__init__(...)` call)."""
    repo = ctx.repo
    simu = repo.cls(SIMU)
    r = ctx.rule(rid, "no assignable parameter (descriptor) of a simulation class decides, in a branch of the constructor, what is handed to the base constructor (mesh, model): assigning it later could not rebuild that structure", min_instances=2)
    for ci in [simu] + sorted(repo.subclasses(simu), key=lambda c: c.qualname):
        init = ci.methods.get("__init__")
        for st in ci.node.body:
            tgt = st.target if isinstance(st, ast.AnnAssign) else (st.targets[0] if isinstance(st, ast.Assign) and len(st.targets) == 1 else None)
            val = getattr(st, "value", None)
            if not (isinstance(tgt, ast.Name) and isinstance(val, ast.Call) and (dotted(val.func) or "").startswith("_params.") and (dotted(val.func) or "").endswith("Parameter")):
                continue
            P = tgt.id
            r.instance(fn=f"{ci.qualname}.{P}")
            if init is None or init.cls is not ci:
                r.ok(f"{ci.name}.{P}: no constructor of its own")
                continue
            # names handed to the base constructor
            handed = set()
            for n in ast.walk(init.node):
                if isinstance(n, ast.Call) and isinstance(n.func, ast.Attribute) and n.func.attr == "__init__" and isinstance(n.func.value, ast.Call) and dotted(n.func.value.func) == "super":
                    for a in list(n.args) + [k.value for k in n.keywords]:
                        handed |= {x.id for x in ast.walk(a) if isinstance(x, ast.Name)}
            bad = None
            for n in ast.walk(init.node):
                if not isinstance(n, ast.If):
                    continue
                reads = {x.id for x in ast.walk(n.test) if isinstance(x, ast.Name)} | {x.attr for x in ast.walk(n.test) if isinstance(x, ast.Attribute) and isinstance(x.value, ast.Name) and x.value.id == "self"}
                if P not in reads:
                    continue
                rebound = {t.id for arm in (n.body, n.orelse) for s_ in arm for a_ in ast.walk(s_) if isinstance(a_, ast.Assign) for t in a_.targets if isinstance(t, ast.Name)}
                hit = sorted(rebound & handed)
                if hit and bad is None:
                    bad = (n, hit)
            if bad:
                n, hit = bad
                r.fail(f"{ci.qualname}.{P}", f"construction-parameter:{P}", init.file, n.lineno, f"{ci.name}.__init__", f"`{ci.name}.{P}` is an assignable parameter (assigning it raises the update flag only) and the constructor chooses `{', '.join(hit)}` - handed to the base constructor - in `if {norm_text(n.test)[:40]}:`: after `simu.{P} = <other value>` the matrices are re-assembled on the structure built for the old value and differ from those of a simulation constructed with the new one")
            else:
                r.ok(f"{ci.name}.{P}: the constructor builds nothing that depends on it")
