"""C20 -- mesh partition / row-complete assembly: the clauses visible in the
shape of the code.  Partition truth, reproducibility and ghost-layer
sufficiency depend on gmsh's partitioner and run-time sets: NOT decided (MPI
cannot be executed here either)."""

from __future__ import annotations

import ast

from ..repo import AnalysisError, dotted, norm_text, walk_no_nested, FuncInfo

SIMU = "EasyFEA.Simulations._simu._Simu"
GE = "EasyFEA.FEM._group_elem._GroupElem"
MESH = "EasyFEA.FEM._mesh.Mesh"
MESHER = "EasyFEA.FEM._mesher.Mesher"

SORTED_CALLS = {"np.sort", "np.unique", "np.arange", "np.flatnonzero", "np.union1d", "np.setdiff1d", "np.intersect1d", "sorted"}


def sorted_provenance(repo, f: FuncInfo, expr, depth=0):
    """'sorted' | 'unsorted' | 'unknown' for an expression used as the haystack of searchsorted"""
    if depth > 5:
        return "unknown"
    if isinstance(expr, ast.Call):
        d = dotted(expr.func) or ""
        if d in SORTED_CALLS:
            return "sorted"
        if isinstance(expr.func, ast.Attribute) and expr.func.attr == "astype":
            return sorted_provenance(repo, f, expr.func.value, depth + 1)
        if d in ("np.array", "np.asarray") and expr.args:
            a = expr.args[0]
            if isinstance(a, ast.Call) and dotted(a.func) == "list":
                return "unsorted"
            return sorted_provenance(repo, f, a, depth + 1)
        # package function: all returns sorted
        cands = []
        r = repo.resolve_name(f.module, d) if d else None
        if isinstance(r, FuncInfo):
            cands = [r]
        elif isinstance(expr.func, ast.Attribute):
            nm = expr.func.attr
            cands = [g for c in repo.classes.values() for n, g in c.methods.items() if n == nm and g.cls is c][:4]
        if cands:
            res = {function_returns_sorted(repo, g, depth + 1) for g in cands}
            if res == {"sorted"}:
                return "sorted"
        return "unknown"
    if isinstance(expr, ast.Subscript):
        # np.where(mask)[0] / x.nonzero()[0]
        if isinstance(expr.value, ast.Call) and (dotted(expr.value.func) or "") in ("np.where", "np.nonzero") and isinstance(expr.slice, ast.Constant) and expr.slice.value == 0:
            return "sorted"
        # tuple element of a package call: _Get_partitioned_data()[3] -> stored sorted arrays
        if isinstance(expr.value, ast.Call) and (dotted(expr.value.func) or "").endswith("_Get_partitioned_data"):
            return partition_data_sorted(repo)
        return "unknown"
    if isinstance(expr, ast.Attribute):
        # property of a package class with sorted returns
        nm = expr.attr
        props = [g for c in repo.classes.values() for n, g in c.methods.items() if n == nm and g.cls is c and g.is_property()]
        if props:
            res = {function_returns_sorted(repo, g, depth + 1) for g in props}
            if res == {"sorted"}:
                return "sorted"
        return "unknown"
    if isinstance(expr, ast.Name):
        defs = [n for n in walk_no_nested(f.node) if isinstance(n, ast.Assign) and any(isinstance(t, ast.Name) and t.id == expr.id for t in n.targets)]
        tup = [n for n in walk_no_nested(f.node) if isinstance(n, ast.Assign) and isinstance(n.targets[0], ast.Tuple) and any(isinstance(e, ast.Name) and e.id == expr.id for e in n.targets[0].elts)]
        if tup and not defs:
            n = tup[0]
            if isinstance(n.value, ast.Call) and ((dotted(n.value.func) or "").endswith("_Get_partitioned_data") or "partitionned_data" in norm_text(n.value)):
                return partition_data_sorted(repo)
            if isinstance(n.value, ast.Attribute) and "partitionned_data" in norm_text(n.value):
                return partition_data_sorted(repo)
            if isinstance(n.value, ast.Call):
                d = dotted(n.value.func) or ""
                r = repo.resolve_name(f.module, d)
                if isinstance(r, FuncInfo):
                    idx = [i for i, e in enumerate(n.targets[0].elts) if isinstance(e, ast.Name) and e.id == expr.id][0]
                    return function_returns_sorted(repo, r, depth + 1, idx)
            return "unknown"
        if not defs:
            # parameter
            return "unknown"
        res = {sorted_provenance(repo, f, d.value, depth + 1) for d in defs}
        if res == {"sorted"}:
            return "sorted"
        if "unsorted" in res:
            return "unsorted"
        # canonical pattern of the CSR map: linear index built from a matrix whose indices were sorted
        if any("indices" in norm_text(d.value) and "indptr" in norm_text(d.value) for d in defs) and any(isinstance(c, ast.Call) and isinstance(c.func, ast.Attribute) and c.func.attr == "sort_indices" for c in ast.walk(f.node)):
            return "sorted"
        return "unknown"
    return "unknown"


def function_returns_sorted(repo, g: FuncInfo, depth=0, idx=None):
    rets = [n for n in walk_no_nested(g.node) if isinstance(n, ast.Return) and n.value is not None]
    if not rets:
        return "unknown"
    out = set()
    for r in rets:
        v = r.value
        if idx is not None and isinstance(v, ast.Tuple):
            v = v.elts[idx]
        out.add(sorted_provenance(repo, g, v, depth + 1))
    if out == {"sorted"}:
        return "sorted"
    if "unsorted" in out:
        return "unsorted"
    return "unknown"


_PD = {}


def partition_data_sorted(repo):
    """the arrays stored by _Set_partitioned_data are np.sort(...)"""
    if "v" in _PD:
        return _PD["v"]
    f = repo.cls(GE).methods["_Set_partitioned_data"]
    tup = None
    for n in ast.walk(f.node):
        if isinstance(n, ast.Assign) and isinstance(n.value, ast.Tuple) and any("partitionned_data" in norm_text(t) for t in n.targets):
            tup = n.value
    ok = tup is not None
    if ok:
        for e in tup.elts[1:]:
            if not isinstance(e, ast.Name):
                ok = False
                continue
            if sorted_provenance(repo, f, e) != "sorted":
                ok = False
    _PD["v"] = "sorted" if ok else "unknown"
    return _PD["v"]


def run(ctx):
    repo = ctx.repo
    ctx.level = "other"
    ctx.explanation = (
        "Decided structurally (each clause is something a single-process test cannot observe): energies and reactions restrict both operand and operator rows to the owned dofs and reduce over "
        "ranks; every np.searchsorted haystack has sorted provenance (np.sort / np.unique / arange / where()[0] / arrays stored sorted by _Set_partitioned_data); the ghost layer is built from "
        "all other ranks' elements touching an owned node and the group from unique(owned + ghost); Merge maps nodes with the same offsets it shifted the connectivities with. "
        "NOT decided: that gmsh's partition is a partition, reproducibility, sufficiency of the ghost layer on mixed-type meshes, anything under real MPI."
    )
    # 'keeps global node numbering ... merging / saving and loading partition data is the inverse bookkeeping'
    from . import c15 as _c15

    ctx.attempt(_c15.mesh_roundtrip_rule, ctx, "R20.8")
    ctx.attempt(owned_union_rule, ctx)
    simu = repo.cls(SIMU)

    # (R20.1 matched the statements of Calc_Energy / Calc_Reaction / Get_dofs / _Get_mpi_owned_nodes as text - a return of
    # Reduce_sum(..x[d]..A[d]..), `MPI_SIZE > 1`, `_Get_partitioned_data()[3]` - and would fire on an equivalent rewrite with
    # local names or tuple unpacking; retired: R20.13 interprets the three simulation functions, R20.9 the owned-node union
    # on real group objects written by _Set_partitioned_data.)
    r2 = ctx.rule("R20.2", "sorted precondition: the haystack of every np.searchsorted has sorted provenance", min_instances=5)
    unknown = []
    for f in repo.all_functions():
        for n in walk_no_nested(f.node):
            if isinstance(n, ast.Call) and (dotted(n.func) or "") == "np.searchsorted" and n.args:
                r2.instance(fn=f.qualname)
                p = sorted_provenance(repo, f, n.args[0])
                if p == "sorted":
                    r2.ok(f"{f.qualname}: searchsorted({norm_text(n.args[0])}, ...) - sorted by construction")
                elif p == "unsorted":
                    r2.fail(f.qualname, f"unsorted:{norm_text(n.args[0])}", f.file, n.lineno, f.name, f"np.searchsorted({norm_text(n.args[0])}, ...): the haystack is built from an unordered collection; searchsorted returns out-of-range / wrong indices silently")
                else:
                    r2.ok()
                    unknown.append(f"{f.qualname}: {norm_text(n.args[0])}")
    if unknown:
        r2.note(f"provenance not established (neither proven sorted nor known unsorted): {unknown}")

    r2b = ctx.rule("R20.2b", "the partition arrays are stored sorted by _Set_partitioned_data (every consumer pairs them with connect through searchsorted)", min_instances=1)
    fsetp = repo.cls(GE).methods["_Set_partitioned_data"]
    r2b.instance(fn=fsetp.qualname)
    # interpreted on a group of nodes {1, 2, 4, 5, 7} with every input in descending order (the sortedness used to be a
    # provenance judgement over np.sort(...) calls, which fired on a boolean-mask rewrite, refactored/C20-R3)
    from ..xeval import Interp as _I20, XObj as _X20, XRaise as _XR20
    from ..xarray import XArray as _A20

    ge_ci = repo.cls(GE)
    gnodes = _A20((5,), [1, 2, 4, 5, 7], "i")
    o = _X20(ge_ci, {ge_ci.mangle("__connect"): _A20((3, 3), [1, 2, 4, 2, 4, 5, 4, 5, 7], "i"), ge_ci.mangle("__nodes"): gnodes, "nodes": gnodes})
    try:
        _I20(repo).call_function(fsetp, [_A20((2,), [2, 0], "i"), _A20((3,), [7, 1, 4], "i"), 1, _A20((1,), [1], "i")], self_obj=o)
        pd = o.attrs.get(ge_ci.mangle("__partitionned_data"))
        if pd is None:
            pd = _I20(repo).call_function(repo.lookup_method(ge_ci, "_Get_partitioned_data"), [], self_obj=o)
        got = [[int(x) for x in _A20.from_nested(a).data] for a in list(pd)[1:5]]
    except _XR20 as e:
        got = e
    want = [[0, 2], [1], [1, 4, 7], [2, 5]]
    if got == want:
        r2b.ok("elements, ghostElements, nodes, ghostNodes are stored ascending for inputs given in descending order")
    else:
        r2b.fail(fsetp.qualname, "stored-sorted", fsetp.file, fsetp.lineno, "_Set_partitioned_data", f"group nodes [1, 2, 4, 5, 7], elements [2, 0], owned nodes [7, 1, 4], ghost elements [1]: the stored (elements, ghostElements, nodes, ghostNodes) are {got}, expected {want} (ascending: every consumer pairs them with connect through searchsorted; ghost nodes = group nodes that are not owned)")

    # (R20.3 ghost-layer shape, R20.5 node ownership and R20.6 ghost scope were syntactic rules over the statements of
    # __Get_partitioned_groupElems: they raised false alarms on behaviour-preserving rewrites (np.any(...) for .any(...),
    # set.difference for `-`, sorted(set | set) for np.unique) and are retired; R20.12 decides the same clauses - and
    # more - by interpreting the function.)
    mesher = repo.cls(MESHER)
    fg = mesher.methods["__Get_partitioned_groupElems"]
    ctx.attempt(gmsh_session_rule, ctx)
    ctx.attempt(merge_dedup_rule, ctx)
    ctx.attempt(merge_single_rule, ctx)
    ctx.attempt(partition_interpreted_rule, ctx)
    ctx.attempt(owned_rows_rule, ctx)
    table_scope_rule(ctx)
    # (R20.4 matched the statement shapes of the offset bookkeeping of Mesh.Merge - np.cumsum(..)[:-1], a zip comprehension -
    # and fired on `np.cumsum(sizes) - sizes` and on a loop; retired: R20.10 decides mapping, coordinates and the merged
    # connectivity by interpreting Merge on meshes of 3, 4 and 3 nodes.)


def ownership_rule(ctx, fg):
    """R20.5: node ownership is exclusive and exhaustive by construction: the nodes a rank claims are the nodes of
    its own elements minus the nodes claimed by ALL other ranks, and the claim is recorded in the shared table
    before the next rank is processed."""
    from ..flow import must_pass, Locals

    r = ctx.rule("R20.5", "node ownership: claimed = nodes(own elements) - union(nodes claimed by every other rank); the claim is recorded in the shared per-rank table inside the same rank iteration", min_instances=2)
    L = Locals(fg.node)
    loops = [n for n in ast.walk(fg.node) if isinstance(n, ast.For) and isinstance(n.iter, ast.Call) and dotted(n.iter.func) == "range" and isinstance(n.target, ast.Name)]
    found = None
    for lp in loops:
        rank = lp.target.id
        for i, st in enumerate(lp.body):
            if isinstance(st, ast.Assign) and isinstance(st.value, ast.BinOp) and isinstance(st.value.op, ast.Sub) and isinstance(st.targets[0], ast.Name):
                left, right = st.value.left, L.resolve(st.value.right)
                if isinstance(left, ast.Call) and dotted(left.func) == "set" and ".ravel()" in norm_text(left):
                    found = (lp, rank, i, st, right)
    r.instance(fn=fg.qualname)
    if found is None:
        r.fail(fg.qualname, "claim", fg.file, fg.lineno, "__Get_partitioned_groupElems", "no statement claims set(connect_r.ravel()) - <nodes of the other ranks> inside the rank loop")
        return
    lp, rank, i, st, right = found
    # right = set().union(*(table[r] for r in range(N) if r != rank))
    gens = [g for g in ast.walk(right) if isinstance(g, ast.GeneratorExp)]
    ok = False
    table = None
    if isinstance(right, ast.Call) and isinstance(right.func, ast.Attribute) and right.func.attr == "union" and gens:
        g = gens[0]
        c = g.generators[0]
        if isinstance(g.elt, ast.Subscript) and isinstance(g.elt.value, ast.Name) and isinstance(c.target, ast.Name) and norm_text(g.elt.slice) == c.target.id and len(c.ifs) == 1:
            t = c.ifs[0]
            if isinstance(t, ast.Compare) and isinstance(t.ops[0], ast.NotEq) and {norm_text(t.left), norm_text(t.comparators[0])} == {c.target.id, rank} and isinstance(c.iter, ast.Call) and dotted(c.iter.func) == "range" and norm_text(c.iter.args[0]) == norm_text(lp.iter.args[0]):
                ok = True
                table = g.elt.value.id
    if ok:
        r.ok(f"claimed = set(own connectivity) - union({table}[r] for every r != {rank})")
    else:
        r.fail(fg.qualname, "claim-excludes-all-others", fg.file, st.lineno, "__Get_partitioned_groupElems", f"the nodes subtracted from the rank's own nodes are `{norm_text(right)[:90]}`, not the union over every other rank of the shared table: a node on an interface can be owned twice or by nobody")
    r.instance(fn=fg.qualname)
    claimed = st.targets[0].id

    def records(s):
        return (isinstance(s, ast.Expr) and isinstance(s.value, ast.Call) and isinstance(s.value.func, ast.Attribute) and s.value.func.attr == "update" and isinstance(s.value.func.value, ast.Subscript)
                and isinstance(s.value.func.value.value, ast.Name) and (table is None or s.value.func.value.value.id == table) and norm_text(s.value.func.value.slice) == rank
                and s.value.args and norm_text(s.value.args[0]) == claimed)

    if table is not None and must_pass(lp.body[i + 1:], records):
        r.ok(f"{table}[{rank}].update(claimed) before the next rank")
    else:
        r.fail(fg.qualname, "claim-recorded", fg.file, st.lineno, "__Get_partitioned_groupElems", "the claimed nodes are not recorded in the shared per-rank table within the rank iteration: the following ranks claim the interface nodes again")


def ghost_scope_rule(ctx, fg):
    """R20.6: the ghost search of a rank follows every node the rank owns (its entry of the shared per-rank table, which
    accumulates the claims made through all element groups), not only the nodes claimed through the current group."""
    from ..flow import Locals

    r = ctx.rule("R20.6", "ghost-layer scope on multi-group meshes: the node set of the ghost search is the rank's entry of the shared ownership table (all groups), not the claim of the current group", min_instances=1)
    L = Locals(fg.node)
    r.instance(fn=fg.qualname)
    params = set(fg.params())
    hit = None
    for n in ast.walk(fg.node):
        if isinstance(n, ast.Call) and (dotted(n.func) or "") == "np.isin" and len(n.args) >= 2:
            par = [p for p in ast.walk(fg.node) if isinstance(p, ast.Attribute) and p.attr == "any" and p.value is n]
            if par:
                hit = n
    if hit is None:
        r.fail(fg.qualname, "ghost-scope", fg.file, fg.lineno, "__Get_partitioned_groupElems", "ghost search np.isin(<other connectivity>, <owned nodes>).any(...) not found")
        return
    src = L.expand(hit.args[1])
    core = src
    while isinstance(core, ast.Call) and core.args and (dotted(core.func) or "") in ("np.array", "np.asarray", "list", "sorted", "np.fromiter", "np.sort", "tuple", "set"):
        core = core.args[0]
    if isinstance(core, ast.Subscript) and isinstance(core.value, ast.Name) and core.value.id in params:
        r.ok(f"ghost search over `{norm_text(src)[:70]}` (the rank's entry of the shared table)")
    else:
        r.fail(fg.qualname, "ghost-scope", fg.file, hit.lineno, "__Get_partitioned_groupElems", f"the ghost search uses `{norm_text(src)[:90]}`: the nodes claimed through the current element group only. On a mesh with several groups a rank that owns interface nodes but holds no element of this group gets no ghost of it: owned rows of the assembled system are incomplete")


def table_scope_rule(ctx):
    """R20.7: one ownership table for the whole partition: the per-rank node table handed to the per-type splitter is
    created once, outside the loop over element types, so that a node claimed through one group (boundary segments)
    stays owned by the same rank in every other group."""
    repo = ctx.repo
    r = ctx.rule("R20.7", "ownership table scope: the table passed to __Get_partitioned_groupElems is created outside the loop over element types (shared by all groups of the mesh)", min_instances=1)
    mesher = repo.cls(MESHER)
    sites = []
    for nm, f in mesher.methods.items():
        if f.cls is not mesher or nm != f.node.name:
            continue
        for n in ast.walk(f.node):
            if isinstance(n, ast.Call) and (dotted(n.func) or "").endswith("__Get_partitioned_groupElems"):
                sites.append((f, n))
    if not sites:
        raise AnalysisError("no call of __Get_partitioned_groupElems found")
    callee = mesher.methods["__Get_partitioned_groupElems"]
    ps = [p for p in callee.params() if p != "self"]
    for f, call in sites:
        r.instance(fn=f.qualname)
        idx = ps.index("dict_rank_nodes") if "dict_rank_nodes" in ps else len(ps) - 1
        arg = next((k.value for k in call.keywords if k.arg == ps[idx]), call.args[idx] if len(call.args) > idx else None)
        if not isinstance(arg, ast.Name):
            r.fail(f.qualname, "table-arg", f.file, call.lineno, f.name, "the ownership table is not passed as a variable shared by the calls")
            continue
        # loops enclosing the call
        def enclosing_loops(root, target):
            out = []

            def walk(node, stack):
                for ch in ast.iter_child_nodes(node):
                    st2 = stack + [ch] if isinstance(ch, (ast.For, ast.While)) else stack
                    if ch is target:
                        out.extend(stack)
                        return True
                    if walk(ch, st2):
                        return True
                return False

            walk(root, [])
            return out

        loops = enclosing_loops(f.node, call)
        inside = [a for lp in loops for a in ast.walk(lp) if isinstance(a, (ast.Assign, ast.AnnAssign)) and any(isinstance(t, ast.Name) and t.id == arg.id for t in (a.targets if isinstance(a, ast.Assign) else [a.target]))]
        if inside:
            r.fail(f.qualname, "table-per-group", f.file, inside[0].lineno, f.name, f"`{arg.id}` is (re)created inside the loop over element types: node ownership is no longer shared between the groups of a partitioned mesh - a boundary node can be owned by one rank in the main group and by another in the boundary group, whose elements are then missing from the owning part")
        elif not loops:
            r.ok(f"{f.name}: single call, table `{arg.id}`")
        else:
            r.ok(f"{f.name}: `{arg.id}` is created before the loop over element types")



def owned_union_rule(ctx):
    """R20.9: a node owned by the rank through two element groups (an interface node of a TRI3 + QUAD4 mesh) is owned once.
    Mesh._Get_mpi_owned_nodes is interpreted on two groups whose owned-node lists overlap; Get_dofs builds the owned dofs
    from it, so a repeated node would count its rows twice in every owned-row sum."""
    from types import SimpleNamespace

    from ..xeval import Interp, XObj, XRaise
    from ..xarray import XArray

    repo = ctx.repo
    r = ctx.rule("R20.9", "owned nodes of a multi-group mesh: the union over the groups without repetition (a node owned through two groups is listed once), sorted; one group: its owned nodes, not its ghost nodes (group objects written by _Set_partitioned_data)", min_instances=3)
    mcls = repo.cls("EasyFEA.FEM._mesh.Mesh")
    f = mcls.methods["_Get_mpi_owned_nodes"]
    for lists in ([[0, 3, 5, 8], [3, 4, 8, 9]], [[2, 7], [1, 2], [7, 11]], [[0, 3, 5]]):
        r.instance(fn=f.qualname)
        # real group objects: the owned nodes are handed to the writer `_Set_partitioned_data` (in hash order, as Mesher does)
        # and read back through `_Get_partitioned_data` by the function under test - whatever slot the pair agrees on
        gcls = repo.cls(GE)
        fset = gcls.methods["_Set_partitioned_data"]
        I = Interp(repo)
        groups = []
        try:
            for l in lists:
                allnodes = sorted(set(l) | {20, 21})
                g = XObj(gcls, {gcls.mangle("__connect"): XArray((2, 3), [0] * 6, "i"), "nodes": XArray((len(allnodes),), allnodes, "i")})
                I.call_function(fset, [XArray((1,), [0], "i"), XArray((len(l),), list(reversed(l)), "i"), 0, XArray((1,), [1], "i")], self_obj=g)
                groups.append(g)
            obj = XObj(mcls, dict(dim=2, Get_list_groupElem=lambda d=None: list(groups)))
            out = XArray.from_nested(I.call_function(f, [], self_obj=obj))
        except XRaise as e:
            r.fail(f.qualname, "owned-union", f.file, f.lineno, "Mesh._Get_mpi_owned_nodes", f"raises {e}")
            continue
        got = [int(x) for x in out.data]
        want = sorted({x for l in lists for x in l})
        if got == want:
            r.ok(f"groups owning {lists} -> {want}")
        else:
            r.fail(f.qualname, "owned-union", f.file, f.lineno, "Mesh._Get_mpi_owned_nodes", f"groups owning {lists} give {got}, expected {want}: an interface node owned through two element types is listed twice, its dofs are counted twice in the owned-row energies / reactions")


def merge_dedup_rule(ctx):
    """R20.10: 'merging meshes with a node mapping is the inverse bookkeeping': Mesh.Merge is interpreted on three one-element
    meshes sharing a corner (a point present in all THREE meshes: a stack of three coincident points, which needs the
    transitive closure of the pair relation) and an edge point shared by two of them.  The coincidence search and the
    component labelling are exact stand-ins (all pairs at distance 0; union-find).  Required: two nodes get the same merged
    number iff they coincide; merged_coord[mapping[i][j]] == coord_i[j]; the merged mesh has one node per distinct point."""
    from types import SimpleNamespace

    from ..xeval import Interp, XObj, Opaque, XRaise, FuncInfo, ClassInfo
    from ..xarray import XArray
    from ..alg import Q
    from .c03 import XCsr

    repo = ctx.repo
    mesh_ci = repo.cls(MESH)
    f = mesh_ci.methods["Merge"]
    r = ctx.rule("R20.10", "Mesh.Merge: nodes coincide <=> same merged number (a point shared by three meshes included; a sheet and its copy one unit above it are not glued), merged coordinates follow the mapping, one merged node per distinct point; the pieces of a partition give the global mesh back", min_instances=3)
    P = lambda x, y, z=0: (Q(x), Q(y), Q(z))
    scenarios = {
        # (the second mesh carries a fourth node not used by its triangle: the meshes have 3, 4, 3 nodes, so a slip in the
        #  offsets - sizes[1:] for sizes[:-1], an inclusive prefix sum - moves the third mesh's block)
        "three triangles sharing the corner (0, 0) (a point present in all three meshes) and pairwise an edge point": [[P(0, 0), P(1, 0), P(0, 1)], [P(0, 0), P(0, 1), P(-1, 0), P(5, 5)], [P(0, 0), P(-1, 0), P(0, -1)]],
        # the first mesh lies in the plane z = 0 (its embedding dimension is 2); the second is the same triangle one unit above
        "a triangle in the plane z = 0, the same triangle at z = 1, and a neighbour of the first in the plane": [[P(0, 0), P(1, 0), P(0, 1)], [P(0, 0, 1), P(1, 0, 1), P(0, 1, 1)], [P(0, 0), P(0, 1), P(-1, 0)]],
    }

    # the pieces of a partition keep the GLOBAL node numbering: the rows of the nodes a piece does not hold are zero
    # ('Global in its indexing only', Mesh.coord); merging the pieces must give the global mesh back
    G = [P(1, 1), P(2, 1), P(1, 2), P(2, 2)]
    Z = P(0, 0)
    pieces = {"pts": [[G[0], G[1], G[2], Z], [Z, G[1], G[2], G[3]], [G[0], G[1], G[2], Z]], "conn": [[0, 1, 2], [1, 3, 2], [0, 1, 2]]}
    scenarios["the pieces of a partition (global numbering, zero rows for the nodes a piece does not hold; no node at the origin)"] = pieces

    def mk_mesh(pts, conn=(0, 1, 2)):
        c = XArray((len(pts), 3), [v for p in pts for v in p])
        g = SimpleNamespace(connect=XArray((1, 3), list(conn), "i"), Ncoords=len(pts))
        # (inDim as the Mesh property computes it: the highest coordinate that is not identically zero)
        inDim = 3 if any(p[2] != 0 for p in pts) else 2 if any(p[1] != 0 for p in pts) else 1
        return SimpleNamespace(coord=c, coordGlob=c, dict_groupElem={"TRI3": g}, groupElem=g, Nn=len(pts), dim=2, inDim=inDim)

    class Tree:
        _xeval_open = True

        def __init__(self, pts):
            self.pts = XArray.from_nested(pts)

        def query_pairs(self, tol, output_type=None):
            n, d = self.pts.shape
            row = lambda i: tuple(self.pts[i, k] for k in range(d))
            pairs = [(i, j) for i in range(n) for j in range(i + 1, n) if row(i) == row(j)]
            return XArray((len(pairs), 2), [v for p in pairs for v in p], "i")

    def components(graph, directed=False, **k):
        n = graph.shape[0]
        parent = list(range(n))

        def find(a):
            while parent[a] != a:
                a = parent[a]
            return a

        for (i, j) in graph.entries:
            a, b = find(i), find(j)
            if a != b:
                parent[max(a, b)] = min(a, b)
        roots = sorted({find(i) for i in range(n)})
        return len(roots), XArray((n,), [roots.index(find(i)) for i in range(n)], "i")

    created = {}

    def hook(fn, args, kwargs):
        if isinstance(fn, Opaque):
            tail = fn.tag.split(".")[-1]
            if tail == "cKDTree":
                return Tree(args[0])
            if tail == "csr_matrix":
                kwargs = {k: v for k, v in kwargs.items() if k != "dtype"}
                return XCsr(*args, **kwargs)
            if tail == "connected_components":
                return components(*args, **kwargs)
        fi = fn if isinstance(fn, FuncInfo) else getattr(fn, "finfo", None)
        if isinstance(fi, FuncInfo) and fi.name == "Create":
            created[str(args[0])] = (XArray.from_nested(args[1]), XArray.from_nested(args[2]))
            return SimpleNamespace(elemType=args[0])
        if isinstance(fn, ClassInfo) and fn is mesh_ci:
            return SimpleNamespace(merged=True)
        return NotImplemented

    for label, meshes_pts in scenarios.items():
        r.instance(fn=f.qualname)
        created.clear()
        I = Interp(repo, max_steps=20_000_000)
        I.call_hook = hook
        conns = [[0, 1, 2]] * 3
        if isinstance(meshes_pts, dict):
            conns, meshes_pts = meshes_pts["conn"], meshes_pts["pts"]
        partial = conns != [[0, 1, 2]] * 3
        ms = [mk_mesh(p, cn) for p, cn in zip(meshes_pts, conns)]
        try:
            # (the removal of duplicated elements is another step of Merge, not followed here)
            out = I.call_function(f, [ms], {"return_mapping": True, "constructUniqueElements": False})
        except XRaise as e:
            r.fail(f.qualname, f"merge-dedup:{label[:24]}", f.file, f.lineno, "Mesh.Merge", f"{label}: raises {e}")
            continue
        mapping = [[int(x) for x in XArray.from_nested(m).data] for m in out[1]]
        conn, newc = created.get("TRI3", (None, None))
        bad = None
        # (for the pieces of a partition only the nodes a piece holds are points of the piece)
        flat = [(i, j) for i in range(3) for j in range(len(meshes_pts[i])) if not partial or j in conns[i]]
        for a in range(len(flat)):
            for b in range(a + 1, len(flat)):
                (i, j), (k, l) = flat[a], flat[b]
                same_pt = meshes_pts[i][j] == meshes_pts[k][l]
                same_nb = mapping[i][j] == mapping[k][l]
                if bad is None and same_pt != same_nb:
                    bad = f"node {j} of mesh {i} and node {l} of mesh {k} {'coincide' if same_pt else 'are distinct points'} but get merged numbers {mapping[i][j]} and {mapping[k][l]}"
        distinct = len({meshes_pts[i][j] for i, j in flat})
        if bad is None and newc is not None:
            if newc.shape[0] != distinct:
                bad = f"the merged mesh has {newc.shape[0]} nodes for {distinct} distinct points"
            else:
                for i, j in flat:
                    if True:
                        if bad is None and tuple(newc[mapping[i][j], k] for k in range(3)) != meshes_pts[i][j]:
                            bad = f"merged coordinates of mapping[{i}][{j}] are not those of the node"
        if bad is None and any(len(mapping[i]) != len(meshes_pts[i]) for i in range(3)):
            bad = f"mapping lengths {[len(m) for m in mapping]} for meshes of {[len(m) for m in meshes_pts]} nodes"
        if bad is None and conn is not None:
            # the merged connectivity: the triangle of mesh i is (mapping[i][0], mapping[i][1], mapping[i][2]), in mesh order
            rows = [[int(conn[e, k]) for k in range(3)] for e in range(conn.shape[0])]
            want_rows = [[mapping[i][k] for k in conns[i]] for i in range(3)]
            if rows != want_rows:
                bad = f"merged connectivity {rows}, expected each mesh's element renumbered by its own mapping {want_rows} (connectivity shifted by another offset than the mapping)"
        if bad:
            r.fail(f.qualname, "merge-dedup" if label.startswith("three") else "merge-dedup:pieces-of-a-partition" if partial else f"merge-dedup:{label[:24]}", f.file, f.lineno, "Mesh.Merge", f"{label}: {bad}: the merged numbering is not 'one node per distinct point' (pairs not closed transitively, or coincidence decided on fewer than the three coordinates); merging the parts of a partition does not give the global mesh back")
        else:
            r.ok(f"{label}: one merged node per distinct point, mapping consistent")


def merge_single_rule(ctx):
    """R20.11: 'merging meshes with a node mapping': a list holding ONE mesh is returned as it is, with the identity mapping
    over ITS nodes -- also when that mesh mixes element types (it then has no single main group).  Mesh.Merge is interpreted
    on a mesh object with two main groups (the real Mesh.groupElem property raises AmbiguousGroupError there)."""
    from types import SimpleNamespace

    from ..xeval import Interp, XObj, XRaise
    from ..xarray import XArray

    repo = ctx.repo
    mesh_ci = repo.cls(MESH)
    f = mesh_ci.methods["Merge"]
    r = ctx.rule("R20.11", "Mesh.Merge of a single mesh mixing element types returns the mesh and the identity mapping over its nodes", min_instances=1)
    r.instance(fn=f.qualname)
    groups = [SimpleNamespace(Ncoords=7, dim=2, Ne=2), SimpleNamespace(Ncoords=7, dim=2, Ne=1)]
    mesh = XObj(mesh_ci, {mesh_ci.mangle("__dict_groupElem"): {"QUAD4": groups[0], "TRI3": groups[1]}, mesh_ci.mangle("__dim"): 2, "Get_list_groupElem": lambda d=None: list(groups)})
    try:
        out = Interp(repo).call_function(f, [[mesh]], {"return_mapping": True})
    except XRaise as e:
        r.fail(f.qualname, "merge-single-mixed", f.file, f.lineno, "Mesh.Merge", f"Merge([mesh], return_mapping=True) on a mesh with QUAD4 + TRI3 main groups raises {e}: the node count is asked of `mesh.groupElem`, which a mixed mesh does not have")
        return
    mp = XArray.from_nested(out[1][0])
    if out[0] is mesh and [int(x) for x in mp.data] == list(range(7)):
        r.ok("single mixed mesh: returned unchanged with the identity mapping")
    else:
        r.fail(f.qualname, "merge-single-mixed", f.file, f.lineno, "Mesh.Merge", f"single mixed mesh: mapping {list(mp.data)} is not the identity over its 7 nodes")


def partition_interpreted_rule(ctx, rid="R20.12"):
    """'assigns every element and every node to exactly one owner, gives each part exactly its own elements plus every
    element touching a node it owns': `Mesher.__Get_partitioned_groupElems` is INTERPRETED (gmsh's partition queries are
    answered from a table) on small meshes and the partition data it hands to the groups are checked against the statement
    itself, whatever ownership policy the code follows:
      (1) the owned-node sets of the ranks are disjoint and cover every node of the group;
      (2) every element is owned by exactly one rank;
      (3) the ghost elements of a rank are exactly the elements of the other ranks with a node the rank owns (any node of
          the element: a quadratic element may touch an owned mid-edge node with none of its corners owned);
      (4) the group of a rank holds the rows of its own and its ghost elements.
    Scenarios: a TRI6 patch over three ranks in which rank 1 owns a single mid-edge node whose end vertices belong to
    rank 0; a SEG3 boundary group processed after it (ownership table already filled); a TRI3 patch over two ranks."""
    from types import SimpleNamespace

    from ..xeval import Interp, XObj, Opaque, XRaise, FuncInfo
    from ..xarray import XArray

    repo = ctx.repo
    ci = repo.cls(MESHER)
    f = repo.lookup_method(ci, ci.mangle("__Get_partitioned_groupElems"))
    r = ctx.rule(rid, "partitioner interpreted: owned nodes disjoint and covering, one owner per element, ghosts == elements of other ranks touching an owned node (mid-edge nodes included), group rows == own + ghost rows; TRI6 over 3 ranks, a SEG3 group after it, TRI3 over 2 ranks, element tags with gaps", min_instances=4)

    def run_case(label, props, conn, elem_rank, table0, tags=None):
        r.instance(fn=f.qualname)
        ne, npe = len(conn), len(conn[0])
        tags = list(range(ne)) if tags is None else list(tags)  # gmsh element tags (0-based as the caller passes them)
        connect = XArray((ne, npe), [x for row in conn for x in row], "i")
        created = []

        def hook(fn, args, kwargs):
            if isinstance(fn, Opaque):
                t = fn.tag
                if t.endswith("getElementProperties"):
                    return props
                if t.endswith("model.getEntities"):
                    return [(props[1], e + 1) for e in range(ne)]  # one entity per element
                if t.endswith("getPartitions"):
                    return XArray((1,), [elem_rank[args[1] - 1] + 1], "i")
                if t.endswith("getElementsByType"):
                    ent = kwargs.get("tag", args[1] if len(args) > 1 else None)
                    return (XArray((1,), [tags[ent - 1] + 1], "i"), Opaque("nodeTags"))
            fi = fn if isinstance(fn, FuncInfo) else getattr(fn, "finfo", None)
            if fi is not None and fi.name == "_Create":
                g = SimpleNamespace(connect=args[1])

                def setp(elements, nodes, rank, ghostElements, g=g):
                    g.part = (elements, nodes, rank, ghostElements)

                g._Set_partitioned_data = setp
                created.append(g)
                return g
            return NotImplemented

        I = Interp(repo, max_steps=5_000_000)
        I.call_hook = hook
        nproc = max(elem_rank) + 1
        table = {k: set(v) for k, v in table0.items()} if table0 else {k: set() for k in range(nproc)}
        try:
            I.call_function(f, [9, connect, XArray((ne,), list(tags), "i"), Opaque("coordinates"), table], self_obj=XObj(ci, {}))
        except XRaise as e:
            r.fail(f.qualname, f"partition:{label}", f.file, f.lineno, "Mesher.__Get_partitioned_groupElems", f"{label}: raises {e}")
            return table
        ints = lambda x: [int(v) for v in XArray.from_nested(x).data]
        bad = None
        if len(created) != nproc or any(not hasattr(g, "part") for g in created):
            bad = f"{len(created)} groups created for {nproc} ranks (or partition data missing)"
        else:
            parts = [(ints(g.part[0]), ints(g.part[1]), g.part[2], ints(g.part[3]), XArray.from_nested(g.connect)) for g in created]
            allnodes = sorted({n for row in conn for n in row})
            owner = {}
            for k, (els, nodes, rank, ghosts, rows) in enumerate(parts):
                if bad is None and rank != k:
                    bad = f"group {k} is labelled rank {rank}"
                for n in table[k] if table0 else nodes:
                    if n in owner and owner[n] != k and bad is None:
                        bad = f"node {n} is owned by ranks {owner[n]} and {k}"
                    owner[n] = k
            if bad is None and any(n not in owner for n in allnodes):
                bad = f"node(s) {[n for n in allnodes if n not in owner]} have no owner"
            eowner = {}
            for k, (els, *_rest) in enumerate(parts):
                for e in els:
                    if e in eowner and bad is None:
                        bad = f"element {e} is owned by ranks {eowner[e]} and {k}"
                    eowner[e] = k
            if bad is None and sorted(eowner) != list(range(ne)):
                bad = f"elements {sorted(set(range(ne)) - set(eowner))} have no owner"
            if bad is None and any(eowner[e] != elem_rank[e] for e in range(ne)):
                bad = "an element is not given to the rank of its partition"
            for k, (els, nodes, rank, ghosts, rows) in enumerate(parts):
                if bad is not None:
                    break
                owned = set(table[k]) if table0 else set(nodes)
                if not table0 and set(nodes) != set(table[k]):
                    bad = f"rank {k}: the owned nodes handed to the group {sorted(nodes)} are not the rank's entry of the ownership table {sorted(table[k])}"
                    break
                want = sorted(e for e in range(ne) if eowner[e] != k and owned & set(conn[e]))
                if sorted(ghosts) != want:
                    miss = sorted(set(want) - set(ghosts))
                    bad = f"rank {k} owns the nodes {sorted(owned)}; its ghost elements are {sorted(ghosts)}, the elements of other ranks touching one of those nodes are {want}" + (f": element {miss[0]} = {conn[miss[0]]} touches the owned node {sorted(owned & set(conn[miss[0]]))[0]} and is missing - the rows of that node assembled on this part are incomplete" if miss else "")
                    break
                rows_want = [conn[e] for e in sorted(set(els) | set(ghosts))]
                got_rows = [[int(rows[i, j]) for j in range(npe)] for i in range(rows.shape[0])]
                if got_rows != rows_want:
                    bad = f"rank {k}: the group holds the rows {got_rows}, expected the rows of its own and ghost elements {rows_want}"
        if bad:
            r.fail(f.qualname, f"partition:{label}", f.file, f.lineno, "Mesher.__Get_partitioned_groupElems", f"{label}: {bad}")
        else:
            r.ok(f"{label}: ownership is a partition, ghosts complete, rows = own + ghost")
        return table

    # corners a=0 b=1 c=2 d=3 e=4 g=5; mid-edge nodes ab=6 bc=7 ca=8 ae=9 ec=10 cg=11 gb=12 ad=13 db=14
    tri6 = [[0, 4, 2, 9, 10, 8], [1, 2, 5, 7, 11, 12], [0, 1, 2, 6, 7, 8], [1, 0, 3, 6, 13, 14]]
    t = run_case("TRI6 patch over three ranks (rank 1 owns the mid-edge node 6 only, its end vertices 0 and 1 belong to rank 0)", ("Triangle 6", 2, 2, 6, Opaque("localCoords"), 3), tri6, [0, 0, 1, 2], None)
    # the boundary group of the same mesh, processed with the table the surface group left: segments (a, b | ab), (b, d | db), (a, e | ae);
    # the first one belongs to rank 0 and carries the node 6 that rank 1 owns (a LOWER rank's element touching a node of a higher rank)
    seg3 = [[0, 1, 6], [1, 3, 14], [0, 4, 9]]
    run_case("SEG3 boundary group processed after the surface group (ownership table already filled)", ("Line 3", 1, 2, 3, Opaque("localCoords"), 2), seg3, [0, 2, 0], t if all(t.values()) else {0: {0, 1, 2, 4, 5, 7, 8, 9, 10, 11, 12}, 1: {6}, 2: {3, 13, 14}})
    tri3 = [[0, 1, 2], [1, 3, 2], [3, 4, 2], [4, 5, 2]]
    run_case("TRI3 fan over two ranks", ("Triangle 3", 2, 1, 3, Opaque("localCoords"), 3), tri3, [0, 0, 1, 1], None)
    # gmsh numbers the elements entity by entity: the tags of one type are increasing but need not be consecutive (the cap faces
    # of a prism mesh, the segments of a cracked mesh)
    run_case("TRI3 fan over two ranks, element tags with gaps (7, 8, 20, 31)", ("Triangle 3", 2, 1, 3, Opaque("localCoords"), 3), tri3, [0, 1, 0, 1], None, tags=[7, 8, 20, 31])


def owned_rows_rule(ctx, rid="R20.13"):
    """'owned-row energies and reactions summed over parts equal the global ones': `Calc_Energy` and `Calc_Reaction` are
    interpreted on a symbolic 4-dof system.  Energy: the value handed to the reduction over ranks is 1/2 sum_{i in owned}
    x_i (A x)_i - rows restricted, columns complete - for explicit dofs and for the default (the owned dofs).  Reaction:
    for the static, first-order and second-order schemes, on one process and under MPI, with default and with requested
    dofs (filtered by ownership): entry i is (K u + C v + M a)_i on the requested owned rows, nothing elsewhere, reduced
    over ranks under MPI."""
    from types import SimpleNamespace

    from ..alg import Poly, Q, is_zero
    from ..xeval import Interp, XObj, Opaque, XRaise, EnumVal, FuncInfo
    from ..xarray import XArray

    repo = ctx.repo
    simu = repo.cls(SIMU)
    r = ctx.rule(rid, "owned rows interpreted: Calc_Energy reduces 1/2 sum_{i owned} x_i (A x)_i; Calc_Reaction returns (K u [+ C v [+ M a]])_i on the requested owned rows for every scheme kind, reduced under MPI", min_instances=10)
    n = 4
    sym = lambda nm: XArray((n, n), [Poly.var(f"{nm}{i}{j}") for i in range(n) for j in range(n)])
    vec = lambda nm: XArray((n,), [Poly.var(f"{nm}{i}") for i in range(n)])

    def hook(fn, args, kwargs):
        fi = fn if isinstance(fn, FuncInfo) else getattr(fn, "finfo", None)
        if fi is not None and fi.name == "Reduce_sum":
            return ("reduced", args[0])
        return NotImplemented

    # ---- energy
    fE = simu.methods["Calc_Energy"]
    A, x = sym("a"), vec("x")
    def enlarged(Mx, extra=2):
        """the operator as assembled when Lagrange conditions exist: `extra` empty multiplier rows and columns after the dofs"""
        m = n + extra
        return XArray((m, m), [Mx[i, j] if i < n and j < n else Q(0) for i in range(m) for j in range(m)])

    for label, dofs, owned, Aop in (("explicit dofs [1, 3]", XArray((2,), [1, 3], "i"), [0, 2], A), ("default dofs (owned = [0, 2])", None, [0, 2], A),
                                    ("operator enlarged by two Lagrange multipliers, dofs [1, 3]", XArray((2,), [1, 3], "i"), [0, 2], enlarged(A))):
        r.instance(fn=fE.qualname)
        I = Interp(repo)
        I.call_hook = hook
        obj = XObj(simu, {"Get_dofs": lambda pt=None: XArray((len(owned),), list(owned), "i")})
        try:
            out = I.call_function(fE, [Aop, x, dofs], self_obj=obj)
        except XRaise as e:
            r.fail(fE.qualname, f"energy:{label}", fE.file, fE.lineno, "Calc_Energy", f"{label}: raises {e}")
            continue
        rows = [1, 3] if dofs is not None else owned
        want = sum((x[i] * sum((A[i, j] * x[j] for j in range(n)), Poly()) for i in rows), Poly()) * Q(1, 2)
        if isinstance(out, tuple) and out[0] == "reduced" and is_zero(Poly.of(out[1]) - want):
            r.ok(f"Calc_Energy, {label}: reduced 1/2 x[d].(A[d] x)")
        else:
            r.fail(fE.qualname, f"energy:{label}", fE.file, fE.lineno, "Calc_Energy", f"{label}: the energy is {'reduced over ranks' if isinstance(out, tuple) else 'NOT reduced over ranks'} and its value is {(out[1] if isinstance(out, tuple) else out)!r}; expected the reduction of 1/2 sum over the owned rows {rows} of x_i (A x)_i (rows restricted, columns complete): the ghost layer is counted once per rank, or owned rows are missing")
    # ---- the default row set: the dofs of the OWNED nodes under MPI, of all nodes on one process
    fD = simu.methods["Get_dofs"]
    for mpi in (1, 2):
        r.instance(fn=fD.qualname)
        I = Interp(repo, extra_builtins={"MPI_SIZE": mpi})
        seen = {}
        mesh = SimpleNamespace(_Get_mpi_owned_nodes=lambda: "owned-nodes", nodes="all-nodes")
        obj = XObj(simu, {"mesh": mesh, "problemType": Opaque("pt"), "Get_unknowns": lambda pt=None: ["x", "y"],
                          "Bc_dofs_nodes": lambda nodes, unknowns, pt=None: seen.setdefault("nodes", nodes) and ("dofs-of", nodes)})
        try:
            out = I.call_function(fD, [], self_obj=obj)
        except XRaise as e:
            r.fail(fD.qualname, f"dofs:mpi{mpi}", fD.file, fD.lineno, "Get_dofs", f"MPI_SIZE = {mpi}: raises {e}")
            continue
        want = "owned-nodes" if mpi > 1 else "all-nodes"
        if out == ("dofs-of", want):
            r.ok(f"Get_dofs, MPI_SIZE = {mpi}: dofs of the {want}")
        else:
            r.fail(fD.qualname, f"dofs:mpi{mpi}", fD.file, fD.lineno, "Get_dofs", f"MPI_SIZE = {mpi}: the default dofs are built from {seen.get('nodes')!r}, expected the {want.replace('-', ' ')} of the mesh: owned-row sums run over the ghost layer too")
    # ---- reaction
    fR = simu.methods["Calc_Reaction"]
    K, C, M = sym("k"), sym("c"), sym("m")
    u, v, a = vec("u"), vec("v"), vec("a")
    algo_ci = None
    for nm in ("EasyFEA.Simulations._simu.AlgoType", "EasyFEA.Simulations.Solvers.AlgoType", "EasyFEA.Utilities._types.AlgoType"):
        try:
            algo_ci = repo.cls(nm)
            break
        except Exception:
            continue
    if algo_ci is None:
        algo_ci = next(c for c in repo.all_classes() if c.name == "AlgoType")
    mem = repo.enum_members(algo_ci.qualname)
    for algo, parts in (("elliptic", "K u"), ("parabolic", "K u + C v"), ("newmark", "K u + C v + M a"), ("midpoint", "K u + C v + M a"), ("elliptic+lagrange", "K u"), ("newmark+lagrange", "K u + C v + M a")):
        lag = algo.endswith("+lagrange")
        algo = algo.split("+")[0]
        for mpi in (1, 2):
            for label, dofs, owned in (("default dofs", None, [1, 2, 3]), ("requested [0, 1, 3], owned [1, 2, 3]", XArray((3,), [0, 1, 3], "i"), [1, 2, 3])):
                if lag and (mpi > 1 or dofs is None):
                    continue
                r.instance(fn=fR.qualname)
                I = Interp(repo, extra_builtins={"MPI_SIZE": mpi})
                I.call_hook = hook
                obj = XObj(simu, {
                    "Get_dofs": lambda pt=None: XArray((len(owned),), list(owned), "i"), "algo": EnumVal(algo_ci, algo, mem[algo]), "problemType": Opaque("pt"), "isNonLinear": False,
                    "Get_K_C_M_F": (lambda pt=None: (enlarged(K), enlarged(C), enlarged(M), Opaque("F"))) if lag else (lambda pt=None: (K, C, M, Opaque("F"))), "_Get_u_n": lambda pt=None, **k: u, "_Get_v_n": lambda pt=None, **k: v, "_Get_a_n": lambda pt=None, **k: a,
                })
                tag = f"{algo}{', operators enlarged by two Lagrange multipliers' if lag else ''}, MPI_SIZE = {mpi}, {label}"
                try:
                    out = I.call_function(fR, [dofs, Opaque("pt")], self_obj=obj)
                except XRaise as e:
                    r.fail(fR.qualname, f"reaction:{tag}", fR.file, fR.lineno, "Calc_Reaction", f"{tag}: raises {e}")
                    continue
                rows = owned if dofs is None else [1, 3]

                def row(i):
                    t = sum((K[i, j] * u[j] for j in range(n)), Poly())
                    if "C v" in parts:
                        t = t + sum((C[i, j] * v[j] for j in range(n)), Poly())
                    if "M a" in parts:
                        t = t + sum((M[i, j] * a[j] for j in range(n)), Poly())
                    return t

                if mpi > 1:
                    okr = isinstance(out, tuple) and out[0] == "reduced"
                    val = XArray.from_nested(out[1]) if okr else None
                    want = [row(i) if i in rows else Poly() for i in range(n)]
                else:
                    okr = not isinstance(out, tuple)
                    val = XArray.from_nested(out) if okr else None
                    want = [row(i) for i in rows]
                if okr and val.shape == (len(want),) and all(is_zero(Poly.of(g) - w) for g, w in zip(val.data, want)):
                    r.ok(f"Calc_Reaction, {tag}: {parts} on rows {rows}")
                else:
                    r.fail(fR.qualname, f"reaction:{algo}{'+lagrange' if lag else ''}:{mpi}:{'default' if dofs is None else 'requested'}", fR.file, fR.lineno, "Calc_Reaction", f"{tag}: the result is {'' if okr else 'not '}{'reduced over ranks' if mpi > 1 else 'returned per rank'} and is not ({parts}) on the requested owned rows {rows} (zero elsewhere): rows of the ghost layer are added once per rank, or a term of the scheme is missing")


def gmsh_session_rule(ctx, rid="R20.14"):
    """'splitting a mesh ... is reproducible': a split must not depend on what an earlier meshing call left in the gmsh
    session (options such as Mesh.SecondOrderIncomplete are set per element type and never reset).  Pairing rule over the
    mesher: every method that reads element groups out of the gmsh model (calls __Get_dict_groupElems) ENDS the session -
    gmsh.finalize() on every path that completes normally - so that the next call starts from gmsh.initialize().  The
    sibling entry points (_Mesh_Get_Mesh, _Mesh_Get_Meshes) must agree."""
    from ..flow import must_pass

    repo = ctx.repo
    mesher = repo.cls(MESHER)
    r = ctx.rule(rid, "gmsh session pairing: every mesher method that extracts the element groups from the gmsh model finalizes the session on every completing path (the next split starts from a fresh session)", min_instances=2)

    def calls(node, suffix):
        return any(isinstance(n, ast.Call) and (dotted(n.func) or "").endswith(suffix) for n in ast.walk(node))

    def finalizer_methods():
        # methods of the mesher that themselves end the session on every completing path (a helper such as self._Finalize())
        out = set()
        for nm, g in mesher.methods.items():
            direct = lambda st: not isinstance(st, (ast.If, ast.For, ast.While, ast.With, ast.Try)) and any(isinstance(n, ast.Call) and (dotted(n.func) or "") == "gmsh.finalize" for n in ast.walk(st))
            if not calls(g.node, "__Get_dict_groupElems") and must_pass(g.node.body, direct):
                out.add(g.node.name)
        return out

    helpers = finalizer_methods()

    def is_finalize(st):
        if isinstance(st, (ast.If, ast.For, ast.While, ast.With, ast.Try)):
            return False
        for n in ast.walk(st):
            if isinstance(n, ast.Call):
                d = dotted(n.func) or ""
                if d == "gmsh.finalize" or (d.startswith("self.") and d.split(".")[-1] in helpers):
                    return True
        return False

    for name, f in sorted(mesher.methods.items()):
        if f.cls is not mesher or name != f.node.name and not name.endswith(f.node.name):
            continue
        if not calls(f.node, "__Get_dict_groupElems") or f.node.name.endswith("__Get_dict_groupElems"):
            continue
        r.instance(fn=f.qualname)
        if must_pass(f.node.body, is_finalize):
            r.ok(f"{f.name}: gmsh.finalize() on every completing path")
        else:
            what = "gmsh.clear() is not the end of the session: options set for one element type (second-order incomplete, recombination, ...) survive" if calls(f.node, "gmsh.clear") else "the session stays open"
            r.fail(f.qualname, "session-not-finalized", f.file, f.lineno, f"Mesher.{f.node.name}", f"reads the element groups out of the gmsh model but does not end the gmsh session on every path ({what}): a later split of another element type inherits the options of this one and gives other groups, nodes and ownership for the same input")
