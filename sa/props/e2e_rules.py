"""End-to-end scenario rules (engine: sa/e2e.py).  Each rule runs user-level call sequences of the library, interpreted
from the source on small exact meshes with symbolic data, and compares with an independent reference written here
(Hooke's law, polygon measures, polynomial integrals over segments / boxes, scatter-add loops).  They complement the clause
rules of each property: a clause rule names one mechanism; a scenario does not care which mechanism broke the outcome.
"""

from __future__ import annotations

import ast
from fractions import Fraction as Q

from ..alg import Poly, Rat, is_zero
from ..e2e import TOPO, Undecided, World, build_mesh_data, grid_cells, polys, run_scenarios, same, topo_of
from ..repo import AnalysisError
from ..xarray import XArray
from ..xeval import XRaise

ISO = "EasyFEA.Models.Elastic._laws.Isotropic"
ELASTIC = "EasyFEA.Simulations._elastic.Elastic"
THERMAL_M = "EasyFEA.Models._thermal.Thermal"
THERMAL = "EasyFEA.Simulations._thermal.Thermal"
SIMU = "EasyFEA.Simulations._simu._Simu"

E_, NU_ = Q(3), Q(1, 4)
APPROX_RULE_ELEMS = {"TRI10", "TRI15", "TETRA10", "PRISM15", "PRISM18", "HEXA20", "HEXA27"}  # decimal quadrature tables


def close(a, b, tol=Q(1, 10**9)):
    """equality up to the round-off of decimal quadrature literals: every coefficient of the difference below tol"""
    from ..e2e import _num

    d = Poly.of(_num(a)) - Poly.of(_num(b))
    return all(abs(c) <= tol for c in d.t.values()) if hasattr(d, "t") else is_zero(d)


MASS_APPROX = APPROX_RULE_ELEMS | {"TRI6"}


def eq_for(elem, mass=False):
    parts = MIXED.get(elem, (elem,))
    return close if any(e in (MASS_APPROX if mass else APPROX_RULE_ELEMS) for e in parts) else same


# ---------------------------------------------------------------------------------------------------------------------
def warp2(x, y, z):
    # moves the interior vertices of a 2 x 2 box grid of size 2 x 1 (the domain keeps its shape)
    if (x, y) == (Q(1), Q(1, 2)):
        return (x + Q(1, 7), y + Q(1, 9), z)
    return (x, y, z)


def warp3(x, y, z):
    if (x, y, z) == (Q(1), Q(1, 2), Q(1, 2)):
        return (x + Q(1, 7), y + Q(1, 11), z + Q(1, 9))
    return (x, y, z)


MIXED = {"TRI3+QUAD4": ("TRI3", "QUAD4"), "TRI6+QUAD8": ("TRI6", "QUAD8")}


def domain_mesh(W, elem, warped=True, n=2, perm=None):
    if elem in MIXED:
        # the left half of the box in triangles, the right half in quadrangles (two main-dimension groups sharing an edge)
        et, eq_ = MIXED[elem]
        tri = grid_cells("TRI", 1, 2, lx=1, ly=1, warp=None)
        quad = [[tuple([v[0] + 1] + list(v[1:])) for v in c] for c in grid_cells("QUAD", 1, 2, lx=1, ly=1)]
        md = build_mesh_data(W.lib, [(et, tri), (eq_, quad)], None)
        if perm is not None:
            md = permuted(md, perm)
        return md, W.mesh(md)
    topo = topo_of(elem)
    dim = TOPO[topo]["dim"]
    if dim == 1:
        cells = grid_cells(topo, 3, lx=2)
    elif dim == 2:
        cells = grid_cells(topo, n, n, lx=2, ly=1, warp=warp2 if warped and n == 2 else None)
    else:
        cells = grid_cells(topo, n, n, n, lx=2, ly=1, lz=1, warp=warp3 if warped and n == 2 else None)
    md = build_mesh_data(W.lib, elem, cells)
    if perm is not None:
        md = permuted(md, perm)
    return md, W.mesh(md)


def permuted(md, perm):
    """the same mesh with node k renumbered perm(k)"""
    from ..e2e import MeshData

    p = perm(md.Nn)
    out = MeshData()
    out.dim = md.dim
    out.coords = [None] * md.Nn
    for k, c in enumerate(md.coords):
        out.coords[p[k]] = c
    out.index = {c: k for k, c in enumerate(out.coords)}
    out.groups = {g: [[p[n] for n in row] for row in rows] for g, rows in md.groups.items()}
    out.perm = p
    return out


def boundary_nodes(W, md, pred=None):
    out = set()
    for k, rows in md.groups.items():
        if W.lib.gmsh[k]["dim"] == md.dim - 1:
            for r in rows:
                for n in r:
                    if pred is None or pred(md.coords[n]):
                        out.add(n)
    return sorted(out)


def iarr(nodes):
    return XArray((len(nodes),), list(nodes), "i")


def elastic(W, mesh, dim, planeStress=True, thickness=Q(1, 2), E=E_, v=NU_):
    if dim == 2:
        mat = W.new(ISO, dim, E=E, v=v, planeStress=planeStress, thickness=thickness)
    else:
        mat = W.new(ISO, dim, E=E, v=v)
    return mat, W.new(ELASTIC, mesh, mat)


def hooke(dim, grad, planeStress=True, E=E_, v=NU_):
    """reference (written here): strain and stress components [xx, yy, (zz), (yz, xz), xy] of the displacement gradient"""
    e = [[(grad[i][j] + grad[j][i]) / 2 for j in range(dim)] for i in range(dim)]
    lam = E * v / ((1 + v) * (1 - 2 * v))
    mu = E / (2 * (1 + v))
    if dim == 2 and planeStress:
        lam = 2 * mu * lam / (lam + 2 * mu)
    tr = sum((e[i][i] for i in range(dim)), Poly.const(0))
    s = [[2 * mu * e[i][j] + (lam * tr if i == j else 0) for j in range(dim)] for i in range(dim)]
    w = sum((s[i][j] * e[i][j] for i in range(dim) for j in range(dim)), Poly.const(0)) / 2
    return e, s, w


COMP2 = {"xx": (0, 0), "yy": (1, 1), "xy": (0, 1)}
COMP3 = {"xx": (0, 0), "yy": (1, 1), "zz": (2, 2), "yz": (1, 2), "xz": (0, 2), "xy": (0, 1)}


def linear_field(dim, tag="g"):
    coef = [[Poly.var(f"{tag}{'xyz'[i]}{j}") for j in range(dim + 1)] for i in range(dim)]
    f = lambda i, X: coef[i][0] + sum((coef[i][k + 1] * X[k] for k in range(dim)), Poly.const(0))
    grad = [[coef[i][k + 1] for k in range(dim)] for i in range(dim)]
    return f, grad


def prescribe(W, simu, md, nodes, f, dim, unknowns=None):
    unknowns = unknowns or ["x", "y", "z"][:dim]
    vals = [XArray((len(nodes),), [f(i, md.coords[n]) for n in nodes]) for i in range(len(unknowns))]
    W.call(simu, "add_dirichlet", iarr(nodes), vals, unknowns)


def src_lambda(W, src):
    """a callable of the scenario written as source and interpreted like the library's own code"""
    return W.I.eval_expr(ast.parse(src, mode="eval").body, {}, "<scenario>", W.repo.module("EasyFEA.Simulations._simu"))


def domain_measure(dim):
    return {1: Q(2), 2: Q(2), 3: Q(2)}[dim]


# ---------------------------------------------------------------------------------------------------------------------
# C01: the patch test, end to end
def patch_test_rule(ctx, rid="R1.E1", elems=None, thorough_elems=()):
    repo = ctx.repo
    only = elems is not None
    elems = list(elems or ["TRI3", "QUAD4", "TRI6", "QUAD8", "QUAD9", "TETRA4", "HEXA8", "PRISM6"])
    if ctx.tier == "thorough":
        elems += list(thorough_elems)
    r = ctx.rule(rid, "patch test interpreted end to end (mesh, material, Elastic simulation, add_dirichlet, Solve, Result): a symbolic linear displacement prescribed on the boundary of a distorted mesh is reproduced at every node; strains, stresses and the strain energy are those of the constant gradient (reference: Hooke's law written in the checker), for every linear field at once", min_instances=2 if only else 6)
    solve = repo.lookup_method(repo.cls(ELASTIC), "Solve")
    W0 = World(repo)

    def scenario(elem, planeStress=True):
        def thunk():
            W = World(repo, lib=W0.lib)
            eq = eq_for(elem)
            md, mesh = domain_mesh(W, elem)
            dim = md.dim
            mat, simu = elastic(W, mesh, dim, planeStress=planeStress)
            f, grad = linear_field(dim)
            bn = boundary_nodes(W, md)
            if len(bn) == md.Nn:
                return "scenario error: no free node"
            prescribe(W, simu, md, bn, f, dim)
            u = W.call(simu, "Solve")
            u = polys(u)
            for n in range(md.Nn):
                for i in range(dim):
                    if not eq(u[n * dim + i], f(i, md.coords[n])):
                        return f"{elem}, {'plane stress' if planeStress else 'plane strain / 3-D'}: node {n} at {tuple(str(c) for c in md.coords[n][:dim])}{' (free)' if n not in bn else ' (prescribed)'}: u{'xyz'[i]} = {u[n * dim + i]} but the linear field is {f(i, md.coords[n])}"
            e, s, w = hooke(dim, grad, planeStress)
            comps = COMP2 if dim == 2 else COMP3
            for nm, (i, j) in comps.items():
                for pre, ref in (("E", e), ("S", s)):
                    for nodeValues in (True, False):
                        got = polys(W.call(simu, "Result", pre + nm, nodeValues))
                        for k, g in enumerate(got):
                            if not eq(g, ref[i][j]):
                                return f"{elem}: Result('{pre}{nm}', nodeValues={nodeValues})[{k}] = {g}, the constant field has {pre}{nm} = {Poly.of(ref[i][j])}"
            wd = W.call(simu, "Result", "Wdef")
            vol = domain_measure(dim) * (Q(1, 2) if dim == 2 else 1)
            if not eq(wd, w * vol):
                return f"{elem}: Result('Wdef') = {polys(wd)[0]}, the strain energy of the constant field is {Poly.of(w * vol)}"
            return None

        return (f"patch test {elem}{'' if planeStress else ' plane strain'}", solve, thunk)

    scen = [scenario(e) for e in elems] + ([] if only else [scenario("TRI3", False), scenario("QUAD4", False), scenario("TRI3+QUAD4"), scenario("TRI6+QUAD8")])
    run_scenarios(ctx, r, scen)


def thermal_patch_rule(ctx, rid="R1.E2"):
    repo = ctx.repo
    r = ctx.rule(rid, "thermal patch test end to end (Thermal simulation, conduction k, thickness): a symbolic linear temperature prescribed on the boundary is reproduced at every node, 1-D / 2-D / 3-D", min_instances=4)
    solve = repo.lookup_method(repo.cls(THERMAL), "Solve")
    W0 = World(repo)

    def scenario(elem):
        def thunk():
            W = World(repo, lib=W0.lib)
            md, mesh = domain_mesh(W, elem)
            dim = md.dim
            mat = W.new(THERMAL_M, k=Q(5, 2), c=Q(3), thickness=Q(3, 4))
            simu = W.new(THERMAL, mesh, mat)
            c = [Poly.var(f"t{j}") for j in range(dim + 1)]
            T = lambda X: c[0] + sum((c[k + 1] * X[k] for k in range(dim)), Poly.const(0))
            bn = boundary_nodes(W, md)
            W.call(simu, "add_dirichlet", iarr(bn), [XArray((len(bn),), [T(md.coords[n]) for n in bn])], ["t"])
            u = polys(W.call(simu, "Solve"))
            for n in range(md.Nn):
                if not same(u[n], T(md.coords[n])):
                    return f"{elem}: node {n}: T = {u[n]}, the linear field is {T(md.coords[n])}"
            return None

        return (f"thermal patch test {elem}", solve, thunk)

    run_scenarios(ctx, r, [scenario(e) for e in ("SEG2", "SEG3", "TRI3", "QUAD4", "TRI6", "TETRA4")])


# ---------------------------------------------------------------------------------------------------------------------
def dense(sp, n=None):
    from ..xsparse import XSp

    if isinstance(sp, XSp):
        a = sp.toarray()
    else:
        a = XArray.from_nested(sp)
    return [[a[i, j] for j in range(a.shape[1])] for i in range(a.shape[0])]


def rank_q(rows):
    rows = [[Q(v) if isinstance(v, (int, Q)) else _qq(v) for v in r] for r in rows]
    rk, ncol = 0, len(rows[0]) if rows else 0
    for c in range(ncol):
        p = next((i for i in range(rk, len(rows)) if rows[i][c] != 0), None)
        if p is None:
            continue
        rows[rk], rows[p] = rows[p], rows[rk]
        pv = rows[rk][c]
        for i in range(rk + 1, len(rows)):
            if rows[i][c] != 0:
                f = rows[i][c] / pv
                rows[i] = [a - f * b for a, b in zip(rows[i], rows[rk])]
        rk += 1
    return rk


def _qq(v):
    from ..e2e import _num

    v = _num(v)
    if isinstance(v, Poly):
        if not v.is_const():
            raise AnalysisError("symbolic entry in a numeric matrix")
        v = v.const_value()
    from ..alg import MQ

    if isinstance(v, MQ):
        return v.rational() if v.is_rational() else v  # numbers of Q(sqrt d): exact arithmetic and exact sign
    return Q(v)


def ldl_pivots(rows):
    """pivots of the symmetric elimination without pivoting (all > 0 iff the matrix is positive definite)"""
    a = [[_qq(v) for v in r] for r in rows]
    n = len(a)
    piv = []
    for c in range(n):
        p = a[c][c]
        piv.append(p)
        if p == 0:
            return piv
        for i in range(c + 1, n):
            if a[i][c] != 0:
                f = a[i][c] / p
                for k in range(c, n):
                    a[i][k] -= f * a[c][k]
    return piv


def rigid_modes(md):
    dim = md.dim
    modes = []
    for i in range(dim):
        modes.append([Q(1) if k == i else Q(0) for _ in range(md.Nn) for k in range(dim)])
    if dim == 2:
        modes.append([v for c in md.coords for v in (-c[1], c[0])])
    elif dim == 3:
        modes.append([v for c in md.coords for v in (Q(0), -c[2], c[1])])
        modes.append([v for c in md.coords for v in (c[2], Q(0), -c[0])])
        modes.append([v for c in md.coords for v in (-c[1], c[0], Q(0))])
    return modes


# C02: assembled operators on real (small) meshes
def operators_rule(ctx, rid="R2.E1"):
    repo = ctx.repo
    r = ctx.rule(rid, "assembled elastic K and M of distorted meshes, end to end and in exact arithmetic: K = K^T, K annihilates exactly the rigid-body motions and has rank Ndof - (3 | 6); M = M^T is positive definite (exact LDL^T pivots) and carries the mass rho * measure * thickness in every direction; thermal K has the constants as kernel", min_instances=5)
    kcmf = repo.lookup_method(repo.cls(ELASTIC), "Get_K_C_M_F")
    W0 = World(repo)

    def scenario(elem):
        def thunk():
            W = World(repo, lib=W0.lib)
            eq = eq_for(elem)
            md, mesh = domain_mesh(W, elem)
            dim = md.dim
            th = Q(1, 2)
            mat, simu = elastic(W, mesh, dim, thickness=th)
            W.set(simu, "rho", Q(7, 3))
            K, C, M, F = W.call(simu, "Get_K_C_M_F")
            Kd, Md = dense(K), dense(M)
            n = md.Nn * dim
            if len(Kd) != n or len(Md) != n:
                return f"{elem}: K is {len(Kd)} x {len(Kd[0])}, expected {n}"
            eqm = eq_for(elem, mass=True)
            for name, A in (("K", Kd), ("M", Md)):
                for i in range(n):
                    for j in range(i):
                        if not (eqm if name == "M" else eq)(A[i][j], A[j][i]):
                            return f"{elem}: {name}[{i},{j}] = {A[i][j]} but {name}[{j},{i}] = {A[j][i]}: not symmetric"
            for k, m in enumerate(rigid_modes(md)):
                for i in range(n):
                    s = sum((Kd[i][j] * m[j] for j in range(n)), Q(0))
                    if not eq(s, 0):
                        return f"{elem}: K applied to rigid-body mode {k} gives {polys(s)[0]} at dof {i}: a rigid motion stores strain energy"
            if eqm is same:
                rk = rank_q(Kd)
                nr = 3 if dim == 2 else 6
                if rk != n - nr:
                    return f"{elem}: rank K = {rk}, expected {n} - {nr} = {n - nr}: {'spurious zero-energy modes' if rk < n - nr else 'a rigid mode is not in the kernel'}"
                piv = ldl_pivots(Md)
                if any(p <= 0 for p in piv):
                    return f"{elem}: M is not positive definite (elimination pivot {[str(p) for p in piv if p <= 0][0]})"
            total = domain_measure(dim) * (th if dim == 2 else 1) * Q(7, 3)
            for c in range(dim):
                s = sum((Md[i][j] for i in range(c, n, dim) for j in range(c, n, dim)), Q(0))
                if not eqm(s, total):
                    return f"{elem}: the mass matrix sums to {polys(s)[0]} in direction {'xyz'[c]}, the body weighs rho * measure * thickness = {total}"
                for c2 in range(dim):
                    if c2 != c:
                        s = sum((Md[i][j] for i in range(c, n, dim) for j in range(c2, n, dim)), Q(0))
                        if not eqm(s, 0):
                            return f"{elem}: the mass matrix couples the directions {'xyz'[c]} and {'xyz'[c2]} (block sum {polys(s)[0]})"
            # the density changed on the SAME simulation (after an assembly): M carries the new mass
            W.set(simu, "rho", Q(5))
            Md2 = dense(W.call(simu, "Get_K_C_M_F")[2], n)
            total2 = domain_measure(dim) * (th if dim == 2 else 1) * Q(5)
            s = sum((Md2[i][j] for i in range(0, n, dim) for j in range(0, n, dim)), Q(0))
            if not eqm(s, total2):
                return f"{elem}: after `simu.rho = 5` on the assembled simulation the mass matrix sums to {polys(s)[0]} in direction x, the body weighs rho * measure * thickness = {total2} (an element matrix of the old density is kept)"
            return None

        return (f"operators {elem}", kcmf, thunk)

    def thermal(elem):
        def thunk():
            W = World(repo, lib=W0.lib)
            md, mesh = domain_mesh(W, elem)
            dim = md.dim
            mat = W.new(THERMAL_M, k=Q(5, 2), c=Q(3), thickness=Q(3, 4))
            simu = W.new(THERMAL, mesh, mat)
            W.set(simu, "rho", Q(2))
            K, C, M, F = W.call(simu, "Get_K_C_M_F")
            Kd, Cd = dense(K), dense(C)
            n = md.Nn
            for i in range(n):
                for j in range(i):
                    if not same(Kd[i][j], Kd[j][i]):
                        return f"thermal {elem}: K not symmetric at ({i},{j})"
                if not same(sum(Kd[i], Q(0)), 0):
                    return f"thermal {elem}: row {i} of K sums to {sum(Kd[i], Q(0))}: a constant temperature conducts heat"
            if rank_q(Kd) != n - 1:
                return f"thermal {elem}: rank K = {rank_q(Kd)}, expected {n - 1}"
            tot = sum((v for row in Cd for v in row), Q(0))
            want = Q(2) * Q(3) * domain_measure(dim) * (Q(3, 4) if dim == 2 else 1)
            if not same(tot, want):
                return f"thermal {elem}: the capacity matrix sums to {tot}, expected rho c measure thickness = {want}"
            return None

        return (f"thermal operators {elem}", repo.lookup_method(repo.cls(THERMAL), "Get_K_C_M_F"), thunk)

    elems = ["TRI3", "QUAD4", "TRI6", "QUAD8", "TETRA4", "TRI3+QUAD4"] + (["QUAD9", "HEXA8", "PRISM6"] if ctx.tier == "thorough" else [])
    run_scenarios(ctx, r, [scenario(e) for e in elems] + [thermal("TRI3"), thermal("QUAD4"), thermal("SEG3"), thermal("TRI3+QUAD4")])


# ---------------------------------------------------------------------------------------------------------------------
# C03: assembly == scatter-add, permutation equivariance
def assembly_rule(ctx, rid="R3.E1"):
    repo = ctx.repo
    r = ctx.rule(rid, "assembly end to end: the K, M, F returned by Get_K_C_M_F equal the scatter-add (written in the checker, dof = node * dim + component) of the element arrays Construct_local_matrix_system returns; renumbering the nodes permutes K and the solution and changes nothing else", min_instances=3)
    kcmf = repo.lookup_method(repo.cls(SIMU), "Get_K_C_M_F")
    W0 = World(repo)

    def scatter(elem):
        def thunk():
            W = World(repo, lib=W0.lib)
            eq = eq_for(elem)
            md, mesh = domain_mesh(W, elem)
            dim = md.dim
            mat, simu = elastic(W, mesh, dim)
            W.set(simu, "rho", Q(7, 3))
            loc = W.call(simu, "Construct_local_matrix_system", "elastic")
            K, C, M, F = W.call(simu, "Get_K_C_M_F")
            n = md.Nn * dim
            for name, slot, A in (("K", 0, K), ("M", 2, M)):
                ref = {}
                nblocks = 0
                for g, v in (loc.items() if isinstance(loc, dict) else []):
                    if v[slot] is None:
                        continue
                    nblocks += 1
                    gname = str(getattr(W.get(g, "elemType"), "name", W.get(g, "elemType")))
                    rows = md.groups[gname]
                    B = XArray.from_nested(v[slot])
                    nd = len(rows[0]) * dim
                    if B.shape != (len(rows), nd, nd):
                        return f"{elem}: element {name} of group {gname} has shape {B.shape}, expected {(len(rows), nd, nd)}"
                    for e, row in enumerate(rows):
                        dofs = [nn * dim + c for nn in row for c in range(dim)]
                        for a in range(nd):
                            for b in range(nd):
                                key = (dofs[a], dofs[b])
                                ref[key] = ref.get(key, 0) + B[e, a, b]
                if nblocks != (2 if elem in MIXED else 1):
                    return f"{elem}: {nblocks} element blocks for {name}"
                Ad = dense(A)
                for i in range(n):
                    for j in range(n):
                        if not eq(Ad[i][j], ref.get((i, j), 0)):
                            return f"{elem}: assembled {name}[{i},{j}] = {polys(Ad[i][j])[0]} but the element entries with that (row, column) add up to {polys(ref.get((i, j), 0))[0]}"
            return None

        return (f"scatter-add {elem}", kcmf, thunk)

    def renumber(elem):
        def thunk():
            Wa, Wb = World(repo, lib=W0.lib), World(repo, lib=W0.lib)
            eq = eq_for(elem)
            rev = lambda n: [(5 * k + 3) % n if n % 5 else n - 1 - k for k in range(n)]
            sols = []
            for W, perm in ((Wa, None), (Wb, rev)):
                md, mesh = domain_mesh(W, elem, perm=perm)
                dim = md.dim
                mat, simu = elastic(W, mesh, dim)
                left = boundary_nodes(W, md, lambda c: c[0] == 0)
                right = boundary_nodes(W, md, lambda c: c[0] == 2)
                prescribe(W, simu, md, left, lambda i, X: Poly.const(0), dim)
                W.call(simu, "add_surfLoad", iarr(right), [Poly.var("p"), Poly.var("q")], ["x", "y"])
                u = polys(W.call(simu, "Solve"))
                sols.append((md, u, dense(W.call(simu, "Get_K_C_M_F")[0])))
            (ma, ua, Ka), (mb, ub, Kb) = sols
            p = mb.perm
            dim = ma.dim
            for n in range(ma.Nn):
                for c in range(dim):
                    if not eq(ua[n * dim + c], ub[p[n] * dim + c]):
                        return f"{elem}: node {n} renumbered {p[n]}: u{'xyz'[c]} = {ua[n * dim + c]} before, {ub[p[n] * dim + c]} after the renumbering"
            for i in range(ma.Nn * dim):
                for j in range(ma.Nn * dim):
                    i2, j2 = p[i // dim] * dim + i % dim, p[j // dim] * dim + j % dim
                    if not eq(Ka[i][j], Kb[i2][j2]):
                        return f"{elem}: K[{i},{j}] = {Ka[i][j]} but the renumbered mesh has {Kb[i2][j2]} at the renumbered position"
            return None

        return (f"renumbering {elem}", kcmf, thunk)

    run_scenarios(ctx, r, [scatter("TRI3"), scatter("QUAD8"), scatter("TETRA4"), scatter("TRI3+QUAD4"), renumber("TRI3"), renumber("QUAD4"), renumber("TRI6"), renumber("TRI3+QUAD4")])


# ---------------------------------------------------------------------------------------------------------------------
def general_problem(W, elem, solver=None, perm=None, lagrange=False):
    """clamped on x = 0, traction (p, q) on x = 2, body force (bx, by): a generic FE solution with symbolic loads"""
    md, mesh = domain_mesh(W, elem, perm=perm)
    dim = md.dim
    mat, simu = elastic(W, mesh, dim)
    if solver is not None:
        W.set(simu, "solver", solver)
    left = boundary_nodes(W, md, lambda c: c[0] == 0)
    right = boundary_nodes(W, md, lambda c: c[0] == 2)
    W.call(simu, "add_dirichlet", iarr(left), [Poly.var("d0"), Q(0)] + ([Q(0)] if dim == 3 else []), ["x", "y", "z"][:dim])
    W.call(simu, "add_surfLoad", iarr(right), [Poly.var("p"), Poly.var("q")], ["x", "y"])
    alln = iarr(range(md.Nn))
    W.call(simu, "add_volumeLoad", alln, [Poly.var("bx")], ["x"])
    return md, mesh, mat, simu, left, right


# C04: constraints and residual
def solve_rule(ctx, rid="R4.E1"):
    repo = ctx.repo
    r = ctx.rule(rid, "Solve end to end with symbolic loads (clamp with a prescribed displacement, boundary traction, body force): prescribed dofs take their values exactly, K u = F on every free dof, for every selectable linear backend (each replaced by an exact solve of the system it is handed)", min_instances=4)
    solve = repo.lookup_method(repo.cls(SIMU), "Solve")
    W0 = World(repo)
    solvers = list(repo.enum_members("EasyFEA.Simulations.Solvers.SolverType"))

    def scenario(elem, solver):
        def thunk():
            W = World(repo, lib=W0.lib, extra={"CAN_USE_PYPARDISO": False, "CAN_USE_PETSC": False})
            eq = eq_for(elem)
            md, mesh, mat, simu, left, right = general_problem(W, elem, solver=W.enum("EasyFEA.Simulations.Solvers.SolverType", solver) if solver else None)
            dim = md.dim
            u = polys(W.call(simu, "Solve"))
            for n in left:
                want = [Poly.var("d0"), Poly.const(0), Poly.const(0)]
                for c in range(dim):
                    if not eq(u[n * dim + c], want[c]):
                        return f"{elem}, solver {solver}: prescribed dof ({n}, {'xyz'[c]}) = {u[n * dim + c]}, prescribed value {want[c]}"
            K, C, M, F = W.call(simu, "Get_K_C_M_F")
            Kd = dense(K)
            Fd = polys(F.toarray() if hasattr(F, "toarray") else F)
            vec = W.call(simu, "Bc_vector_Neumann", "elastic")
            Fd = [a + b for a, b in zip(Fd, polys(vec.toarray() if hasattr(vec, "toarray") else vec))]
            fixed = {n * dim + c for n in left for c in range(dim)}
            nz = False
            for i in range(md.Nn * dim):
                if i in fixed:
                    continue
                res = sum((Kd[i][j] * u[j] for j in range(len(u))), Poly.const(0)) - Fd[i]
                if not eq(res, 0):
                    return f"{elem}, solver {solver}: residual (K u - F)[{i}] = {res} on a free dof"
                nz = nz or not is_zero(Fd[i])
            if not nz:
                return f"{elem}: scenario error: no load on the free dofs"
            return None

        return (f"solve {elem} [{solver or 'default'}]", solve, thunk)

    def duplicates(elem):
        def thunk():
            W = World(repo, lib=W0.lib)
            md, mesh = domain_mesh(W, elem)
            dim = md.dim
            mat, simu = elastic(W, mesh, dim)
            left = boundary_nodes(W, md, lambda c: c[0] == 0)
            right = boundary_nodes(W, md, lambda c: c[0] == 2)
            W.call(simu, "add_dirichlet", iarr(left), [Q(0)] * dim, ["x", "y", "z"][:dim])
            v, w = Poly.var("v"), Poly.var("w")
            # the same condition entered twice, then a different value on one of the nodes: a dof holds the SUM of its entries
            W.call(simu, "add_dirichlet", iarr(right), [v], ["x"])
            W.call(simu, "add_dirichlet", iarr(right), [v], ["x"])
            W.call(simu, "add_dirichlet", iarr(right[:1]), [w], ["x"])
            u = polys(W.call(simu, "Solve"))
            for k, nn in enumerate(right):
                want = 2 * v + (w if k == 0 else 0)
                if not same(u[nn * dim], want):
                    return f"{elem}: ux of node {nn} was entered as v, v{' and w' if k == 0 else ''}: the solution holds {u[nn * dim]}, the documented convention is the sum {want}"
            # a condition added after a solve (no Bc_Init) is honoured by the next solve
            top = [nn for nn in boundary_nodes(W, md, lambda c: c[1] == 1) if nn not in left and nn not in right]
            W.call(simu, "add_dirichlet", iarr(top), [Poly.var("t")], ["y"])
            u = polys(W.call(simu, "Solve"))
            for nn in top:
                if not same(u[nn * dim + 1], Poly.var("t")):
                    return f"{elem}: uy of node {nn}, prescribed (value t) after a first solve, is {u[nn * dim + 1]} after the next solve"
            for k, nn in enumerate(right):
                if not same(u[nn * dim], 2 * v + (w if k == 0 else 0)):
                    return f"{elem}: after a further condition was added, ux of node {nn} is {u[nn * dim]}"
            # the conditions are cleared and replaced by ANOTHER set with as many dofs and the same sum of dof numbers
            D1 = sorted(nn * dim + c for nn in left for c in range(dim))
            D2 = None
            for a_ in D1:
                for b_ in D1:
                    if a_ < b_ and a_ + 1 not in D1 and b_ - 1 not in D1 and a_ + 1 != b_ - 1 and D2 is None:
                        D2 = sorted((set(D1) - {a_, b_}) | {a_ + 1, b_ - 1})
            if D2 is not None:
                for dofs in (D1, D2):
                    W.call(simu, "Bc_Init")
                    vals = {dd: Poly.var(f"s{dd}") for dd in dofs}
                    for dd in dofs:
                        W.call(simu, "add_dirichlet", iarr([dd // dim]), [vals[dd]], ["xyz"[dd % dim]])
                    W.call(simu, "add_surfLoad", iarr(right), [Poly.var("p")], ["x"])
                    u = polys(W.call(simu, "Solve"))
                    for dd in dofs:
                        if not same(u[dd], vals[dd]):
                            return f"{elem}: conditions replaced by the set of dofs {dofs} (after {D1}: as many dofs, the same sum of dof numbers): dof {dd} holds {u[dd]}, prescribed {vals[dd]}"
            return None

        return (f"duplicate and incremental conditions {elem}", solve, thunk)

    scen = [scenario("TRI3", None), scenario("QUAD4", None), scenario("TRI6", None), scenario("TETRA4", None)]
    scen += [scenario("TRI3", s) for s in solvers if s not in ("petsc", "pypardiso", "lsq_linear")]
    scen += [duplicates("TRI3"), duplicates("QUAD4")]
    run_scenarios(ctx, r, scen)


# ---------------------------------------------------------------------------------------------------------------------
def poly_integral_box(p: Poly, dim):
    """integral of a polynomial in X, Y, Z over [0,2] x [0,1] (x [0,1])"""
    tot = Q(0)
    L = {"X": Q(2), "Y": Q(1), "Z": Q(1)}
    for mono, c in p.t.items():
        d = dict(mono)
        v = Q(c)
        for ax in ("X", "Y", "Z")[:dim]:
            k = d.pop(ax, 0)
            v *= L[ax] ** (k + 1) / (k + 1)
        if d:
            raise AnalysisError("symbol in a numeric integrand")
        tot += v
    return tot


# C09: loads
def loads_rule(ctx, rid="R9.E1"):
    repo = ctx.repo
    r = ctx.rule(rid, "distributed loads end to end (add_lineLoad / add_surfLoad / add_volumeLoad / add_neumann with constant, callable and nodal-array densities, Elastic and Thermal): the assembled right-hand side has the resultant and the moment of the exact integral of the density (polynomial integrals written in the checker) times the thickness in 2-D, on every element type", min_instances=6)
    W0 = World(repo)
    anchor = repo.lookup_method(repo.cls(SIMU), "add_surfLoad")

    def scenario(elem, kind):
        def thunk():
            W = World(repo, lib=W0.lib)
            eq = close  # several mass rules are tabulated as 15-digit decimals: equality up to 1e-9, stated
            md, mesh = domain_mesh(W, elem)
            dim = md.dim
            th = Q(1, 2)
            mat, simu = elastic(W, mesh, dim, thickness=th)
            fac = th if dim == 2 else Q(1)
            X, Y, Z = Poly.var("X"), Poly.var("Y"), Poly.var("Z")
            order = W.lib.gmsh[MIXED.get(elem, (elem,))[0]]["order"]
            if kind == "volume-callable":
                # body force density of the polynomial degree the element integrates exactly with its mass rule
                dens = {1: "lambda x, y, z: 3 + 2 * x - y", 2: "lambda x, y, z: 3 + 2 * x * y - y * y"}[min(order, 2)]
                pd = {1: 3 + 2 * X - Y, 2: 3 + 2 * X * Y - Y * Y}[min(order, 2)]
                nodes = iarr(range(md.Nn))
                W.call(simu, "add_volumeLoad", nodes, [src_lambda(W, dens)], ["y"])
                want_res = [Q(0), poly_integral_box(pd, dim) * fac, Q(0)]
                want_mz = poly_integral_box(pd * X, dim) * fac
            elif kind == "volume-array":
                nodes = iarr(range(md.Nn))
                vals = XArray((md.Nn,), [3 + 2 * c[0] - c[1] for c in md.coords])
                W.call(simu, "add_volumeLoad", nodes, [vals], ["y"])
                pd = 3 + 2 * X - Y
                want_res = [Q(0), poly_integral_box(pd, dim) * fac, Q(0)]
                want_mz = poly_integral_box(pd * X, dim) * fac
            elif kind == "edge-constant":
                right = boundary_nodes(W, md, lambda c: c[0] == 2)
                W.call(simu, "add_surfLoad", iarr(right), [Poly.var("p"), Poly.var("q")], ["x", "y"])
                meas = Q(1)  # the side x = 2 has length 1 (area 1 x 1 in 3-D)
                want_res = [Poly.var("p") * meas * fac, Poly.var("q") * meas * fac, Q(0)]
                want_mz = (2 * Poly.var("q") - Q(1, 2) * Poly.var("p")) * meas * fac
            elif kind == "edge-callable":
                right = boundary_nodes(W, md, lambda c: c[0] == 2)
                dens = "lambda x, y, z: 1 + 3 * y" if order == 1 else "lambda x, y, z: 1 + 3 * y * y"
                W.call(simu, "add_surfLoad", iarr(right), [src_lambda(W, dens)], ["x"])
                if order == 1:
                    want_res, want_mz = [Q(5, 2), Q(0), Q(0)], -(Q(1, 2) + Q(1))  # int (1+3y) = 5/2 ; int y (1+3y) = 1/2 + 1
                else:
                    want_res, want_mz = [Q(2), Q(0), Q(0)], -(Q(1, 2) + Q(3, 4))  # int (1+3y^2) = 2 ; int y (1+3y^2) = 1/2 + 3/4
                want_res = [w * fac for w in want_res]
                want_mz = want_mz * fac
            elif kind == "line-constant":
                right = boundary_nodes(W, md, lambda c: c[0] == 2)
                W.call(simu, "add_lineLoad", iarr(right), [Poly.var("p"), Poly.var("q")], ["x", "y"])
                want_res = [Poly.var("p"), Poly.var("q"), Q(0)]  # force per unit length: no thickness
                want_mz = 2 * Poly.var("q") - Q(1, 2) * Poly.var("p")
            elif kind == "point":
                right = boundary_nodes(W, md, lambda c: c[0] == 2)
                W.call(simu, "add_neumann", iarr(right), [Poly.var("p")], ["y"])
                want_res = [Q(0), Poly.var("p"), Q(0)]
                want_mz = 2 * Poly.var("p")
            elif kind == "point-yx":
                # unknowns listed in another order than the canonical one: values[i] belongs to unknowns[i]
                right = boundary_nodes(W, md, lambda c: c[0] == 2)
                W.call(simu, "add_neumann", iarr(right), [Poly.var("q"), Poly.var("p")], ["y", "x"])
                want_res = [Poly.var("p"), Poly.var("q"), Q(0)]
                want_mz = 2 * Poly.var("q") - Q(1, 2) * Poly.var("p")
            elif kind == "edge-yx":
                right = boundary_nodes(W, md, lambda c: c[0] == 2)
                W.call(simu, "add_surfLoad", iarr(right), [Poly.var("q"), Poly.var("p")], ["y", "x"])
                want_res = [Poly.var("p") * fac, Poly.var("q") * fac, Q(0)]
                want_mz = (2 * Poly.var("q") - Q(1, 2) * Poly.var("p")) * fac
            K, C, M, F = W.call(simu, "Get_K_C_M_F")
            b = W.call(simu, "_Solver_Apply_Neumann", "elastic") if False else None
            Fd = None
            # the load vector the solver uses: Bc_vector_Neumann
            vec = W.call(simu, "Bc_vector_Neumann", "elastic")
            Fd = polys(vec.toarray() if hasattr(vec, "toarray") else vec)
            if len(Fd) != md.Nn * dim:
                return f"{elem} {kind}: load vector of size {len(Fd)}, expected {md.Nn * dim}"
            for c in range(dim):
                s = sum((Fd[n * dim + c] for n in range(md.Nn)), Poly.const(0))
                if not eq(s, want_res[c]):
                    return f"{elem}, {kind}: resultant along {'xyz'[c]} = {s}, the integral of the density (times the thickness in 2-D) is {Poly.of(want_res[c])}"
            mz = sum((md.coords[n][0] * Fd[n * dim + 1] - md.coords[n][1] * Fd[n * dim] for n in range(md.Nn)), Poly.const(0))
            if dim == 2 or kind.startswith("volume") or True:
                if not eq(mz, want_mz):
                    return f"{elem}, {kind}: moment about z of the nodal forces = {mz}, that of the distributed load is {Poly.of(want_mz)}"
            return None

        return (f"load {kind} {elem}", anchor, thunk)

    scen = []
    for elem in ("TRI3", "QUAD4", "TRI6", "QUAD8", "TETRA4"):
        for kind in ("volume-callable", "edge-constant", "edge-callable"):
            if elem == "TETRA4" and kind == "edge-callable":
                continue
            scen.append(scenario(elem, kind))
    scen += [scenario("TRI3", "line-constant"), scenario("QUAD8", "line-constant"), scenario("TRI3+QUAD4", "volume-callable"), scenario("TRI3+QUAD4", "edge-constant"), scenario("TRI3+QUAD4", "volume-array")]
    scen += [scenario("TRI3", "volume-array"), scenario("QUAD4", "volume-array"), scenario("TRI6", "volume-array"), scenario("QUAD4", "point"), scenario("TRI3", "point"), scenario("TRI3", "point-yx"), scenario("QUAD4", "edge-yx")]
    run_scenarios(ctx, r, scen)


# ---------------------------------------------------------------------------------------------------------------------
# C14: any sequence of changes == a fresh simulation
def history_rule(ctx, rid="R14.E1"):
    repo = ctx.repo
    r = ctx.rule(rid, "sequences of changes end to end, with the memoising decorator and the observers interpreted: after moving the mesh, assigning coordinates, changing material parameters / thickness / density, replacing the mesh, re-initialising the conditions -- in several orders, with solves in between -- K, M, the solution and the results equal those of a simulation created in the final configuration", min_instances=5)
    solve = repo.lookup_method(repo.cls(SIMU), "Solve")
    W0 = World(repo)

    def snapshot(W, simu, md):
        dim = md.dim
        K, C, M, F = W.call(simu, "Get_K_C_M_F")
        u = polys(W.call(simu, "Solve"))
        out = {"K": [v for row in dense(K) for v in row], "M": [v for row in dense(M) for v in row], "u": u}
        for nm in ("Sxx", "Svm" if False else "Exy", "Wdef"):
            out[nm] = polys(W.call(simu, "Result", nm))
        return out

    def load(W, simu, md):
        dim = md.dim
        W.call(simu, "Bc_Init")
        if not hasattr(md, "left"):
            md.left = boundary_nodes(W, md, lambda c: c[0] == 0)
            md.right = boundary_nodes(W, md, lambda c: c[0] == 2)
        left, right = md.left, md.right
        W.call(simu, "add_dirichlet", iarr(left), [Q(0)] * dim, ["x", "y", "z"][:dim])
        W.call(simu, "add_surfLoad", iarr(right), [Poly.var("p"), Poly.var("q")], ["x", "y"])

    def compare(a, b, label):
        for k in a:
            if len(a[k]) != len(b[k]):
                return f"{label}: {k} has {len(a[k])} entries after the changes, {len(b[k])} in the fresh simulation"
            for i, (x, y) in enumerate(zip(a[k], b[k])):
                if not same(x, y):
                    return f"{label}: {k}[{i}] = {x} after the sequence of changes, {y} in a simulation created in the final configuration"
        return None

    def moved(md, f):
        from ..e2e import MeshData

        out = MeshData()
        out.dim, out.groups = md.dim, md.groups
        out.coords = [tuple(f(c)) for c in md.coords]
        out.index = {c: k for k, c in enumerate(out.coords)}
        if hasattr(md, "left"):
            out.left, out.right = md.left, md.right
        return out

    def scenario(label, elem, steps, final):
        """steps(W, simu, mesh, mat, md) mutates; final(W) -> (md, mesh, mat, simu) builds the fresh reference"""

        def thunk():
            W = World(repo, lib=W0.lib)
            md, mesh = domain_mesh(W, elem)
            mat, simu = elastic(W, mesh, md.dim)
            W.set(simu, "rho", Q(7, 3))
            load(W, simu, md)
            snapshot(W, simu, md)  # everything is computed (and memoised) once in the initial configuration
            md2 = steps(W, simu, mesh, mat, md) or md
            if getattr(md2, "reload", True):
                load(W, simu, md2)
            got = snapshot(W, simu, md2)
            W2 = World(repo, lib=W0.lib)
            mdf, meshf, matf, simuf = final(W2)
            W2.set(simuf, "rho", Q(7, 3))
            load(W2, simuf, mdf)
            want = snapshot(W2, simuf, mdf)
            return compare(got, want, label)

        return (label, solve, thunk)

    shear = lambda c: (c[0] + c[1] / 3, c[1] * Q(5, 4), c[2])

    def fresh(elem, f=None, **kw):
        def build(W):
            md, _ = domain_mesh(W, elem)
            md.left = boundary_nodes(W, md, lambda c: c[0] == 0)
            md.right = boundary_nodes(W, md, lambda c: c[0] == 2)
            if f is not None:
                md = moved(md, f)
            mesh = W.mesh(md)
            mat, simu = elastic(W, mesh, md.dim, **kw)
            return md, mesh, mat, simu

        return build

    def st_translate(W, simu, mesh, mat, md):
        W.call(mesh, "Translate", Q(3), Q(-1, 2), Q(0))
        return moved(md, lambda c: (c[0] + 3, c[1] - Q(1, 2), c[2]))

    def st_coord(W, simu, mesh, mat, md):
        md2 = moved(md, shear)
        W.set(mesh, "coord", XArray((md.Nn, 3), [v for c in md2.coords for v in c]))
        return md2

    def st_E(W, simu, mesh, mat, md):
        W.set(mat, "E", Q(5))
        W.set(mat, "v", Q(1, 3))

    def st_thick(W, simu, mesh, mat, md):
        W.set(mat, "thickness", Q(2))

    def st_ps(W, simu, mesh, mat, md):
        W.set(mat, "planeStress", False)

    def st_mesh(W, simu, mesh, mat, md):
        md2, mesh2 = domain_mesh(W, "QUAD4")
        W.set(simu, "mesh", mesh2)
        return md2

    def st_mesh_back(W, simu, mesh, mat, md):
        # an iteration saved on mesh A, the mesh replaced by B and an iteration saved there, back to the iteration of mesh A
        # (Set_Iter makes A current again), one assembly, THEN mesh A is deformed: the simulation follows its current mesh
        W.call(simu, "Save_Iter")
        md2, mesh2 = domain_mesh(W, "QUAD4")
        W.set(simu, "mesh", mesh2)
        load(W, simu, md2)
        W.call(simu, "Solve")
        W.call(simu, "Save_Iter")
        W.call(simu, "Set_Iter", 0)
        load(W, simu, md)
        W.call(simu, "Get_K_C_M_F")
        cur = W.get(simu, "mesh")
        md3 = moved(md, shear)
        W.set(cur, "coord", XArray((md.Nn, 3), [v for c in md3.coords for v in c]))
        return md3

    def st_many(W, simu, mesh, mat, md):
        st_E(W, simu, mesh, mat, md)
        load(W, simu, md)
        W.call(simu, "Solve")
        md2 = st_coord(W, simu, mesh, mat, md)
        st_thick(W, simu, mesh, mat, md2)
        load(W, simu, md2)
        W.call(simu, "Solve")
        W.set(mat, "E", Q(3))
        W.set(mat, "v", Q(1, 4))
        return md2

    scen = [
        scenario("Translate then solve", "TRI3", st_translate, fresh("TRI3", lambda c: (c[0] + 3, c[1] - Q(1, 2), c[2]))),
        scenario("mesh.coord = sheared coordinates", "QUAD4", st_coord, fresh("QUAD4", shear)),
        scenario("E, v changed", "TRI6", st_E, fresh("TRI6", E=Q(5), v=Q(1, 3))),
        scenario("thickness changed", "TRI3", st_thick, fresh("TRI3", thickness=Q(2))),
        scenario("plane stress -> plane strain", "QUAD4", st_ps, fresh("QUAD4", planeStress=False)),
        scenario("simu.mesh replaced (TRI3 -> QUAD4)", "TRI3", st_mesh, fresh("QUAD4")),
        scenario("iteration saved on mesh A, mesh replaced by B, back to A through Set_Iter(0), A deformed", "TRI3", st_mesh_back, fresh("TRI3", shear)),
        scenario("E changed, solve, coordinates assigned, thickness changed, solve, E restored", "TRI3", st_many, fresh("TRI3", shear, thickness=Q(2))),
    ]
    run_scenarios(ctx, r, scen)


# ---------------------------------------------------------------------------------------------------------------------
# C16: results against an independent post-processing
def results_rule(ctx, rid="R16.E1"):
    repo = ctx.repo
    r = ctx.rule(rid, "named results end to end on a generic (non-uniform) finite-element solution with symbolic loads: per-element strains / stresses of TRI3 and TETRA4 equal those of the constant gradient computed in the checker from the nodal solution; Wdef = 1/2 u.K u = 1/2 u.F on the free part; the nodal reactions balance the applied loads; component results are the right columns", min_instances=2)
    W0 = World(repo)
    anchor = repo.lookup_method(repo.cls(ELASTIC), "Result")

    def scenario(elem):
        def thunk():
            W = World(repo, lib=W0.lib)
            md, mesh, mat, simu, left, right = general_problem(W, elem)
            dim = md.dim
            u = polys(W.call(simu, "Solve"))
            comps = COMP2 if dim == 2 else COMP3
            rows = md.groups[elem]
            # constant gradient of each simplex from its vertices (Cramer)
            from ..xsparse import solve_dense

            res = {pre + nm: polys(W.call(simu, "Result", pre + nm, False)) for nm in comps for pre in ("E", "S")}
            for e, row in enumerate(rows):
                X = [md.coords[n] for n in row[: dim + 1]]
                A = [[X[k][j] - X[0][j] for j in range(dim)] for k in range(1, dim + 1)]
                grad = []
                for i in range(dim):
                    rhs = [u[row[k] * dim + i] - u[row[0] * dim + i] for k in range(1, dim + 1)]
                    grad.append(solve_dense(A, rhs))
                ee, ss, w = hooke(dim, [[Poly.of(polys(g)[0]) for g in gr] for gr in grad], True)
                for nm, (i, j) in comps.items():
                    for pre, ref in (("E", ee), ("S", ss)):
                        got = res[pre + nm]
                        if len(got) != len(rows):
                            return f"{elem}: Result('{pre}{nm}', nodeValues=False) has {len(got)} values for {len(rows)} elements"
                        if not same(got[e], ref[i][j]):
                            return f"{elem}: Result('{pre}{nm}', nodeValues=False)[{e}] = {got[e]}, the element's constant gradient gives {Poly.of(ref[i][j])}"
            K, C, M, F = W.call(simu, "Get_K_C_M_F")
            Kd = dense(K)
            n = md.Nn * dim
            uKu = sum((u[i] * Kd[i][j] * u[j] for i in range(n) for j in range(n) if not is_zero(Kd[i][j])), Poly.const(0))
            wd = polys(W.call(simu, "Result", "Wdef"))[0]
            if not same(wd, uKu / 2):
                return f"{elem}: Result('Wdef') = {wd} but 1/2 u.K u = {uKu / 2}"
            for c in range(dim):
                got = polys(W.call(simu, "Result", "u" + "xyz"[c]))
                if any(not same(g, u[k * dim + c]) for k, g in enumerate(got)):
                    return f"{elem}: Result('u{'xyz'[c]}') is not column {c} of the solution"
            return None

        return (f"results {elem}", anchor, thunk)

    run_scenarios(ctx, r, [scenario("TRI3"), scenario("TETRA4")])


# ---------------------------------------------------------------------------------------------------------------------
# C05: time stepping, end to end, exact rationals
def dynamics_rule(ctx, rid="R5.E1"):
    repo = ctx.repo
    r = ctx.rule(rid, "time stepping end to end in exact rational arithmetic (Elastic, consistent mass, optional Rayleigh damping and load, step size changed between steps): after every Solve the returned (u, v, a) satisfy the documented update relations of newmark / midpoint / backward Euler and K u_t + C v_t + M a_t = F on every free dof; undamped and unloaded, average-acceleration Newmark and midpoint conserve 1/2 v.M v + 1/2 u.K u EXACTLY over steps of different sizes (also for states of magnitude 1e-12) and backward Euler never increases it", min_instances=6)
    solve = repo.lookup_method(repo.cls(SIMU), "Solve")
    W0 = World(repo)
    ALGO = "EasyFEA.Simulations.Solvers.AlgoType"

    def vec(n, seed, fixed, scale=Q(1)):
        out = []
        for k in range(n):
            seed = (seed * 37 + 11) % 101
            out.append(Q(0) if k in fixed else scale * Q(seed - 50, 40))
        return out

    def mv(A, x):
        return [sum((A[i][j] * x[j] for j in range(len(x)) if A[i][j] != 0), Q(0)) for i in range(len(x))]

    def dot(x, y):
        return sum((a * b for a, b in zip(x, y)), Q(0))

    def scenario(algo, damped, loaded, scale=Q(1), beta=Q(1, 4), gamma=Q(1, 2), alpha=None):
        def thunk():
            W = World(repo, lib=W0.lib)
            md, mesh = domain_mesh(W, "TRI3")
            dim = 2
            mat, simu = elastic(W, mesh, dim)
            W.set(simu, "rho", Q(7, 3))
            if damped:
                W.call(simu, "Set_Rayleigh_Damping_Coefs", Q(1, 5), Q(1, 7))
            left = boundary_nodes(W, md, lambda c: c[0] == 0)
            right = boundary_nodes(W, md, lambda c: c[0] == 2)
            W.call(simu, "add_dirichlet", iarr(left), [Q(0), Q(0)], ["x", "y"])
            if loaded:
                W.call(simu, "add_surfLoad", iarr(right), [Q(3, 2) * scale, Q(-1, 3) * scale], ["x", "y"])
            n = md.Nn * dim
            fixed = {nn * dim + c for nn in left for c in range(dim)}
            u0, v0 = vec(n, 7, fixed, scale), vec(n, 23, fixed, scale)
            a0 = [Q(0)] * n
            W.call(simu, "_Set_solutions", "elastic", XArray((n,), u0), XArray((n,), v0), XArray((n,), a0))
            K, C, M, F = W.call(simu, "Get_K_C_M_F")
            Kd, Cd, Md = [[_qq(v) for v in row] for row in dense(K)], [[_qq(v) for v in row] for row in dense(C)], [[_qq(v) for v in row] for row in dense(M)]
            if len(Cd) != n:
                Cd = [[Q(0)] * n for _ in range(n)]
            Fv = [_qq(a) + _qq(b) for a, b in zip(polys(F.toarray() if hasattr(F, "toarray") else F), polys((lambda v: v.toarray() if hasattr(v, "toarray") else v)(W.call(simu, "Bc_vector_Neumann", "elastic"))))]
            energy = lambda u, v: dot(v, mv(Md, v)) / 2 + dot(u, mv(Kd, u)) / 2
            un, vn, an = u0, v0, a0
            energies = []
            for step, dt in enumerate((Q(1, 3), Q(1, 7), Q(1, 5), Q(1, 5))):
                if alpha is None:
                    W.call(simu, "Solver_Set_Hyperbolic_Algorithm", dt, W.enum(ALGO, algo), beta, gamma)
                else:
                    # parameters the selected scheme does not use (accepted and ignored: the scheme is defined by its name)
                    W.call(simu, "Solver_Set_Hyperbolic_Algorithm", dt, W.enum(ALGO, algo), beta, gamma, alpha)
                W.call(simu, "Solve")
                u1 = [_qq(x) for x in polys(W.call(simu, "_Get_u_n", "elastic"))]
                v1 = [_qq(x) for x in polys(W.call(simu, "_Get_v_n", "elastic"))]
                a1 = [_qq(x) for x in polys(W.call(simu, "_Get_a_n", "elastic"))]
                tag = f"{algo}{' damped' if damped else ''}{' loaded' if loaded else ''}, step {step + 1} (dt = {dt})"
                for k in fixed:
                    if u1[k] != 0:
                        return f"{tag}: prescribed dof {k} moved to {u1[k]}"
                # documented update relations and evaluation-point states (reference written here)
                if algo == "newmark":
                    for k in range(n):
                        if k in fixed:
                            continue
                        if u1[k] != un[k] + dt * vn[k] + dt * dt / 2 * ((1 - 2 * beta) * an[k] + 2 * beta * a1[k]):
                            return f"{tag}: u_(n+1) != u_n + dt v_n + dt^2/2 ((1 - 2 beta) a_n + 2 beta a_(n+1)) at dof {k}"
                        if v1[k] != vn[k] + dt * ((1 - gamma) * an[k] + gamma * a1[k]):
                            return f"{tag}: v_(n+1) != v_n + dt ((1 - gamma) a_n + gamma a_(n+1)) at dof {k}"
                    ut, vt, at = u1, v1, a1
                elif algo == "midpoint":
                    ut = [(a + b) / 2 for a, b in zip(u1, un)]
                    vt = [(a - b) / dt for a, b in zip(u1, un)]
                    for k in range(n):
                        if k not in fixed and v1[k] != 2 * (u1[k] - un[k]) / dt - vn[k]:
                            return f"{tag}: v_(n+1) != 2 (u_(n+1) - u_n) / dt - v_n at dof {k}"
                    at = [(a - b) / dt for a, b in zip(v1, vn)]
                elif algo == "euler_implicit":
                    for k in range(n):
                        if k in fixed:
                            continue
                        if v1[k] != (u1[k] - un[k]) / dt:
                            return f"{tag}: v_(n+1) != (u_(n+1) - u_n) / dt at dof {k}"
                        if a1[k] != (v1[k] - vn[k]) / dt:
                            return f"{tag}: a_(n+1) != (v_(n+1) - v_n) / dt at dof {k}"
                    ut, vt, at = u1, v1, a1
                res = [x + y + z - f for x, y, z, f in zip(mv(Kd, ut), mv(Cd, vt), mv(Md, at), Fv)]
                for k in range(n):
                    if k not in fixed and res[k] != 0:
                        return f"{tag}: K u_t + C v_t + M a_t - F is about {float(res[k]):.3g} (exact arithmetic) on the free dof {k}: the returned state does not satisfy the discrete equation of motion at the scheme's evaluation point"
                energies.append(energy(u1, v1))
                un, vn, an = u1, v1, a1
            if not damped and not loaded:
                if algo == "midpoint" or (algo == "newmark" and beta == Q(1, 4) and gamma == Q(1, 2)):
                    ref = energies[0] if algo == "newmark" else energy(u0, v0)
                    for k, e in enumerate(energies):
                        if e != ref:
                            return f"{algo}, undamped and unloaded, state of magnitude {float(scale):g}: the energy 1/2 v.M v + 1/2 u.K u is {float(e):.12g} after step {k + 1} and {float(ref):.12g} before (relative change {float((e - ref) / ref):.3g}): not conserved"
                if algo == "euler_implicit":
                    prev = energy(u0, v0)
                    for k, e in enumerate(energies):
                        if e > prev:
                            return f"backward Euler, undamped and unloaded: the energy increases at step {k + 1} ({float(prev):.6g} -> {float(e):.6g})"
                        prev = e
            return None

        return (f"dynamics {algo}{' damped' if damped else ''}{' loaded' if loaded else ''}{'' if scale == 1 else ' tiny'}{'' if (beta, gamma) == (Q(1, 4), Q(1, 2)) else ' beta=3/10'}{'' if alpha is None else ' alpha=3/10 given'}", solve, thunk)

    def parabolic(alpha, loaded):
        def thunk():
            W = World(repo, lib=W0.lib)
            md, mesh = domain_mesh(W, "TRI3")
            mat = W.new(THERMAL_M, k=Q(5, 2), c=Q(3), thickness=Q(3, 4))
            simu = W.new(THERMAL, mesh, mat)
            W.set(simu, "rho", Q(2))
            left = boundary_nodes(W, md, lambda c: c[0] == 0)
            right = boundary_nodes(W, md, lambda c: c[0] == 2)
            W.call(simu, "add_dirichlet", iarr(left), [Q(0)], ["t"])
            if loaded:
                W.call(simu, "add_surfLoad", iarr(right), [Q(7, 3)], ["t"])
            n = md.Nn
            fixed = set(left)
            u0, v0 = vec(n, 5, fixed), vec(n, 17, fixed)
            W.call(simu, "_Set_solutions", "thermal", XArray((n,), u0), XArray((n,), v0))
            K, C, M, F = W.call(simu, "Get_K_C_M_F")
            Kd, Cd = [[_qq(v) for v in row] for row in dense(K)], [[_qq(v) for v in row] for row in dense(C)]
            Fv = [_qq(a) + _qq(b) for a, b in zip(polys(F.toarray() if hasattr(F, "toarray") else F), polys((lambda v: v.toarray() if hasattr(v, "toarray") else v)(W.call(simu, "Bc_vector_Neumann", "thermal"))))]
            un, vn = u0, v0
            for step, dt in enumerate((Q(1, 3), Q(1, 7), Q(1, 5))):
                W.call(simu, "Solver_Set_Parabolic_Algorithm", dt, alpha)
                W.call(simu, "Solve")
                u1 = [_qq(x) for x in polys(W.call(simu, "_Get_u_n", "thermal"))]
                v1 = [_qq(x) for x in polys(W.call(simu, "_Get_v_n", "thermal"))]
                tag = f"parabolic alpha = {alpha}{' loaded' if loaded else ''}, step {step + 1} (dt = {dt})"
                for k in range(n):
                    if k in fixed:
                        if u1[k] != 0:
                            return f"{tag}: prescribed dof {k} moved to {u1[k]}"
                        continue
                    if u1[k] != un[k] + dt * ((1 - alpha) * vn[k] + alpha * v1[k]):
                        return f"{tag}: u_(n+1) != u_n + dt ((1 - alpha) v_n + alpha v_(n+1)) at dof {k}"
                res = [x + y - f for x, y, f in zip(mv(Kd, u1), mv(Cd, v1), Fv)]
                for k in range(n):
                    if k not in fixed and res[k] != 0:
                        return f"{tag}: K u_(n+1) + C v_(n+1) - F is about {float(res[k]):.3g} (exact arithmetic) on the free dof {k}"
                un, vn = u1, v1
            return None

        return (f"parabolic alpha={alpha}{' loaded' if loaded else ''}", solve, thunk)

    scen = [parabolic(Q(1, 2), True), parabolic(Q(1), False), parabolic(Q(2, 3), True)]
    scen += [scenario("newmark", False, False), scenario("midpoint", False, False), scenario("euler_implicit", False, False),
            scenario("newmark", True, True), scenario("midpoint", True, True), scenario("euler_implicit", True, True),
            scenario("newmark", False, False, scale=Q(1, 10**12)), scenario("midpoint", False, True, scale=Q(1, 10**12)),
            scenario("newmark", True, True, beta=Q(3, 10), gamma=Q(3, 5)), scenario("midpoint", True, True, alpha=Q(3, 10)), scenario("euler_implicit", False, True, alpha=Q(3, 10))]
    run_scenarios(ctx, r, scen)


# ---------------------------------------------------------------------------------------------------------------------
# C07 / C08: measures, centroids, closed boundaries; queries and motions
def geometry_rule(ctx, rid="R8.E1"):
    repo = ctx.repo
    r = ctx.rule(rid, "geometry end to end on distorted meshes of every element family: measure and centroid equal those of the tiled box; the boundary normals close the domain (integral of n = 0, |flux of x| = dim * measure); they are unchanged / transported by Translate, Rotate(90 deg) and Symmetry; a query on the deformed configuration (displacementMatrix) changes no later answer; after coordinates are assigned (a stretch) measure and centroid are those of the new geometry", min_instances=5)
    anchor = repo.lookup_method(repo.cls("EasyFEA.FEM._mesh.Mesh"), "center")
    W0 = World(repo)
    MT = "EasyFEA.FEM._utils.MatrixType"

    def measure_of(W, mesh, dim):
        return W.get(mesh, {1: "length", 2: "area", 3: "volume"}[dim])

    def scenario(elem):
        def thunk():
            W = World(repo, lib=W0.lib)
            eq = eq_for(elem, mass=True)
            md, mesh = domain_mesh(W, elem)
            dim = md.dim
            want_c = [Q(1), Q(1, 2), Q(1, 2) if dim == 3 else Q(0)]

            def check(label, meas, cen):
                got = measure_of(W, mesh, dim)
                if not eq(got, meas):
                    return f"{elem}, {label}: measure {polys(got)[0]}, the domain measures {meas}"
                c = polys(W.get(mesh, "center"))
                for k in range(3):
                    if not eq(c[k], cen[k]):
                        return f"{elem}, {label}: centroid component {'xyz'[k]} = {c[k]}, expected {cen[k]}"
                # the first moments through the integration routine itself (Integrate_e with a function of the position, on the
                # same group objects at every stage): integral of x_k = centroid_k * measure
                mt_ = W.enum(MT, "mass")
                for k in range(dim):
                    fk = src_lambda(W, "lambda x, y, z: " + "xyz"[k])
                    tot_ = sum((polys(W.call(g, "Integrate_e", fk, mt_)) for g in W.call(mesh, "Get_list_groupElem", dim)), [])
                    tot_ = sum(tot_, Poly.const(0))
                    if not eq(tot_, cen[k] * meas):
                        return f"{elem}, {label}: Integrate_e of the coordinate {'xyz'[k]} over the domain gives {tot_}, centroid * measure is {cen[k] * meas} (integration points of an earlier geometry?)"
                return None

            bad = check("as built", Q(2), want_c)
            if bad:
                return bad
            # closed boundary
            mass = W.enum(MT, "mass")
            tot = [Poly.const(0)] * 3
            flux = Poly.const(0)
            groups = W.call(mesh, "Get_list_groupElem", dim - 1)
            for g in groups:
                n = XArray.from_nested(W.M.I and W.call(g, "Get_normals_e_pg", mass))
                w = XArray.from_nested(W.call(g, "Get_weightedJacobian_e_pg", mass))
                x = XArray.from_nested(W.call(g, "Get_GaussCoordinates_e_pg", mass))
                for e in range(w.shape[0]):
                    for p in range(w.shape[1]):
                        for k in range(3):
                            tot[k] = tot[k] + Poly.of(_pn(w[e, p])) * Poly.of(_pn(n[e, p, k]))
                            flux = flux + Poly.of(_pn(w[e, p])) * Poly.of(_pn(n[e, p, k])) * Poly.of(_pn(x[e, p, k]))
            for k in range(3):
                if not eq(tot[k], 0):
                    return f"{elem}: the integral of the boundary normal has component {'xyz'[k]} = {tot[k]}: the boundary does not close"
            if not (eq(flux, dim * Q(2)) or eq(flux, -dim * Q(2))):
                return f"{elem}: the flux of the position vector through the boundary is {flux}, expected +/- dim * measure = {dim * 2}"
            # a query on the deformed configuration must not change later answers
            g0 = W.call(mesh, "Get_list_groupElem", dim)[0]
            U = XArray((md.Nn, 3), [Q(k % 5, 7) for k in range(md.Nn * 3)])
            W.call(g0, "Get_GaussCoordinates_e_pg", mass, displacementMatrix=U)
            if W.lib.gmsh[MIXED.get(elem, (elem,))[0]]["order"] == 1:
                for g in groups[:1]:
                    W.call(g, "Get_normals_e_pg", mass, U, False)  # (un-normalised: the deformed normals are irrational)
            bad = check("after a query on the deformed configuration", Q(2), want_c)
            if bad:
                return bad
            # point location: a symbolic linear nodal field is reproduced at arbitrary points, before and after the mesh moves
            def locate(label, shift):
                cur = XArray.from_nested(W.get(mesh, "coord"))
                coef = [Poly.var(f"l{k}") for k in range(dim + 1)]
                fld = lambda X: coef[0] + sum((coef[k + 1] * X[k] for k in range(dim)), Poly.const(0))
                vals = XArray((md.Nn,), [fld([_pn(cur[n, k]) for k in range(dim)]) for n in range(md.Nn)])
                base = [(Q(1, 3), Q(1, 4), Q(1, 5)), (Q(3, 2), Q(3, 4), Q(2, 3)), (Q(1, 2), Q(1, 2), Q(1, 2)), (Q(7, 4), Q(1, 8), Q(7, 8))]
                pts = [tuple((p[k] if k < dim else Q(0)) + shift[k] for k in range(3)) for p in base]
                got = W.call(mesh, "Evaluate_dofsValues_at_coordinates", XArray((len(pts), 3), [v for p in pts for v in p]), vals)
                got = polys(got)
                for p, g in zip(pts, got):
                    if not eq(g, fld(p)):
                        return f"{elem}, point location {label}: the linear nodal field evaluated at {tuple(str(c) for c in p[:dim])} gives {g}, the field is {fld(p)} there"
                return None

            if elem in ("TRI3", "TETRA4", "TRI6"):
                bad = locate("as built", (Q(0), Q(0), Q(0)))
                if bad:
                    return bad
            # rigid motions
            W.call(mesh, "Translate", Q(3), Q(-1, 2), Q(0))
            bad = check("after Translate(3, -1/2, 0)", Q(2), [want_c[0] + 3, want_c[1] - Q(1, 2), want_c[2]])
            if bad:
                return bad
            if elem in ("TRI3", "TETRA4", "TRI6"):
                bad = locate("after Translate(3, -1/2, 0)", (Q(3), Q(-1, 2), Q(0)))
                if bad:
                    return bad
            W.call(mesh, "Symmetry", (Q(0), Q(0), Q(0)), (Q(1), Q(0), Q(0)))
            if elem in ("TRI3", "TETRA4", "TRI6"):
                # a mirrored mesh: locate first (the inverse map reads the SIGNED Jacobian), then integrate with the same rule
                cur = XArray.from_nested(W.get(mesh, "coord"))
                W.call(mesh, "Evaluate_dofsValues_at_coordinates", XArray((1, 3), [_pn(cur[0, k]) for k in range(3)]), XArray((md.Nn,), [Q(1)] * md.Nn))
                tot = sum((polys(W.call(g, "Integrate_e", src_lambda(W, "lambda x, y, z: 1"), mass)) for g in W.call(mesh, "Get_list_groupElem", dim)), [])
                tot = sum(tot, Poly.const(0))
                if not eq(tot, Q(2)):
                    return f"{elem}, mirrored mesh, after a point was located: the integral of 1 with the mass rule is {tot}, the domain measures 2"
            bad = check("after Symmetry about x = 0", Q(2), [-(want_c[0] + 3), want_c[1] - Q(1, 2), want_c[2]])
            if bad:
                return bad
            # assigned coordinates: a stretch by 3/2 along x
            co = XArray.from_nested(W.get(mesh, "coord"))
            W.set(mesh, "coord", XArray(co.shape, [(_pn(v) * Q(3, 2) if k % 3 == 0 else _pn(v)) for k, v in enumerate(co.data)]))
            bad = check("after the coordinates were stretched by 3/2 along x", Q(3), [-(want_c[0] + 3) * Q(3, 2), want_c[1] - Q(1, 2), want_c[2]])
            return bad

        return (f"geometry {elem}", anchor, thunk)

    elems = ["TRI3", "QUAD4", "TRI6", "QUAD8", "TETRA4", "TRI3+QUAD4"] + (["HEXA8", "PRISM6", "QUAD9"] if ctx.tier == "thorough" else [])
    run_scenarios(ctx, r, [scenario(e) for e in elems])


def _pn(v):
    from ..e2e import _num

    return _num(v)


# ---------------------------------------------------------------------------------------------------------------------
# C15: saved iterations
def iterations_rule(ctx, rid="R15.E1"):
    repo = ctx.repo
    r = ctx.rule(rid, "saved iterations end to end (in memory): after Solve / Save_Iter under a first load, then Solve / Save_Iter under another load, Set_Iter(0), Set_Iter(1) and Set_Iter(-1) bring back exactly the displacement (and velocity / acceleration under Newmark) and the results of the time; Get_results reads without altering the simulation; arrays handed out by the getters are copies (editing them changes nothing); a later solve does not alter a stored iteration", min_instances=2)
    anchor = repo.lookup_method(repo.cls(SIMU), "Set_Iter")
    W0 = World(repo)
    ALGO = "EasyFEA.Simulations.Solvers.AlgoType"

    def scenario(elem, dynamic):
        def thunk():
            W = World(repo, lib=W0.lib, extra={"MPI_RANK": 0})
            md, mesh = domain_mesh(W, elem)
            dim = md.dim
            mat, simu = elastic(W, mesh, dim)
            W.set(simu, "rho", Q(7, 3))
            left = boundary_nodes(W, md, lambda c: c[0] == 0)
            right = boundary_nodes(W, md, lambda c: c[0] == 2)
            if dynamic:
                W.call(simu, "Solver_Set_Hyperbolic_Algorithm", Q(1, 3), W.enum(ALGO, "newmark"))
            names = ["ux", "uy", "Sxx", "Exy", "Wdef"] + (["vx", "ay"] if dynamic else [])
            shots = []
            for step, (p, q) in enumerate(((Q(3), Q(-1)), (Q(-2), Q(5)), (Q(1, 2), Q(1, 3)))):
                W.call(simu, "Bc_Init")
                W.call(simu, "add_dirichlet", iarr(left), [Q(0)] * dim, ["x", "y"])
                W.call(simu, "add_surfLoad", iarr(right), [p, q], ["x", "y"])
                W.call(simu, "Solve")
                W.call(simu, "Save_Iter")
                shot = {nm: polys(W.call(simu, "Result", nm)) for nm in names}
                shot["u"] = polys(W.call(simu, "_Get_u_n", "elastic"))
                if dynamic:
                    shot["v"] = polys(W.call(simu, "_Get_v_n", "elastic"))
                    shot["a"] = polys(W.call(simu, "_Get_a_n", "elastic"))
                shots.append(shot)
                # the vector handed out is a copy: editing it must not reach the simulation or its history
                leak = W.call(simu, "_Get_u_n", "elastic")
                leak.data[0] = leak.data[0] + 1000
                res = W.call(simu, "Get_results", step)
                if isinstance(res, dict) and isinstance(res.get("displacement"), XArray):
                    pass

            def compare(k, label):
                cur = {nm: polys(W.call(simu, "Result", nm)) for nm in names}
                cur["u"] = polys(W.call(simu, "_Get_u_n", "elastic"))
                if dynamic:
                    cur["v"] = polys(W.call(simu, "_Get_v_n", "elastic"))
                    cur["a"] = polys(W.call(simu, "_Get_a_n", "elastic"))
                for nm, vals in shots[k].items():
                    if len(vals) != len(cur[nm]):
                        return f"{label}: {nm} has {len(cur[nm])} values, {len(vals)} at the time"
                    for i, (x, y) in enumerate(zip(cur[nm], vals)):
                        if not same(x, y):
                            return f"{elem}{' Newmark' if dynamic else ''}, {label}: {nm}[{i}] = {x}, it was {y} when the iteration was saved"
                return None

            for k, label in ((0, "Set_Iter(0)"), (1, "Set_Iter(1)"), (-1, "Set_Iter(-1)"), (0, "Set_Iter(0) again")):
                before = dict(simu.attrs)
                W.call(simu, "Get_results", k)
                W.call(simu, "Set_Iter", k)
                bad = compare(k if k >= 0 else len(shots) - 1, label)
                if bad:
                    return bad
            # a later solve does not alter the stored iterations
            W.call(simu, "Set_Iter", -1)
            W.call(simu, "Bc_Init")
            W.call(simu, "add_dirichlet", iarr(left), [Q(0)] * dim, ["x", "y"])
            W.call(simu, "add_surfLoad", iarr(right), [Q(9), Q(9)], ["x", "y"])
            W.call(simu, "Solve")
            W.call(simu, "Set_Iter", 1)
            return compare(1, "Set_Iter(1) after a further solve")

        return (f"iterations {elem}{' Newmark' if dynamic else ''}", anchor, thunk)

    run_scenarios(ctx, r, [scenario("TRI3", False), scenario("QUAD4", False), scenario("TRI3", True)])


# ---------------------------------------------------------------------------------------------------------------------
# C11: the laws as objects (constructed, read, re-parametrised), end to end
def laws_rule(ctx, rid="R11.E1"):
    repo = ctx.repo
    r = ctx.rule(rid, "elastic laws as the user builds them, end to end in exact arithmetic: for Isotropic (plane stress / plane strain / 3-D), TransverselyIsotropic, Orthotropic and Anisotropic (2-D given 3 x 3 or 6 x 6, 3-D; Voigt or Kelvin-Mandel input; rotated material axes 3-4-5) the stiffness and the compliance handed out are symmetric, exact inverses of each other and positive definite; after a parameter is assigned they are those of a law built with the new value", min_instances=6)
    LAWS = "EasyFEA.Models.Elastic._laws."
    W0 = World(repo)
    anchor = repo.lookup_method(repo.cls(LAWS + "_Elastic"), "C")

    def mats(W, law):
        C = XArray.from_nested(W.get(law, "C"))
        S = XArray.from_nested(W.get(law, "S"))
        return C, S

    def check(label, C, S):
        n = C.shape[0]
        if C.shape != (n, n) or S.shape != (n, n):
            return f"{label}: C has shape {C.shape}, S {S.shape}"
        for i in range(n):
            for j in range(n):
                if not same(C[i, j], C[j, i]):
                    return f"{label}: C[{i},{j}] = {polys(C[i, j])[0]} but C[{j},{i}] = {polys(C[j, i])[0]}"
                v = sum((Poly.of(_pn(C[i, k])) * Poly.of(_pn(S[k, j])) for k in range(n)), Poly.const(0))
                if not same(v, 1 if i == j else 0):
                    return f"{label}: (C S)[{i},{j}] = {v}: the stiffness and the compliance handed out are not inverses of each other"
        piv = ldl_pivots([[C[i, j] for j in range(n)] for i in range(n)])
        if any(p <= 0 for p in piv):
            return f"{label}: C is not positive definite"
        return None

    def iso(dim, ps):
        def thunk():
            W = World(repo, lib=W0.lib)
            law = W.new(LAWS + "Isotropic", dim, E=Q(3), v=Q(1, 4), planeStress=ps, thickness=Q(1, 2)) if dim == 2 else W.new(LAWS + "Isotropic", dim, E=Q(3), v=Q(1, 4))
            bad = check(f"Isotropic dim {dim}{' plane stress' if ps else ''}", *mats(W, law))
            if bad:
                return bad
            W.set(law, "E", Q(5))
            W.set(law, "v", Q(1, 3))
            ref = W.new(LAWS + "Isotropic", dim, E=Q(5), v=Q(1, 3), planeStress=ps, thickness=Q(1, 2)) if dim == 2 else W.new(LAWS + "Isotropic", dim, E=Q(5), v=Q(1, 3))
            C1, S1 = mats(W, law)
            C2, S2 = mats(W, ref)
            for a, b, nm in ((C1, C2, "C"), (S1, S2, "S")):
                for x, y in zip(a.data, b.data):
                    if not same(x, y):
                        return f"Isotropic dim {dim}: after E and v were assigned, {nm} holds {polys(x)[0]} where a law built with the new values has {polys(y)[0]}"
            return None

        return (f"Isotropic dim {dim}{' plane stress' if ps else ''}", anchor, thunk)

    def aniso(dim, size, voigt, rotated):
        def thunk():
            W = World(repo, lib=W0.lib)
            # a symmetric positive definite matrix (diagonally dominant, distinct entries)
            M = [[Q(10 + 3 * i) if i == j else Q(1 + ((i + 2 * j) % 3), 2 + i + j) for j in range(size)] for i in range(size)]
            M = [[(M[i][j] + M[j][i]) / 2 for j in range(size)] for i in range(size)]
            C = XArray((size, size), [v for row in M for v in row])
            a1, a2 = ((Q(3, 5), Q(4, 5), Q(0)), (Q(-4, 5), Q(3, 5), Q(0))) if rotated else ((Q(1), Q(0), Q(0)), (Q(0), Q(1), Q(0)))
            law = W.new(LAWS + "Anisotropic", dim, C, voigt, XArray((3,), list(a1)), XArray((3,), list(a2)))
            return check(f"Anisotropic dim {dim}, {size} x {size} {'Voigt' if voigt else 'Kelvin-Mandel'} input{', axes rotated' if rotated else ''}", *mats(W, law))

        return (f"Anisotropic dim {dim} {size}x{size} {'voigt' if voigt else 'mandel'}{' rotated' if rotated else ''}", anchor, thunk)

    def ortho(cls, dim, rotated):
        def thunk():
            W = World(repo, lib=W0.lib)
            a1, a2 = ((Q(3, 5), Q(4, 5), Q(0)), (Q(-4, 5), Q(3, 5), Q(0))) if rotated else ((Q(1), Q(0), Q(0)), (Q(0), Q(1), Q(0)))
            if cls == "TransverselyIsotropic":
                law = W.new(LAWS + cls, dim, El=Q(10), Et=Q(4), Gl=Q(2), vl=Q(1, 5), vt=Q(1, 4), axis_l=XArray((3,), list(a1)), axis_t=XArray((3,), list(a2)))
            else:
                law = W.new(LAWS + cls, dim, E1=Q(10), E2=Q(6), E3=Q(4), G23=Q(2), G13=Q(3), G12=Q(5, 2), v23=Q(1, 5), v13=Q(1, 4), v12=Q(3, 10), axis_1=XArray((3,), list(a1)), axis_2=XArray((3,), list(a2)))
            return check(f"{cls} dim {dim}{', axes rotated' if rotated else ''}", *mats(W, law))

        return (f"{cls} dim {dim}{' rotated' if rotated else ''}", anchor, thunk)

    scen = [iso(2, True), iso(2, False), iso(3, False)]
    scen += [aniso(2, 3, True, False), aniso(2, 3, False, True), aniso(2, 6, True, False), aniso(2, 6, False, True), aniso(3, 6, True, True), aniso(3, 6, False, False)]
    scen += [ortho("TransverselyIsotropic", 3, False), ortho("TransverselyIsotropic", 2, True), ortho("Orthotropic", 3, True), ortho("Orthotropic", 2, False)]
    run_scenarios(ctx, r, scen)


# ---------------------------------------------------------------------------------------------------------------------
# C10: frame indifference, end to end
def frame_rule_e2e(ctx, rid="R10.E1"):
    repo = ctx.repo
    r = ctx.rule(rid, "frame indifference end to end with symbolic loads: the same body, clamp, tractions and body force described in a frame moved by a rational rotation (3-4-5 in the plane, a rational rotation matrix in space), a translation, or a reflection give the displacement carried by that motion at every node, the same von Mises invariant-free results (strain energy), for isotropic and for orthotropic / anisotropic materials whose axes move with the body", min_instances=4)
    anchor = repo.lookup_method(repo.cls(SIMU), "Solve")
    W0 = World(repo)
    LAWS = "EasyFEA.Models.Elastic._laws."
    R2 = [[Q(3, 5), Q(-4, 5), Q(0)], [Q(4, 5), Q(3, 5), Q(0)], [Q(0), Q(0), Q(1)]]
    R3 = [[Q(2, 3), Q(-1, 3), Q(2, 3)], [Q(2, 3), Q(2, 3), Q(-1, 3)], [Q(-1, 3), Q(2, 3), Q(2, 3)]]
    H2 = [[Q(-1), Q(0), Q(0)], [Q(0), Q(1), Q(0)], [Q(0), Q(0), Q(1)]]
    T0 = (Q(0), Q(0), Q(0))

    def apply(R, t, x):
        return tuple(sum((R[i][k] * x[k] for k in range(3)), Q(0)) + t[i] for i in range(3))

    def solve(W, elem, material, R, t):
        from ..e2e import MeshData

        md0, _ = domain_mesh(W, elem)
        dim = md0.dim
        md = MeshData()
        md.dim, md.groups = md0.dim, md0.groups
        md.coords = [apply(R, t, c) for c in md0.coords]
        md.index = {c: k for k, c in enumerate(md.coords)}
        det = R[0][0] * (R[1][1] * R[2][2] - R[1][2] * R[2][1]) - R[0][1] * (R[1][0] * R[2][2] - R[1][2] * R[2][0]) + R[0][2] * (R[1][0] * R[2][1] - R[1][1] * R[2][0])
        if det < 0:
            # a reflected body is meshed with positively oriented cells: reverse the vertex order of the simplices
            md.groups = {g: [([row[0], row[2], row[1]] + row[3:]) if g in ("TRI3",) else row for row in rows] for g, rows in md0.groups.items()}
        mesh = W.mesh(md)
        a1 = XArray((3,), [R[i][0] for i in range(3)])
        a2 = XArray((3,), [R[i][1] for i in range(3)])
        if material == "iso":
            mat = W.new(LAWS + "Isotropic", dim, E=E_, v=NU_, planeStress=True, thickness=Q(1, 2)) if dim == 2 else W.new(LAWS + "Isotropic", dim, E=E_, v=NU_)
        elif material == "ortho":
            kw = dict(E1=Q(10), E2=Q(6), E3=Q(4), G23=Q(2), G13=Q(3), G12=Q(5, 2), v23=Q(1, 5), v13=Q(1, 4), v12=Q(3, 10), axis_1=a1, axis_2=a2)
            mat = W.new(LAWS + "Orthotropic", dim, planeStress=True, thickness=Q(1, 2), **kw) if dim == 2 else W.new(LAWS + "Orthotropic", dim, **kw)
        else:
            size = 6
            M = [[Q(10 + 3 * i) if i == j else Q(1 + ((i + 2 * j) % 3), 2 + i + j) for j in range(size)] for i in range(size)]
            M = [[(M[i][j] + M[j][i]) / 2 for j in range(size)] for i in range(size)]
            mat = W.new(LAWS + "Anisotropic", dim, XArray((size, size), [v for row in M for v in row]), False, a1, a2)
        simu = W.new(ELASTIC, mesh, mat)
        left = boundary_nodes(W, md0, lambda c: c[0] == 0)
        right = boundary_nodes(W, md0, lambda c: c[0] == 2)
        unk = ["x", "y", "z"][:dim]
        d0, p, q, bx = Poly.var("d0"), Poly.var("p"), Poly.var("q"), Poly.var("bx")
        rot = lambda vec: [sum((R[i][k] * vec[k] for k in range(3)), Poly.const(0)) for i in range(dim)]
        W.call(simu, "add_dirichlet", iarr(left), rot([d0, 0, 0]), unk)
        W.call(simu, "add_surfLoad", iarr(right), rot([p, q, 0]), unk)
        W.call(simu, "add_volumeLoad", iarr(range(md.Nn)), rot([bx, 0, 0]), unk)
        u = polys(W.call(simu, "Solve"))
        wdef = polys(W.call(simu, "Result", "Wdef"))[0]
        return md0, dim, u, wdef

    def scenario(elem, material, R, t, label):
        def thunk():
            Wa, Wb = World(repo, lib=W0.lib), World(repo, lib=W0.lib)
            I3 = [[Q(1) if i == j else Q(0) for j in range(3)] for i in range(3)]
            md, dim, ua, wa = solve(Wa, elem, material, I3, T0)
            _, _, ub, wb = solve(Wb, elem, material, R, t)
            for n in range(md.Nn):
                for i in range(dim):
                    want = sum((R[i][k] * ua[n * dim + k] for k in range(dim)), Poly.const(0))
                    if not same(ub[n * dim + i], want):
                        return f"{elem}, {material} material, {label}: node {n}: u{'xyz'[i]} = {ub[n * dim + i]} in the moved frame, the motion carries the reference solution to {want}"
            if not same(wa, wb):
                return f"{elem}, {material} material, {label}: the strain energy is {wb} in the moved frame, {wa} in the reference frame"
            return None

        return (f"frame {elem} {material} {label}", anchor, thunk)

    scen = [
        scenario("TRI3", "iso", R2, (Q(3), Q(-1, 2), Q(0)), "rotation 3-4-5 + translation"),
        scenario("QUAD4", "iso", R2, T0, "rotation 3-4-5"),
        scenario("TRI3", "ortho", R2, T0, "rotation 3-4-5"),
        scenario("QUAD4", "aniso", R2, (Q(1), Q(1), Q(0)), "rotation 3-4-5 + translation"),
        scenario("TRI3", "iso", H2, T0, "reflection x -> -x"),
        scenario("TETRA4", "iso", R3, (Q(1), Q(2), Q(3)), "rational rotation in space + translation"),
    ]
    if ctx.tier == "thorough":
        scen.append(scenario("TETRA4", "ortho", R3, T0, "rational rotation in space"))
    run_scenarios(ctx, r, scen)


# ---------------------------------------------------------------------------------------------------------------------
# C13: user-written weak forms against the built-in operators, end to end
def weakforms_rule(ctx, rid="R13.E1"):
    repo = ctx.repo
    r = ctx.rule(rid, "user-written weak forms end to end (Field, BiLinearForm / LinearForm written as source and interpreted like library code, Models.WeakForms, Simulations.WeakForms): the conduction form k grad u . grad v, the reaction form c u v and the source form f(x, y) v give the K, C and F of the built-in Thermal simulation (with its thickness) and the same solution; the elasticity form Sym_Grad(u) : C : Sym_Grad(v) gives the K of the built-in Elastic simulation; position-dependent coefficients follow the mesh when it is moved (same as a fresh field on the moved mesh)", min_instances=3)
    anchor = repo.lookup_method(repo.cls("EasyFEA.FEM._forms.BiLinearForm"), "Integrate_e")
    W0 = World(repo)
    FORMS = "EasyFEA.FEM._forms."
    FIELD = "EasyFEA.FEM._field.Field"
    WFM = "EasyFEA.Models._weakforms.WeakForms"
    WFS = "EasyFEA.Simulations._weakforms.WeakForms"

    def form(W, kind, src, env=None):
        mi = W.repo.module("EasyFEA.FEM._field")
        fn = W.I.eval_expr(ast.parse(src, mode="eval").body, dict(env or {}), "<scenario>", mi)
        return W.new(FORMS + kind, fn)

    def thermal(elem):
        def thunk():
            W = World(repo, lib=W0.lib)
            eq = close if elem in MASS_APPROX else same
            md, mesh = domain_mesh(W, elem)
            dim = md.dim
            th = Q(3, 4)
            # built-in
            mat = W.new(THERMAL_M, k=Q(5, 2), c=Q(3), thickness=th)
            ref = W.new(THERMAL, mesh, mat)
            W.set(ref, "rho", Q(2))
            Kr, Cr, Mr, Fr = W.call(ref, "Get_K_C_M_F")
            # weak forms
            field = W.new(FIELD, W.get(mesh, "groupElem"), 1)
            fK = form(W, "BiLinearForm", "lambda u, v: k * u.grad.dot(v.grad)", {"k": Q(5, 2)})
            fC = form(W, "BiLinearForm", "lambda u, v: rc * u * v", {"rc": Q(6)})
            model = W.new(WFM, field, fK, fC, None, None, th)
            simu = W.new(WFS, mesh, model)
            Kw, Cw, Mw, Fw = W.call(simu, "Get_K_C_M_F")
            for nm, A, B in (("K", Kw, Kr), ("C", Cw, Cr)):
                a, b = dense(A), dense(B)
                if len(a) != len(b):
                    return f"{elem}: the weak-form {nm} is {len(a)} x {len(a)}, the built-in one {len(b)} x {len(b)}"
                for i in range(len(a)):
                    for j in range(len(a)):
                        if not eq(a[i][j], b[i][j]):
                            return f"{elem}: {nm}[{i},{j}] = {polys(a[i][j])[0]} from the form {'k grad u . grad v' if nm == 'K' else 'rho c u v'}, {polys(b[i][j])[0]} from the built-in Thermal simulation (thickness {th})"
            return None

        return (f"weak forms thermal {elem}", anchor, thunk)

    def moved(elem):
        def thunk():
            W = World(repo, lib=W0.lib)
            eq = close if elem in MASS_APPROX else same
            md, mesh = domain_mesh(W, elem)
            field = W.new(FIELD, W.get(mesh, "groupElem"), 1)
            # (the coordinates are asked of the trial AND of the test field: both are the user's view of the same points)
            src = "lambda u, v: (1 + u.Get_coords()[0] * v.Get_coords()[0]) * u.grad.dot(v.grad)"
            fK = form(W, "BiLinearForm", src)
            K1 = XArray.from_nested(W.call(fK, "Integrate_e", field))
            W.call(mesh, "Translate", Q(3), Q(1), Q(0))
            K2 = XArray.from_nested(W.call(fK, "Integrate_e", field))
            W2 = World(repo, lib=W0.lib)
            md2, mesh2 = domain_mesh(W2, elem)
            W2.call(mesh2, "Translate", Q(3), Q(1), Q(0))
            field2 = W2.new(FIELD, W2.get(mesh2, "groupElem"), 1)
            K3 = XArray.from_nested(W2.call(form(W2, "BiLinearForm", src), "Integrate_e", field2))
            if K2.shape != K3.shape:
                return f"{elem}: shapes {K2.shape} / {K3.shape}"
            for k, (x, y) in enumerate(zip(K2.data, K3.data)):
                if not eq(x, y):
                    return f"{elem}: after the mesh was translated, the form with the coefficient 1 + x^2 integrates entry {k} to {polys(x)[0]} on the field created before the motion and to {polys(y)[0]} on a field created on the moved mesh: the coefficient is evaluated at the old positions"
            if all(eq(x, y) for x, y in zip(K1.data, K2.data)):
                return f"{elem}: scenario error: the motion does not change the form"
            return None

        return (f"weak forms position-dependent coefficient, mesh moved {elem}", anchor, thunk)

    run_scenarios(ctx, r, [thermal("TRI3"), thermal("QUAD4"), thermal("TRI6"), moved("TRI3"), moved("QUAD4")])


# ---------------------------------------------------------------------------------------------------------------------
# C10 / C01 / C07: beam element groups measure what the geometry says, in every orientation
def beam_length_rule(ctx, rid="R10.18"):
    repo = ctx.repo
    r = ctx.rule(rid, "beam element groups (Euler-Bernoulli and Timoshenko classes, as the Beam simulation builds them) report the Euclidean length of every element for members along x, in the plane (3-4-5), out of the plane (1-2-2, 2-3-6) and along z: the Hermitian rotation functions are scaled by it", min_instances=4)
    W0 = World(repo)
    BM = "EasyFEA.FEM.Elems._beam."
    anchor = repo.func(BM + "_Construct_Euler_Bernoulli_mesh")

    def scenario(kind, elem, d, L):
        def thunk():
            W = World(repo, lib=W0.lib)
            n = 2
            cells = [[tuple(Q(k) * c / n for c in d), tuple(Q(k + 1) * c / n for c in d)] for k in range(n)]
            md = build_mesh_data(W.lib, elem, cells)
            mesh = W.mesh(md)
            bmesh = W.func(BM + ("_Construct_Euler_Bernoulli_mesh" if kind == "EB" else "_Construct_Timoshenko_mesh"), mesh)
            g = W.get(bmesh, "groupElem")
            le = polys(W.get(g, "length_e"))
            if len(le) != n:
                return f"{kind} {elem}: {len(le)} lengths for {n} elements"
            for k, v in enumerate(le):
                if not same(v, Q(L, n)):
                    return f"{kind} {elem} member along {tuple(str(c) for c in d)}: element {k} has length_e = {v}, its end nodes are {Q(L, n)} apart"
            tot = W.get(bmesh, "length")
            if not same(tot, L):
                return f"{kind} {elem} member along {tuple(str(c) for c in d)}: the mesh length is {polys(tot)[0]}, the member is {L} long"
            return None

        return (f"beam length {kind} {elem} along {d}", anchor, thunk)

    scen = []
    for kind in ("EB", "TIMO"):
        for d, L in (((Q(4), Q(0), Q(0)), 4), ((Q(3), Q(4), Q(0)), 5), ((Q(1), Q(2), Q(2)), 3), ((Q(2), Q(3), Q(6)), 7), ((Q(0), Q(0), Q(2)), 2)):
            scen.append(scenario(kind, "SEG2", d, L))
    scen.append(scenario("EB", "SEG3", (Q(1), Q(2), Q(2)), 3))
    run_scenarios(ctx, r, scen)


# ---------------------------------------------------------------------------------------------------------------------
# beams end to end: C01 (exact cubic), C04 (connections by multipliers), C09 (line loads), C10 (orientation), C16 (results)
def beam_rule(ctx, rid="R1.E3"):
    repo = ctx.repo
    r = ctx.rule(rid, "beam structures end to end (section mesh, Line, Models.Beam.Isotropic with its section integrals, Mesh of segments tagged by member, Simulations.Beam, conditions, Solve, Result), Euler-Bernoulli members of 2 elements in several orientations (along x, 3-4-5 in the plane, 1-2-2 in space): an end force gives the exact tip deflection P L^3 / 3EI, rotation P L^2 / 2EI and axial stretch F L / EA in the member frame; a uniform line load gives q L^4 / 8EI; shear force, bending moment (element means), normal force and the reactions are those of statics; two members joined by a fixed connection (Lagrange multipliers) behave as one", min_instances=5)
    anchor = repo.lookup_method(repo.cls("EasyFEA.Simulations._beam.Beam"), "Construct_local_matrix_system")
    W0 = World(repo)
    PT = "EasyFEA.Geoms._utils.Point"

    def member(W, dim, d, n=2, elem="SEG2", split=False, yAxis=None):
        """a cantilever of direction d (|d| rational), n elements; split: two members joined at the middle node"""
        sec_md = build_mesh_data(W.lib, "QUAD4", grid_cells("QUAD", 2, 2, lx=Q(1, 2), ly=1))
        section = W.mesh(sec_md)
        from ..e2e import MeshData

        cells = [[tuple(Q(k) * c / n for c in d), tuple(Q(k + 1) * c / n for c in d)] for k in range(n)]
        ends = [(Q(0), Q(0), Q(0)), tuple(Q(c) for c in d)]
        mid = tuple(Q(c) / 2 for c in d)
        if split:
            # two members, each with its OWN node at the joint (coincident nodes 1 and 2), as Mesh_Beams meshes two lines
            md = MeshData()
            md.dim = 1
            md.coords = [ends[0], mid, mid, ends[1]]
            md.index = {ends[0]: 0, ends[1]: 3}
            md.groups = {"SEG2": [[0, 1], [2, 3]], "POINT": [[0], [1], [2], [3]]}
        else:
            md = build_mesh_data(W.lib, elem, cells)
        mesh = W.mesh(md)
        pieces = [(ends[0], mid), (mid, ends[1])] if split else [(ends[0], ends[1])]
        beams = []
        for a, b in pieces:
            line = W.new("EasyFEA.Geoms._line.Line", W.new(PT, *a), W.new(PT, *b), Q(1))
            kw = {} if yAxis is None else {"yAxis": XArray((3,), list(yAxis))}
            beam = W.new("EasyFEA.Models.Beam._beam.Isotropic", dim, line, section, Q(10), Q(1, 4), **kw)
            beams.append(beam)
            # the nodes of the member: those between its end points (as Mesh_Beams tags them through Nodes_Line)
            if split:
                nodes = [0, 1] if (a, b) == pieces[0] else [2, 3]
            else:
                nodes = list(range(md.Nn))
            for g in W.call(mesh, "Get_list_groupElem"):
                W.call(g, "Set_Tag", iarr(nodes), W.get(beam, "name"))
        structure = W.new("EasyFEA.Models.Beam._beam.BeamStructure", beams)
        simu = W.new("EasyFEA.Simulations._beam.Beam", mesh, structure)
        return md, mesh, simu, md.index[ends[0]], md.index[ends[1]], ([1, 2] if split else None)

    E, A = Q(10), Q(1, 2)
    Iz, Iy = Q(1, 24), Q(1, 96)  # b = 1/2 along the section's x, h = 1 along its y

    def cantilever2d(d, L, load, split=False):
        def thunk():
            W = World(repo, lib=W0.lib)
            md, mesh, simu, n0, n1, nm = member(W, 2, d, split=split)
            ex = (Q(d[0]) / L, Q(d[1]) / L)
            ey = (-ex[1], ex[0])
            P, F, q = Poly.var("P"), Poly.var("F"), Poly.var("q")
            W.call(simu, "add_dirichlet", iarr([n0]), [Q(0), Q(0), Q(0)], ["x", "y", "rz"])
            if split:
                W.call(simu, "add_connection_fixed", iarr(nm))
            if load == "end":
                W.call(simu, "add_neumann", iarr([n1]), [P * ey[0] + F * ex[0], P * ey[1] + F * ex[1]], ["x", "y"])
                w_tip, th_tip, u_tip = P * L**3 / (3 * E * Iz), P * L**2 / (2 * E * Iz), F * L / (E * A)
            else:
                # a transverse intensity q and a different axial intensity a, in one call
                a_ = Poly.var("a")
                W.call(simu, "add_lineLoad", iarr(range(md.Nn)), [q * ey[0] + a_ * ex[0], q * ey[1] + a_ * ex[1]], ["x", "y"])
                w_tip, th_tip, u_tip = q * L**4 / (8 * E * Iz), q * L**3 / (6 * E * Iz), a_ * L**2 / (2 * E * A)
            u = polys(W.call(simu, "Solve"))
            tag = f"2-D cantilever along {tuple(str(c) for c in d[:2])}{', two members joined by a fixed connection' if split else ''}, {'end force' if load == 'end' else 'uniform line load'}"
            ux, uy, rz = u[n1 * 3], u[n1 * 3 + 1], u[n1 * 3 + 2]
            w_got = ux * ey[0] + uy * ey[1]
            a_got = ux * ex[0] + uy * ex[1]
            if not same(w_got, w_tip):
                return f"{tag}: tip deflection {w_got}, the exact value is {Poly.of(w_tip)}"
            if not same(rz, th_tip):
                return f"{tag}: tip rotation {rz}, the exact value is {Poly.of(th_tip)}"
            if not same(a_got, u_tip):
                return f"{tag}: axial tip displacement {a_got}, the exact value is {Poly.of(u_tip)}"
            if load == "end" and not split:
                Ty = polys(W.call(simu, "Result", "Ty", False))
                N = polys(W.call(simu, "Result", "N", False))
                Mz = polys(W.call(simu, "Result", "Mz", False))
                for k in range(len(Ty)):
                    if not (same(Ty[k], P) or same(Ty[k], -P)):
                        return f"{tag}: shear force of element {k} is {Ty[k]}, statics gives +/- P"
                    if not (same(N[k], F) or same(N[k], -F)):
                        return f"{tag}: normal force of element {k} is {N[k]}, statics gives +/- F"
                want = sorted([str(P * L * Q(3, 4)), str(P * L * Q(1, 4))])
                if sorted(str(m) for m in Mz) != want and sorted(str(-m) for m in Mz) != want:
                    return f"{tag}: mean bending moments of the two elements are {[str(m) for m in Mz]}, statics gives +/- {want}"
                cz = polys(W.call(simu, "Result", "cz"))
                if not (same(cz[n0], -P * L) or same(cz[n0], P * L)):
                    return f"{tag}: reaction moment at the clamp {cz[n0]}, statics gives +/- P L = {P * L}"
            return None

        return (f"beam 2-D {d[:2]} {load}{' split' if split else ''}", anchor, thunk)

    def cantilever3d(d, L, yAxis):
        def thunk():
            W = World(repo, lib=W0.lib)
            md, mesh, simu, n0, n1, nm = member(W, 3, d, yAxis=yAxis)
            ex = tuple(Q(c) / L for c in d)
            ey = tuple(Q(c) for c in yAxis)
            ez = (ex[1] * ey[2] - ex[2] * ey[1], ex[2] * ey[0] - ex[0] * ey[2], ex[0] * ey[1] - ex[1] * ey[0])
            Py, Pz, F = Poly.var("Py"), Poly.var("Pz"), Poly.var("F")
            W.call(simu, "add_dirichlet", iarr([n0]), [Q(0)] * 6, ["x", "y", "z", "rx", "ry", "rz"])
            W.call(simu, "add_neumann", iarr([n1]), [Py * ey[i] + Pz * ez[i] + F * ex[i] for i in range(3)], ["x", "y", "z"])
            u = polys(W.call(simu, "Solve"))
            t = [u[n1 * 6 + i] for i in range(3)]
            proj = lambda e: sum((t[i] * e[i] for i in range(3)), Poly.const(0))
            tag = f"3-D cantilever along {tuple(str(c) for c in d)}, vertical axis {tuple(str(c) for c in yAxis)}"
            for nm_, got, want in (("deflection along the member's y axis", proj(ey), Py * L**3 / (3 * E * Iz)), ("deflection along the member's z axis", proj(ez), Pz * L**3 / (3 * E * Iy)), ("axial displacement", proj(ex), F * L / (E * A))):
                if not same(got, want):
                    return f"{tag}: tip {nm_} = {got}, the exact value is {Poly.of(want)}"
            return None

        return (f"beam 3-D {d}", anchor, thunk)

    scen = [cantilever2d((Q(5), Q(0), Q(0)), Q(5), "end"), cantilever2d((Q(3), Q(4), Q(0)), Q(5), "end"), cantilever2d((Q(-4), Q(3), Q(0)), Q(5), "end"),
            cantilever2d((Q(3), Q(4), Q(0)), Q(5), "line"), cantilever2d((Q(5), Q(0), Q(0)), Q(5), "line"),
            cantilever2d((Q(3), Q(4), Q(0)), Q(5), "end", split=True),
            cantilever3d((Q(3), Q(0), Q(0)), Q(3), (Q(0), Q(1), Q(0))), cantilever3d((Q(1), Q(2), Q(2)), Q(3), (Q(2, 3), Q(-2, 3), Q(1, 3)))]
    run_scenarios(ctx, r, scen)


# ---------------------------------------------------------------------------------------------------------------------
# heterogeneous parameters (fields given per element / per integration point), on the coincidence Ne == nPg
def heterogeneous_rule(ctx, rid="R2.E3"):
    repo = ctx.repo
    r = ctx.rule(rid, "heterogeneous parameters end to end on a mesh where the number of elements equals the number of integration points (4 QUAD4, 4-point rules): a Young modulus given per element (Ne,) - and the same values repeated per integration point (Ne, nPg) - gives K = scatter-add of E_e / E0 times the homogeneous element matrices; a density given per element gives M likewise; symmetric, rigid-body motions in the kernel", min_instances=3)
    anchor = repo.lookup_method(repo.cls(ELASTIC), "Construct_local_matrix_system")
    W0 = World(repo)

    def scenario(kind):
        def thunk():
            W = World(repo, lib=W0.lib)
            md, mesh = domain_mesh(W, "QUAD4")
            dim, ne = 2, len(md.groups["QUAD4"])
            E0 = Q(3)
            vals = [Q(2), Q(5), Q(7), Q(11)][:ne]
            # homogeneous reference element matrices
            mat0, simu0 = elastic(W, mesh, dim, E=E0)
            W.set(simu0, "rho", Q(1))
            loc = W.call(simu0, "Construct_local_matrix_system", "elastic")
            blocks = list(loc.values())[0]
            W2 = World(repo, lib=W0.lib)
            md2, mesh2 = domain_mesh(W2, "QUAD4")
            npg = 4
            if kind == "E per element":
                Earg = XArray((ne,), list(vals))
            elif kind == "E per point":
                Earg = XArray((ne, npg), [v for v in vals for _ in range(npg)])
            else:
                Earg = E0
            mat, simu = elastic(W2, mesh2, dim, E=Earg)
            if kind == "rho per element":
                W2.set(simu, "rho", XArray((ne,), list(vals)))
            else:
                W2.set(simu, "rho", Q(1))
            K, C, M, F = W2.call(simu, "Get_K_C_M_F")
            slot, A = (2, M) if kind.startswith("rho") else (0, K)
            B = XArray.from_nested(blocks[slot])
            rows = md.groups["QUAD4"]
            nd = len(rows[0]) * dim
            ref = {}
            for e, row in enumerate(rows):
                fac = vals[e] / (Q(1) if kind.startswith("rho") else E0)
                dofs = [nn * dim + c for nn in row for c in range(dim)]
                for a in range(nd):
                    for b in range(nd):
                        ref[(dofs[a], dofs[b])] = ref.get((dofs[a], dofs[b]), 0) + fac * B[e, a, b]
            Ad = dense(A)
            n = md.Nn * dim
            for i in range(n):
                for j in range(n):
                    if not same(Ad[i][j], ref.get((i, j), 0)):
                        return f"{kind} = {[str(v) for v in vals]} on 4 QUAD4 (Ne == nPg == 4): {'M' if slot == 2 else 'K'}[{i},{j}] = {polys(Ad[i][j])[0]}, the element matrices scaled element by element add up to {polys(ref.get((i, j), 0))[0]}: the field is not applied element by element"
            return None

        return (f"heterogeneous {kind}", anchor, thunk)

    run_scenarios(ctx, r, [scenario("E per element"), scenario("E per point"), scenario("rho per element")])


# ---------------------------------------------------------------------------------------------------------------------
# C17 (shared with C15 / C16 / C14): damage simulations end to end - load, unload, re-activate, go back, reload
PF_MODEL = "EasyFEA.Models._phasefield.PhaseField"
PF_SIMU = "EasyFEA.Simulations._phasefield.PhaseField"


def phasefield_rule(ctx, rid="R17.E1"):
    """A whole staggered damage analysis interpreted end to end: `Models.PhaseField(material, split, regu, Gc, l0, solver)`,
    `Simulations.PhaseField(mesh, model)`, and for every load step `Bc_Init / add_dirichlet / Solve / Save_Iter`, with reads
    in the middle of the history (`Set_Iter(-1)`, `Result(..., iter=k)`), an unloading, a return to an earlier iteration and
    a reload.  The linear backend is exact elimination rounded to 30 digits (the rationals would otherwise square at every
    step); every statement below is an inequality or an equality decided with a margin of 1e-20.

    Decided on that history (TRI3 / QUAD4 box, Bourdin and Amor splits - both rational -, AT2, History and
    HistoryDamage solvers, one pass per step and several staggered passes per step):
      * with no loading the damage and the driving energy are exactly zero;
      * the driving energy reported per element (Result 'psiP') never decreases from one saved step to the next, whatever
        was read in between (re-activation of the current iteration, a read of an earlier iteration and back);
      * for the damage-based solver the saved nodal damage never decreases either;
      * going back: Set_Iter(k) brings back the damage, the displacement and the strain energy `Wdef` recorded when
        iteration k was saved (the degraded stiffness is the one of THAT damage)."""
    repo = ctx.repo
    r = ctx.rule(rid, "damage analysis end to end (load, unload, reads in the middle of the history, return to an earlier iteration, reload): no loading -> no damage; the saved driving energy per element never decreases (History solver); the saved nodal damage never decreases for the damage-based solver; Set_Iter(k) brings back damage, displacement and Wdef of iteration k", min_instances=3)
    anchor = repo.lookup_method(repo.cls(PF_SIMU), "Solve")
    W0 = World(repo)
    MARGIN = Q(1, 10**20)

    def nums(a):
        out = []
        for p in polys(a):
            if not p.is_const():
                raise Undecided("a symbolic value where a number was expected")
            out.append(Q(p.const_value()) if not hasattr(p.const_value(), "approx") else Q(p.const_value().approx()))
        return out

    def scenario(elem, split, regu, solver, tolConv):
        def thunk():
            W = World(repo, lib=W0.lib, extra={"MPI_RANK": 0}, round_digits=30)
            md, mesh = domain_mesh(W, elem)
            mat = W.new(ISO, 2, E=Q(3), v=Q(1, 4), planeStress=True, thickness=Q(1, 2))
            pfm = W.new(PF_MODEL, mat, split, regu, Q(1, 10), Q(1, 2), solver=solver)
            simu = W.new(PF_SIMU, mesh, pfm)
            left = boundary_nodes(W, md, lambda c: c[0] == 0)
            right = boundary_nodes(W, md, lambda c: c[0] == 2)
            tag = f"{elem} {split} {regu} {solver}{'' if tolConv == 1 else ' staggered to convergence'}"
            saved = []  # per saved iteration: damage, displacement, psiP per element, Wdef

            def step(ux):
                W.call(simu, "Bc_Init")
                W.call(simu, "add_dirichlet", iarr(left), [Q(0), Q(0)], ["x", "y"])
                W.call(simu, "add_dirichlet", iarr(right), [ux], ["x"])
                if tolConv == 1:
                    W.call(simu, "Solve")
                else:
                    W.call(simu, "Solve", tolConv, 6, 0)
                W.call(simu, "Save_Iter")
                rec = {"d": nums(W.get(simu, "damage")), "u": nums(W.get(simu, "displacement")), "H": nums(W.call(simu, "Result", "psiP", False)), "W": nums(W.call(simu, "Result", "Wdef"))[0], "ux": ux}
                saved.append(rec)
                k = len(saved) - 1
                if k == 0:
                    return None
                prev = saved[k - 1]
                # (the history field exists for the History solver only: the damage-based solvers drive the damage with the
                # instantaneous energy and enforce irreversibility on the damage itself)
                # (... and it is compared for one pass per step only: with several passes the value read through Result is a TRIAL
                # evaluation at the final displacement of the step, which the committed field holds only to the convergence
                # tolerance of the staggered loop - an unconverged step, cut at 6 passes here, shows a drop that is not one)
                for e, (a, b) in enumerate(zip(prev["H"], rec["H"]) if solver == "History" and tolConv == 1 else ()):
                    if b < a - MARGIN:
                        return f"{tag}: saved step {k} (prescribed displacement {ux} after {prev['ux']}): the driving energy of element {e} falls from {float(a):.6g} to {float(b):.6g} between two saved steps (the history field decreased: the damage it drives heals)"
                if solver != "History":
                    for n, (a, b) in enumerate(zip(prev["d"], rec["d"])):
                        if b < a - MARGIN:
                            return f"{tag}: saved step {k} (prescribed displacement {ux} after {prev['ux']}): the damage of node {n} falls from {float(a):.6g} to {float(b):.6g} between two saved steps"
                return None

            bad = step(Q(0))
            if bad:
                return bad
            if any(x != 0 for x in saved[0]["d"]) or any(x != 0 for x in saved[0]["H"]):
                return f"{tag}: with no loading the damage / driving energy are not zero: max damage {float(max(saved[0]['d'])):.3g}"
            for ux in (Q(1, 2), Q(1)):
                bad = step(ux)
                if bad:
                    return bad
            # reads in the middle of the history, then an unloading
            W.call(simu, "Set_Iter", -1)
            bad = step(Q(1, 4))
            if bad:
                return bad
            W.call(simu, "Result", "damage", True, 1)
            W.call(simu, "Set_Iter", -1)
            for ux in (Q(0), Q(3, 4)):
                bad = step(ux)
                if bad:
                    return bad
            if solver != "History" and max(saved[-1]["d"]) <= 0:
                raise Undecided("the scenario did not damage the body")
            # going back to an earlier iteration brings back what was saved with it
            for k in (2, 3, len(saved) - 1):
                W.call(simu, "Set_Iter", k)
                cur = {"d": nums(W.get(simu, "damage")), "u": nums(W.get(simu, "displacement")), "W": nums(W.call(simu, "Result", "Wdef"))[0]}
                for nm in ("d", "u"):
                    if cur[nm] != saved[k][nm]:
                        return f"{tag}: after Set_Iter({k}) the {'damage' if nm == 'd' else 'displacement'} is not the one saved with iteration {k}"
                # (Wdef is compared for the split-free model only: with a strain-dependent split the stiffness in use right after
                # Solve was assembled at the PREVIOUS displacement - the staggered lag - and the one rebuilt after Set_Iter at the
                # restored displacement; the two legitimately differ where the sign of the trace changed in the step)
                if split == "Bourdin" and abs(cur["W"] - saved[k]["W"]) > MARGIN:
                    return f"{tag}: after Set_Iter({k}) Result('Wdef') = {float(cur['W']):.6g}; it was {float(saved[k]['W']):.6g} when iteration {k} was saved (the degraded stiffness in use is not the one of the restored damage)"
            return None

        return (f"damage analysis {elem} {split} {regu} {solver}{'' if tolConv == 1 else ' tolConv<1'}", anchor, thunk)

    scen = [scenario("TRI3", "Bourdin", "AT2", "History", 1), scenario("TRI3", "Amor", "AT2", "HistoryDamage", 1), scenario("TRI3", "Bourdin", "AT2", "HistoryDamage", Q(1, 1000)),
            scenario("QUAD4", "Amor", "AT2", "History", 1)]
    if ctx.tier == "thorough":
        scen += [scenario("QUAD4", "Bourdin", "AT2", "HistoryDamage", Q(1, 1000)), scenario("TRI6", "Amor", "AT2", "History", 1), scenario("TRI3", "Amor", "AT2", "History", Q(1, 1000))]
    run_scenarios(ctx, r, scen)


# ---------------------------------------------------------------------------------------------------------------------
# C18: finite-strain analyses end to end (Newton iterations interpreted), Saint-Venant-Kirchhoff (a polynomial energy)
SVK = "EasyFEA.Models.HyperElastic._laws.SaintVenantKirchhoff"
HE_SIMU = "EasyFEA.Simulations._hyperelastic.HyperElastic"


def _svk_energy(md, W, u, lmbda, mu, thickness):
    """reference (written here): total stored energy of a simplex mesh (constant deformation gradient per element) for the
    Saint-Venant-Kirchhoff law W = lambda/2 tr(E)^2 + mu E:E, E = (F^T F - 1)/2, F = 1 + grad u; `u` is a flat list (numbers
    or polynomials), node-major.  Cramer's rule for the gradient."""
    dim = md.dim
    main = [k for k, rows in md.groups.items() if W.lib.gmsh[k]["dim"] == dim]
    tot = Poly.const(0)
    for k in main:
        for row in md.groups[k]:
            vs = row[:dim + 1]
            X = [md.coords[n][:dim] for n in vs]
            # edge matrix D[a][i] = X_a - X_0 ; grad u = D^-1 * dU
            D = [[X[a + 1][i] - X[0][i] for i in range(dim)] for a in range(dim)]
            if dim == 2:
                det = D[0][0] * D[1][1] - D[0][1] * D[1][0]
                inv = [[D[1][1] / det, -D[0][1] / det], [-D[1][0] / det, D[0][0] / det]]
                meas = abs(det) / 2
            else:
                c = lambda i, j: D[(i + 1) % 3][(j + 1) % 3] * D[(i + 2) % 3][(j + 2) % 3] - D[(i + 1) % 3][(j + 2) % 3] * D[(i + 2) % 3][(j + 1) % 3]
                det = sum(D[0][j] * c(0, j) for j in range(3))
                inv = [[c(j, i) / det for j in range(3)] for i in range(3)]
                meas = abs(det) / 6
            dU = [[Poly.of(u[vs[a + 1] * dim + i]) - Poly.of(u[vs[0] * dim + i]) for i in range(dim)] for a in range(dim)]
            # grad[i][j] = d u_i / d X_j = sum_a inv[j][a] * dU[a][i]
            F = [[sum((inv[j][a] * dU[a][i] for a in range(dim)), Poly.const(0)) + (1 if i == j else 0) for j in range(dim)] for i in range(dim)]
            E = [[(sum((F[k_][i] * F[k_][j] for k_ in range(dim)), Poly.const(0)) - (1 if i == j else 0)) / 2 for j in range(dim)] for i in range(dim)]
            tr = sum((E[i][i] for i in range(dim)), Poly.const(0))
            EE = sum((E[i][j] * E[i][j] for i in range(dim) for j in range(dim)), Poly.const(0))
            tot = tot + (tr * tr * lmbda / 2 + EE * mu) * meas * thickness
    return tot


def hyperelastic_rule(ctx, rid="R18.E2"):
    """Finite-strain analyses interpreted end to end with the polynomial Saint-Venant-Kirchhoff energy: material, simulation,
    boundary conditions, the Newton iterations of `Solve` (linear backend: exact elimination rounded to 30 digits), time stepping.

    static: at the converged displacement the stored energy written HERE (constant deformation gradient per simplex, Cramer's
    rule) is stationary with respect to every free dof - the residual the library drives to zero is the gradient of the stored
    energy, the tangent it iterates with lets Newton converge within the iteration budget - and `_Calc_W` reports that energy;
    dynamic: free motion from a non-rigid initial velocity under the midpoint scheme with the energy-conserving stresses
    (`gonzalez`; `quadrature` with 3 points, exact for this quartic energy): kinetic + stored energy (reference energy, the
    library's own M) is the same after every step, for two step sizes."""
    repo = ctx.repo
    r = ctx.rule(rid, "finite-strain analyses end to end (Saint-Venant-Kirchhoff): the converged static displacement makes the reference stored energy stationary on every free dof and _Calc_W reports it; free motion under midpoint with the gonzalez / 3-point quadrature stresses conserves kinetic + stored energy step after step", min_instances=3)
    anchor = repo.lookup_method(repo.cls(HE_SIMU), "Construct_local_matrix_system")
    W0 = World(repo)
    ALGO = "EasyFEA.Simulations.Solvers.AlgoType"
    LM, MU, TH = Q(3), Q(2), Q(1, 2)

    def num(p):
        p = Poly.of(p)
        if not p.is_const():
            raise Undecided("a symbolic value where a number was expected")
        v = p.const_value()
        return Q(v.approx()) if hasattr(v, "approx") else Q(v)

    def build(elem):
        W = World(repo, lib=W0.lib, extra={"MPI_RANK": 0}, round_digits=30)
        md, mesh = domain_mesh(W, elem)
        dim = md.dim
        mat = W.new(SVK, dim, LM, MU, thickness=TH) if dim == 2 else W.new(SVK, dim, LM, MU)
        simu = W.new(HE_SIMU, mesh, mat)
        return W, md, mesh, mat, simu, dim, (TH if dim == 2 else Q(1))

    def static(elem):
        def thunk():
            W, md, mesh, mat, simu, dim, th = build(elem)
            left = boundary_nodes(W, md, lambda c: c[0] == 0)
            right = boundary_nodes(W, md, lambda c: c[0] == 2)
            W.call(simu, "add_dirichlet", iarr(left), [Q(0)] * dim, ["x", "y", "z"][:dim])
            W.call(simu, "add_dirichlet", iarr(right), [Q(1, 5), Q(-1, 10)], ["x", "y"])
            W.call(simu, "Solve")
            u = [num(p) for p in polys(W.get(simu, "displacement"))]
            fixed = {n * dim + i for n in left for i in range(dim)} | {n * dim + i for n in right for i in range(2)}
            eps = Poly.var("eps")
            worst = Q(0)
            for dof in range(len(u)):
                if dof in fixed:
                    continue
                ue = [Poly.const(x) for x in u]
                ue[dof] = ue[dof] + eps
                We = _svk_energy(md, W, ue, LM, MU, th)
                d1 = sum((c for m, c in We.t.items() if sum(dict(m).values()) == 1), Q(0)) if hasattr(We, "t") else Q(0)
                worst = max(worst, abs(Q(d1)))
                if abs(Q(d1)) > Q(1, 10**5):
                    return f"static {elem}: at the converged displacement the derivative of the stored energy with respect to the free dof {dof} (node {dof // dim}, direction {'xyz'[dof % dim]}) is {float(d1):.3g} (energies of order 0.1): the residual driven to zero is not the gradient of the stored energy"
            Wlib = num(polys(W.call(simu, "_Calc_W"))[0])
            Wref = num(_svk_energy(md, W, u, LM, MU, th))
            if abs(Wlib - Wref) > Q(1, 10**15):
                return f"static {elem}: _Calc_W reports {float(Wlib):.8g}, the stored energy of the displacement is {float(Wref):.8g}"
            return None

        return (f"finite strain static {elem}", anchor, thunk)

    def dynamic(elem, stress, dt):
        def thunk():
            W, md, mesh, mat, simu, dim, th = build(elem)
            W.set(simu, "rho", Q(7, 3))
            W.call(simu, "Solver_Set_Hyperbolic_Algorithm", dt, W.enum(ALGO, "midpoint"))
            if stress == "quadrature":
                W.call(simu, "Solver_Set_Stress", stress, 3)
            else:
                W.call(simu, "Solver_Set_Stress", stress)
            n = md.Nn * dim
            u0 = XArray((n,), [Q(0)] * n)
            # a stretching / shearing initial velocity (not a rigid motion)
            v0 = XArray((n,), [(md.coords[k // dim][0] * Q(1, 2) if k % dim == 0 else md.coords[k // dim][0] * md.coords[k // dim][1] * Q(1, 3)) for k in range(n)])
            a0 = XArray((n,), [Q(0)] * n)
            pt = W.get(simu, "problemType")
            W.call(simu, "_Set_solutions", pt, u0, v0, a0)
            M = None
            energies = []

            def energy():
                nonlocal M
                u = [num(p) for p in polys(W.call(simu, "_Get_u_n", pt))]
                v = [num(p) for p in polys(W.call(simu, "_Get_v_n", pt))]
                if M is None:
                    M = dense(W.call(simu, "Get_K_C_M_F")[2], n)
                ke = sum(v[i] * num(M[i][j]) * v[j] for i in range(n) for j in range(n) if M[i][j] != 0) / 2
                return ke + num(_svk_energy(md, W, u, LM, MU, th)), ke

            for k in range(4):
                W.call(simu, "Solve")
                energies.append(energy())
            e0 = sum(v0.data[i] * num(M[i][j]) * v0.data[j] for i in range(n) for j in range(n) if M[i][j] != 0) / 2
            for k, (e, ke) in enumerate(energies):
                if abs(e - e0) > Q(1, 10**7) * e0:
                    return f"free motion {elem}, midpoint, {stress} stress, dt = {dt}: kinetic + stored energy is {float(e):.10g} after step {k + 1}, it was {float(e0):.10g} at the start (relative drift {float(abs(e - e0) / e0):.2e})"
            if abs(energies[-1][1] - e0) < Q(1, 1000) * e0:
                raise Undecided("the motion exchanged no energy between kinetic and stored")
            return None

        return (f"finite strain free motion {elem} {stress} dt={dt}", anchor, thunk)

    scen = [static("TRI3"), static("TETRA4"), dynamic("TRI3", "gonzalez", Q(1, 4)), dynamic("TRI3", "quadrature", Q(1, 4))]
    if ctx.tier == "thorough":
        scen += [dynamic("TRI3", "gonzalez", Q(1, 10)), dynamic("TRI3", "quadrature", Q(1, 10))]
    run_scenarios(ctx, r, scen)


# ---------------------------------------------------------------------------------------------------------------------
# C19: history-dependent material points end to end (constructors, MaterialPoint.Run, Behavior.Integrate, local solvers)
IE_BEH = "EasyFEA.Models.InElastic._behavior.Behavior"
IE_MP = "EasyFEA.Models.InElastic._materialpoint.MaterialPoint"


def inelastic_rule(ctx, rid="R19.E1"):
    """Strain histories of one material point interpreted end to end: `Yield.VonMises`, `IsotropicHardening.Linear`,
    `KinematicHardening.Prager`, `Behavior(...)`, `MaterialPoint(behavior).Run(...)` (uniaxial stress states driven in strain:
    load, unload, reversal; a non-proportional tension + shear path), with the local solvers (`__Flow`, the scalar spectral
    return) and the driver's own Newton on the stress-free components.  Arithmetic: exact rationals, square roots and dense
    solves rounded to 60 digits; every statement is decided with a margin of 1e-9 relative to stresses of order 1.

    Against the von Mises model written HERE (deviator, 3/2 s:s in Kelvin components, X = 2/3 C alpha, R = H p):
      admissible (svm(sig - X) <= sigma_y + R + tol), p never decreases, plastic strain traceless, the step dissipation
      (sig - X) : d eps_p - R dp equals sigma_y dp >= 0, an elastic step changes the stress by C d eps, a virgin elastic step
      returns Hooke's law; Integrate called twice from the
      same committed state returns the same answer and leaves that state untouched; the tangent it returns is the derivative
      of its stress (difference quotient with h = 1e-9 on a flowing step); the plane-stress behaviour returns the in-plane
      stress of the 3-D point driven with sig_zz = 0."""
    repo = ctx.repo
    r = ctx.rule(rid, "material-point histories end to end (von Mises, linear isotropic + Prager kinematic hardening; uniaxial load / unload / reversal and tension + shear): admissibility, monotone p, traceless plastic strain, dissipation = sigma_y dp, elastic steps, Integrate is repeatable and leaves the committed state untouched, tangent = d stress / d strain, plane stress = 3-D point with sig_zz = 0", min_instances=3)
    anchor = repo.lookup_method(repo.cls(IE_BEH), "Integrate")
    W0 = World(repo)
    E_, NU, SY, H_, CK = Q(200), Q(3, 10), Q(1), Q(10), Q(20)
    TOL = Q(1, 10**9)

    def num(v):
        p = Poly.of(v)
        if not p.is_const():
            raise Undecided("a symbolic value where a number was expected")
        c = p.const_value()
        return Q(c.approx()) if hasattr(c, "approx") else Q(c)

    def rows(a):
        a = a if isinstance(a, XArray) else XArray.from_nested(a)
        if a.ndim == 1:
            return [[num(x)] for x in a.data]
        n = a.shape[-1]
        return [[num(x) for x in a.data[k * n:(k + 1) * n]] for k in range(a.size // n)]

    def dev(s):
        m = (s[0] + s[1] + s[2]) / 3
        return [s[0] - m, s[1] - m, s[2] - m, s[3], s[4], s[5]]

    def svm2(s):
        d = dev(s)
        return Q(3, 2) * sum(x * x for x in d)

    def build(W, dim=3, kin=True, solver="auto", planeStress=False):
        el = W.new(ISO, 3, E=E_, v=NU)
        ys = W.func("EasyFEA.Models.InElastic.Yield.VonMises", SY)
        hd = W.func("EasyFEA.Models.InElastic.IsotropicHardening.Linear", H_)
        kn = W.func("EasyFEA.Models.InElastic.KinematicHardening.Prager", CK) if kin else None
        if dim == 3:
            return W.new(IE_BEH, 3, el, ys, hd, kn, solver=solver)
        return W.new(IE_BEH, 2, el, ys, hd, kn, planeStress=planeStress, solver=solver)

    def run(W, beh, paths):
        mp = W.new(IE_MP, beh)
        n = len(next(iter(paths.values())))
        out = W.call(mp, "Run", {k: XArray((n,), list(v)) for k, v in paths.items()})
        get = lambda k: out[k] if k in out else None
        res = {"strain": rows(out["strain"]), "stress": rows(out["stress"]), "p": [x[0] for x in rows(out["p"])], "eps_p": rows(out["eps_p"])}
        a = [k for k in out if str(k).startswith("alpha")]
        res["alpha"] = rows(out[a[0]]) if a else [[Q(0)] * 6 for _ in range(n)]
        return res

    UNI = {"xx": [Q(k, 1000) for k in (2, 4, 6, 8, 10, 8, 4, 0, -4, -8)]}
    MIX = {"xx": [Q(k, 1000) for k in (2, 4, 6, 8, 10, 8, 4, 0, -4, -8)], "xy": [Q(k, 1000) for k in (0, 1, 3, 6, 6, 2, 0, -3, -3, 1)]}

    def model_checks(tag, res, kin):
        lam = E_ * NU / ((1 + NU) * (1 - 2 * NU))
        mu = E_ / (2 * (1 + NU))
        n = len(res["p"])
        flowed = False
        for k in range(n):
            sig, p, ep, al = res["stress"][k], res["p"][k], res["eps_p"][k], res["alpha"][k]
            X = [Q(2, 3) * CK * x for x in al] if kin else [Q(0)] * 6
            xi = [a - b for a, b in zip(sig, X)]
            lim = SY + H_ * p
            if svm2(xi) > (lim + TOL) ** 2:
                return f"{tag}, step {k}: the stress lies OUTSIDE the current yield surface: svm(sig - X)^2 = {float(svm2(xi)):.9g} > (sigma_y + R)^2 = {float(lim * lim):.9g}"
            pp = res["p"][k - 1] if k else Q(0)
            if p < pp - TOL:
                return f"{tag}, step {k}: the accumulated plastic strain decreases ({float(pp):.6g} -> {float(p):.6g})"
            if abs(ep[0] + ep[1] + ep[2]) > TOL:
                return f"{tag}, step {k}: the von Mises plastic strain is not traceless (trace {float(ep[0] + ep[1] + ep[2]):.3g})"
            epp = res["eps_p"][k - 1] if k else [Q(0)] * 6
            dep = [a - b for a, b in zip(ep, epp)]
            dp = p - pp
            diss = sum(a * b for a, b in zip(xi, dep)) - H_ * p * dp
            if diss < -TOL:
                return f"{tag}, step {k}: the step dissipation (sig - X) : d eps_p - R dp = {float(diss):.3g} is negative"
            if abs(diss - SY * dp) > Q(1, 10**7):
                return f"{tag}, step {k}: the step dissipation (sig - X) : d eps_p - R dp = {float(diss):.9g} is not sigma_y dp = {float(SY * dp):.9g} (flow direction, multiplier or hardening forces inconsistent with the declared surface)"
            eps = res["strain"][k]
            ee = [a - b for a, b in zip(eps, ep)]
            tr = ee[0] + ee[1] + ee[2]
            hooke = [lam * tr * (1 if i < 3 else 0) + 2 * mu * ee[i] for i in range(6)]
            if any(abs(a - b) > Q(1, 10**7) for a, b in zip(sig, hooke)):
                return f"{tag}, step {k}: the stress is not C : (eps - eps_p) (Hooke's law on the elastic strain)"
            flowed = flowed or dp > Q(1, 10**6)
        if not flowed:
            raise Undecided("the path never flowed")
        return None

    def history(label, paths, kin, solver):
        def thunk():
            W = World(repo, lib=W0.lib, round_digits=30, approx_roots=True)
            res = run(W, build(W, kin=kin, solver=solver), paths)
            return model_checks(f"{label}{' + Prager' if kin else ''}, solver = {solver}", res, kin)

        return (f"material point {label}{' kinematic' if kin else ''} {solver}", anchor, thunk)

    def solvers_agree(label, paths):
        def thunk():
            W = World(repo, lib=W0.lib, round_digits=30, approx_roots=True)
            ra = run(W, build(W, kin=False, solver="auto"), paths)
            rn = run(W, build(W, kin=False, solver="newton"), paths)
            for k in range(len(ra["p"])):
                for nm in ("stress", "eps_p"):
                    d = max(abs(a - b) for a, b in zip(ra[nm][k], rn[nm][k]))
                    if d > Q(1, 10**7):
                        return f"{label}, step {k}: solver = 'auto' (scalar spectral return) and solver = 'newton' disagree on {nm} by {float(d):.3g}"
                if abs(ra["p"][k] - rn["p"][k]) > Q(1, 10**8):
                    return f"{label}, step {k}: solver = 'auto' and solver = 'newton' disagree on p by {float(abs(ra['p'][k] - rn['p'][k])):.3g}"
            return None

        return (f"material point {label}: both local solvers", anchor, thunk)

    def fe(vals):
        from ..femodel import FeV

        return FeV((1, 1, len(vals)), list(vals))

    def integrate_checks(kin, solver):
        def thunk():
            W = World(repo, lib=W0.lib, round_digits=30, approx_roots=True)
            beh = build(W, kin=kin, solver=solver)
            z = None
            path = [[Q(4, 1000), Q(-1, 1000), Q(-1, 1000), 0, 0, Q(1, 1000)], [Q(9, 1000), Q(-3, 1000), Q(-2, 1000), 0, Q(1, 1000), Q(4, 1000)]]
            for eps in path[:1]:
                sig, C, z, ok = W.call(beh, "Integrate", fe(eps), z, Q(0))
            eps = path[1]
            keep = list(XArray.from_nested(z).data)
            s1, C1, z1, ok1 = W.call(beh, "Integrate", fe(eps), z, Q(0))
            s2, C2, z2, ok2 = W.call(beh, "Integrate", fe(eps), z, Q(0))
            if list(XArray.from_nested(z).data) != keep:
                return f"solver = {solver}: Integrate modified the committed state it was handed"
            a, b = [num(x) for x in XArray.from_nested(s1).data], [num(x) for x in XArray.from_nested(s2).data]
            if a != b or [num(x) for x in XArray.from_nested(z1).data] != [num(x) for x in XArray.from_nested(z2).data]:
                return f"solver = {solver}: two calls of Integrate from the same committed state return different answers (the first call left something behind)"
            zz = [num(x) for x in XArray.from_nested(z1).data]
            if max(abs(x - y) for x, y in zip(zz, [num(v) for v in keep])) < Q(1, 10**6):
                raise Undecided("the step did not flow")
            Cm = XArray.from_nested(C1)
            h = Q(1, 10**9)
            for j in range(6):
                e2 = list(eps)
                e2[j] = e2[j] + h
                sj, _, _, _ = W.call(beh, "Integrate", fe(e2), z, Q(0))
                col = [(num(x) - y) / h for x, y in zip(XArray.from_nested(sj).data, a)]
                for i in range(6):
                    if abs(col[i] - num(Cm.data[i * 6 + j])) > Q(1, 10**4):
                        return f"solver = {solver}{', Prager' if kin else ''}: the returned tangent C[{i}][{j}] = {float(num(Cm.data[i * 6 + j])):.8g}, the difference quotient of the returned stress is {float(col[i]):.8g} (moduli of order 100)"
            return None

        return (f"material point Integrate: repeatable, pure, tangent ({solver}{', kinematic' if kin else ''})", anchor, thunk)

    def plane_stress():
        def thunk():
            W = World(repo, lib=W0.lib, round_digits=30, approx_roots=True)
            b3 = build(W, kin=True, solver="auto")
            r3 = run(W, b3, {"xx": [Q(k, 1000) for k in (3, 6, 9, 6)], "yy": [Q(k, 1000) for k in (-1, -1, -2, 0)], "xy": [Q(k, 1000) for k in (0, 2, 4, 4)]})
            b2 = build(W, dim=2, kin=True, solver="auto", planeStress=True)
            z = None
            for k in range(4):
                e2 = [r3["strain"][k][0], r3["strain"][k][1], r3["strain"][k][5]]
                sig, C, z, ok = W.call(b2, "Integrate", fe(e2), z, Q(0))
                s2 = [num(x) for x in XArray.from_nested(sig).data]
                want = [r3["stress"][k][0], r3["stress"][k][1], r3["stress"][k][5]]
                d = max(abs(x - y) for x, y in zip(s2, want))
                if d > Q(1, 10**6):
                    return f"plane stress, step {k}: the in-plane stress {[float(x) for x in s2]} is not the one of the 3-D point driven with sig_zz = sig_yz = sig_xz = 0 ({[float(x) for x in want]}): the out-of-plane strain does not leave sig_zz = 0"
            if r3["p"][-1] < Q(1, 10**6):
                raise Undecided("the path never flowed")
            return None

        return ("material point plane stress against the 3-D point with sig_zz = 0", anchor, thunk)

    # (the scalar spectral return - solver 'auto' on a surface without kinematic hardening - is not walked: the rounded
    # eigen-decomposition it starts from makes the exact rationals of its scalar Newton grow without bound; the agreement of
    # the two local solvers stays with the clause rules R19.8 / R19.19 / R19.20)
    scen = [history("uniaxial load / unload / reversal", UNI, True, "auto"), history("uniaxial load / unload / reversal", UNI, False, "newton"), history("tension + shear", MIX, True, "auto"),
            integrate_checks(True, "auto"), integrate_checks(False, "newton"), plane_stress()]
    if ctx.tier == "thorough":
        scen += [history("tension + shear", MIX, False, "newton"), history("uniaxial load / unload / reversal", UNI, True, "newton"), integrate_checks(True, "newton")]
    run_scenarios(ctx, r, scen)
