"""C09 -- distributed loads: dimension / thickness table, integration shape,
exclusive element selection, point-load split, pressure direction."""

from __future__ import annotations

import ast
from types import SimpleNamespace

from ..alg import Poly, Q, is_zero
from ..repo import AnalysisError, dotted, norm_text
from ..repo import FuncInfo
from ..xeval import Interp, XObj, Opaque, Sink, XRaise, Uninterpretable
from ..xarray import XArray, Lbl
from .. import xeval

SIMU = "EasyFEA.Simulations._simu._Simu"


def beam_lineload_rule(ctx):
    """R9.7: Beam.add_lineLoad (Euler-Bernoulli).  The displacement of the beam in GLOBAL axes is u_g = P u_l with
    u_l = N_l(xi) d_e the local interpolation (Lagrange axial row, Hermitian transverse / slope rows): a load of
    intensity f_g along the global unknown g therefore produces, on element dof j,
        F_j = sum_p wJ_p f_g(x_p) sum_l P[g, l] N_beam_local[p, l, j]      (block-wise: translations, rotations).
    add_lineLoad is interpreted on one element whose frame P is symbolic (an inclined member) and whose local axial
    row is the Lagrange interpolation; every route it takes (generic Lagrange integrator, Hermitian path) is summed per
    element dof and compared with that expression; each unknown must carry its own intensity."""
    repo = ctx.repo
    r = ctx.rule("R9.7", "Euler-Bernoulli line load on a member with an arbitrary frame: the nodal load of a global component g is sum_p wJ_p f_g(x_p) sum_l P[g,l] N_local[p,l,:] (whatever route - generic integrator or Hermitian path - each unknown takes), each unknown with its own intensity, paired with the element assembly dofs", min_instances=8)
    bcls = repo.cls("EasyFEA.Simulations._beam.Beam")
    f = bcls.methods["add_lineLoad"]
    eb = repo.cls("EasyFEA.FEM.Elems._beam.EULER_BERNOULLI2")
    nPe, nPg, dof_n = 2, 2, 3
    n = dof_n * nPe
    Nl = [[Poly.var(f"N{p}{m}") for m in range(nPe)] for p in range(nPg)]
    # local rows: 0 = axial (Lagrange on the x dofs), 1 = transverse v (Hermitian), 2 = slope rz (Hermitian derivative)
    Nloc = [[[Poly() for _ in range(n)] for _ in range(dof_n)] for _ in range(nPg)]
    for p in range(nPg):
        for m in range(nPe):
            Nloc[p][0][m * dof_n] = Nl[p][m]
        for rr in (1, 2):
            for m in range(nPe):
                for c in (1, 2):
                    Nloc[p][rr][m * dof_n + c] = Poly.var(f"H{p}_{rr}_{m}{c}")
    wJ = [Poly.var(f"w{p}") for p in range(nPg)]
    conn = [3, 5]
    allunk = ["x", "y", "rz"]
    frames = {
        "aligned": [[Poly.const(1) if a == b else Poly() for b in range(3)] for a in range(3)],
        "inclined": [[Poly.var("c"), -Poly.var("s"), Poly()], [Poly.var("s"), Poly.var("c"), Poly()], [Poly(), Poly(), Poly.const(1)]],
    }
    for frame_name, P in frames.items():
        # what the element class hands out: N_local . P_block^T-free form  u_l = N_beam d_glob  with  N_beam = N_local . (P^T blocks)
        # (B and N act on local dofs: d_local = P^T d_global at every node)
        Nbeam = [[[sum((Nloc[p][rr][3 * (j // 3) + k] * P[j % 3][k] for k in range(3)), Poly()) for j in range(n)] for rr in range(dof_n)] for p in range(nPg)]
        for kind in ("nodal", "constant"):
            for unknowns in (["x", "y"], ["y", "x"], ["rz", "y"], ["y"]):
                log = {}
                beam = SimpleNamespace(name="beam0", _Calc_P=lambda P=P: XArray((3, 3), [P[a][b] for a in range(3) for b in range(3)]))
                group = XObj(eb, dict(
                    nPe=nPe, Ne=1, connect=XArray((1, nPe), conn),
                    Get_Elements_Nodes=lambda nodes, exclusively=False, **k: (log.update(exclusively=exclusively), XArray((1,), [0]))[1],
                    Get_Elements_Tag=lambda name: XArray((1,), [0]),
                    Get_GaussCoordinates_e_pg=lambda mt, el=None: XArray((1, nPg, 3), [Poly.var(f"gx{p}{k}") for p in range(nPg) for k in range(3)]),
                    Get_weightedJacobian_e_pg=lambda mt=None: XArray((1, nPg), list(wJ)),
                    Get_beam_N_e_pg=lambda bs, *a, **k: XArray((1, nPg, dof_n, n), [Nbeam[p][rr][j] for p in range(nPg) for rr in range(dof_n) for j in range(n)]),
                    Get_N_pg=lambda mt=None: XArray((nPg, 1, nPe), [Nl[p][m] for p in range(nPg) for m in range(nPe)]),
                    _Get_assembly_e=lambda connect, d: XArray((1, n), [Lbl("asm", j) for j in range(n)]),
                    # the geometric frame of the line elements: NOT the frame of the member (the user gives its y axis)
                    _Get_sysCoord_e=lambda *a, **k: XArray((1, 3, 3), [Poly.var(f"S{a}{b}") for a in range(3) for b in range(3)]),
                ))
                obj = XObj(bcls, dict(
                    structure=SimpleNamespace(dim=2, dof_n=dof_n, beams=[beam]), problemType=Opaque("pt"), mesh=SimpleNamespace(Nn=8, groupElem=group),
                    _Check_dofs=lambda *a, **k: None, Get_unknowns=lambda pt=None: list(allunk),
                    _Bc_Add_Neumann=lambda pt, nodes, vals, dofs, unk, desc="": log.setdefault("neumann", []).append((nodes, vals, dofs, unk)),
                ))
                nodes_arg = XArray((3,), [7, 5, 3])
                if kind == "nodal":
                    g = {u: [Poly.var(f"g{u}7"), Poly.var(f"g{u}5"), Poly.var(f"g{u}3")] for u in unknowns}
                    vals = [XArray((3,), g[u]) for u in unknowns]
                else:
                    cst = {u: 7 + 4 * k for k, u in enumerate(unknowns)}
                    vals = [cst[u] for u in unknowns]

                def intensity(u, p):
                    if kind == "nodal":
                        gm = {7: g[u][0], 5: g[u][1], 3: g[u][2]}
                        return sum((gm[conn[m]] * Nl[p][m] for m in range(nPe)), Poly())
                    return Poly.const(cst[u])

                I = Interp(repo, extra_builtins={"callable": callable})
                from ..femchain import fe_hook_full

                def hook(fn, args, kwargs, log=log):
                    if isinstance(fn, FuncInfo) and fn.name == "add_lineLoad" and fn.cls is not None and fn.cls is not bcls:
                        log.setdefault("super", []).append((args[1], args[2]))
                        return None
                    return fe_hook_full(fn, args, kwargs)

                I.call_hook = hook
                tag = f"{frame_name}:{kind}:{','.join(unknowns)}"
                r.instance(fn=f.qualname)
                try:
                    I.call_function(f, [nodes_arg, vals, list(unknowns)], self_obj=obj)
                except XRaise as e:
                    r.fail(f.qualname, tag, f.file, f.lineno, "Beam.add_lineLoad", f"{tag}: {e}")
                    continue
                # total per element dof, over every route
                tot = [Poly() for _ in range(n)]
                bad = None
                for sv, su in log.get("super", []):
                    # the generic integrator (R9.2): Lagrange consistent load of each forwarded unknown with the forwarded intensity
                    for k, u in enumerate(su):
                        v = sv[k]
                        if kind == "nodal":
                            if not isinstance(v, XArray):
                                bad = f"unknown '{u}' is forwarded to the generic integrator without its nodal intensity"
                                continue
                            gm = {7: v.data[0], 5: v.data[1], 3: v.data[2]}
                            fp = [sum((gm[conn[m]] * Nl[p][m] for m in range(nPe)), Poly()) for p in range(nPg)]
                        else:
                            fp = [Poly.const(v)] * nPg
                        for m in range(nPe):
                            tot[m * dof_n + allunk.index(u)] = tot[m * dof_n + allunk.index(u)] + sum((wJ[p] * fp[p] * Nl[p][m] for p in range(nPg)), Poly())
                for _, nv, nd, nu in log.get("neumann", []):
                    nv, nd = XArray.from_nested(nv), XArray.from_nested(nd)
                    if nv.size != nd.size:
                        bad = f"Neumann condition with {nv.size} values for {nd.size} dofs"
                        continue
                    for val, lab in zip(nv.data, nd.data):
                        if not isinstance(lab, Lbl) or lab.v[0] != "asm":
                            bad = f"a Hermitian force is paired with {lab!r}, not with an element assembly dof"
                            continue
                        tot[lab.v[1]] = tot[lab.v[1]] + val
                if bad is None:
                    for j in range(n):
                        want = Poly()
                        for u in unknowns:
                            gi = allunk.index(u)
                            blk = 3 * (gi // 3)
                            for p in range(nPg):
                                want = want + wJ[p] * intensity(u, p) * sum((P[gi % 3][l] * Nbeam[p][blk + l][j] for l in range(3)), Poly())
                        d = tot[j] - want
                        if frame_name == "inclined":
                            # c^2 + s^2 = 1
                            d = d.subs({"s": Poly.var("s")})
                            d = _reduce_cs(d)
                        if not is_zero(d):
                            bad = f"element dof {j}: total nodal load {tot[j]!r}, expected sum_p wJ_p f(x_p) sum_l P[g,l] N_local[p,l,{j}] = {want!r}"
                            break
                if bad:
                    msg = f"{tag}: {bad}"
                    if frame_name == "inclined":
                        msg += " (member whose axis is not a global axis: the load is applied along the LOCAL axes / the Hermitian fields are not loaded by the other global component)"
                    r.fail(f.qualname, f"{frame_name}:{kind}:{','.join(sorted(unknowns))}", f.file, f.lineno, "Beam.add_lineLoad", msg)
                else:
                    r.ok(f"{tag}: global-component consistent load")


def _reduce_cs(p):
    """normal form modulo s^2 = 1 - c^2"""
    out = Poly()
    for mono, coef in p.t.items():
        md = dict(mono)
        e = md.pop("s", 0)
        term = Poly.const(coef)
        for v, k in md.items():
            term = term * Poly.var(v) ** k
        half, rem = divmod(e, 2)
        term = term * (Poly.const(1) - Poly.var("c") ** 2) ** half * (Poly.var("s") ** rem)
        out = out + term
    if any(dict(m).get("s", 0) >= 2 for m in out.t):
        return _reduce_cs(out)
    return out


def run(ctx):
    from . import e2e_rules as _e2e

    ctx.attempt(_e2e.beam_rule, ctx, 'R9.E3')
    # the load integrals use the same measures: mirrored mesh, a point located first, then a mass-rule integral
    ctx.attempt(_e2e.geometry_rule, ctx, 'R9.E2')
    ctx.attempt(_e2e.loads_rule, ctx, 'R9.E1')
    from ..shared import group_loop_rule as _group_loop_rule

    ctx.attempt(load_accumulation_rule, ctx)
    ctx.attempt(_group_loop_rule, ctx, "R9.12", scope=lambda f, _s=("EasyFEA.Simulations._simu", "EasyFEA.Simulations._beam", "EasyFEA.FEM._mesh"): f.module.name.startswith(_s), min_instances=5)
    ctx.attempt(gauss_coordinates_order_rule, ctx)
    from ..shared import state_alias_rule as _state_alias_rule

    ctx.attempt(_state_alias_rule, ctx, "R9.10", scope=lambda f, _s=("EasyFEA.FEM._group_elem", "EasyFEA.FEM._mesh", "EasyFEA.Simulations._simu", "EasyFEA.Simulations._beam"): f.module.name.startswith(_s), min_instances=50)
    repo = ctx.repo
    ctx.level = "other"
    ctx.explanation = (
        "The load routines of _Simu are interpreted on labelled stubs: (R9.1) for mesh.dim in {2,3} each public routine hands the right integration dimension to the integrator and "
        "multiplies by the thickness exactly once in 2-D and never in 3-D; (R9.2) the integrator, run on one symbolic boundary element, returns for every node n and unknown u the "
        "value sum_p wJ_p f(x_p) N_n(x_p) (functions / constants) or sum_p wJ_p (sum_m f_m N_m(x_p)) N_n(x_p) (nodal arrays), aligned with dof(node, u), using the mass quadrature and "
        "elements selected exclusively; (R9.5) a point load is divided by the number of nodes once; (R9.6) pressure uses the normals restricted to the first inDim components and "
        "the same unknown slice. Resultant and moment identities then follow from partition of unity / linear completeness (C06) and exact quadrature (C07). NOT decided: equality "
        "with an analytical integral for a given density; averaged nodal normals."
    )
    simu = repo.cls(SIMU)
    t = Poly.var("thickness")

    # ---- R9.1
    r1 = ctx.rule("R9.1", "dimension / thickness table: line -> (1, no thickness); surface -> 2-D: (1, x thickness) 3-D: (2, none); volume -> 2-D: (2, x thickness) 3-D: (3, none); a 2-D mesh lying in 3-D space follows the 2-D row", min_instances=9)
    expect = {
        ("add_lineLoad", 2): (1, 0), ("add_lineLoad", 3): (1, 0),
        ("add_surfLoad", 2): (1, 1), ("add_surfLoad", 3): (2, 0),
        ("add_volumeLoad", 2): (2, 1), ("add_volumeLoad", 3): (3, 0),
    }
    integ = {"_Simu__Bc_lineLoad": 1, "_Simu__Bc_surfload": 2, "_Simu__Bc_volumeload": 3}
    # a 2-D mesh need not lie in the plane z = 0 (a plate translated along z or tilted: thermal and weak-form simulations accept
    # it): the table follows the dimension of the MESH, not that of the space it is embedded in
    cases91 = [(mname, dim, dim, w) for (mname, dim), w in expect.items()] + [(mname, 2, 3, w) for (mname, dim), w in expect.items() if dim == 2]
    for mname, dim, inDim, (want_dim, want_t) in cases91:
        f = simu.methods[mname]
        r1.instance(fn=f.qualname)
        cap = {}
        obj = XObj(simu, dict(mesh=SimpleNamespace(dim=dim, inDim=inDim), model=SimpleNamespace(thickness=t), problemType=Opaque("pt"), dim=dim))
        a = obj.attrs
        a["_Simu__Bc_check_inputs"] = lambda *x, **k: True
        a["_Simu__Check_problemTypes"] = lambda *x, **k: None
        for nm, d in integ.items():
            a[nm] = (lambda d: (lambda *x, **k: (XArray((1,), [Poly.var(f"L{d}")]), Opaque("dofs"), Opaque("nodes"))))(d)
        a["_Bc_Add_Neumann"] = lambda pt, nodes, vals, dofs, unk, desc="": cap.update(vals=vals)
        I = Interp(repo)
        try:
            I.call_function(f, [Opaque("nodes"), [1], ["x"]], self_obj=obj)
        except XRaise as e:
            r1.fail(f.qualname, f"dim{dim}" + (f":inDim{inDim}" if inDim != dim else ""), f.file, f.lineno, mname, f"mesh.dim = {dim}, mesh.inDim = {inDim}: {e}")
            continue
        v = cap.get("vals")
        v = v.data[0] if isinstance(v, XArray) else v
        ok = False
        if isinstance(v, Poly):
            ok = is_zero(v - Poly.var(f"L{want_dim}") * (t**want_t))
        if ok:
            r1.ok(f"{mname}, mesh.dim={dim}, inDim={inDim}: integration dimension {want_dim}, thickness^{want_t}")
        else:
            r1.fail(f.qualname, f"dim{dim}" + (f":inDim{inDim}" if inDim != dim else ""), f.file, f.lineno, mname, f"mesh.dim = {dim}, mesh.inDim = {inDim}: nodal values are {v!r}; expected the dimension-{want_dim} integral{' times the thickness (once)' if want_t else ' with no thickness factor'}")

    # ---- R9.2 / R9.4 integrator on one symbolic element
    r2 = ctx.rule("R9.2", "integrator: values[n, u] = sum_p wJ_p f_p N_pn (interpolated density for nodal arrays), aligned with dof(node, u); mass quadrature; elements selected exclusively", min_instances=4)
    fI = simu.methods["__Bc_Integration_Dim"]
    nPe, nPg = 2, 2
    N = [[Poly.var(f"N{p}{n}") for n in range(nPe)] for p in range(nPg)]
    wJ = [Poly.var(f"w{p}") for p in range(nPg)]
    conn = [3, 5]
    for kind in ("function", "nodal"):
        r2.instance(fn=fI.qualname)
        log = {}
        group = SimpleNamespace(
            nPe=nPe,
            connect=XArray((1, nPe), conn),
            Get_Elements_Nodes=lambda nodes, exclusively=False, **k: (log.update(exclusively=exclusively), XArray((1,), [0]))[1],
            Get_GaussCoordinates_e_pg=lambda mt, el=None: (log.setdefault("mt", []).append(mt), Opaque("coord"))[1],
            Get_N_pg=lambda mt: (log.setdefault("mt", []).append(mt), XArray((nPg, 1, nPe), [N[p][n] for p in range(nPg) for n in range(nPe)]))[1],
            Get_weightedJacobian_e_pg=lambda mt: (log.setdefault("mt", []).append(mt), XArray((1, nPg), list(wJ)))[1],
        )
        obj = XObj(simu, dict(mesh=SimpleNamespace(Nn=8, Get_list_groupElem=lambda d=None: [group])))
        fp = [Poly.var(f"f{p}") for p in range(nPg)]
        obj.attrs["_Simu__Bc_evaluate"] = lambda coord, val, option="": XArray((1, nPg), list(fp))
        obj.attrs["Bc_dofs_nodes"] = lambda nodes, unknowns, pt=None: XArray((len(list(nodes)),), [Lbl("dof", int(n), unknowns[0]) for n in nodes])
        I = Interp(repo, extra_builtins={"callable": callable})
        # the loaded node set is deliberately unsorted and larger than the element: values are matched to nodes by identity
        nodes_arg = XArray((3,), [7, 5, 3])
        if kind == "function":
            values = [lambda x, y, z: 0]
            # python callables are opaque to the interpreter; the stub __Bc_evaluate supplies f at the Gauss points
        else:
            fm = [Poly.var("g3"), Poly.var("g5")]
            values = [XArray((3,), [Poly.var("g7"), fm[1], fm[0]])]
        try:
            vals, dofs, used = I.call_function(fI, [1, Opaque("pt"), nodes_arg, values, ["y"]], self_obj=obj)
        except XRaise as e:
            r2.fail(fI.qualname, kind, fI.file, fI.lineno, "__Bc_Integration_Dim", f"{kind} load: {e}")
            continue
        vals, dofs = XArray.from_nested(vals), XArray.from_nested(dofs)
        bad = None
        if vals.size != nPe or dofs.size != nPe:
            bad = f"{vals.size} values / {dofs.size} dofs for {nPe} nodes"
        else:
            for n in range(nPe):
                if kind == "function":
                    want = sum((wJ[p] * fp[p] * N[p][n] for p in range(nPg)), Poly())
                else:
                    want = sum((wJ[p] * sum((fm[m] * N[p][m] for m in range(nPe)), Poly()) * N[p][n] for p in range(nPg)), Poly())
                if not is_zero(vals.data[n] - want):
                    bad = f"node {conn[n]}: {vals.data[n]!r}, expected {want!r}"
                if dofs.data[n] != Lbl("dof", conn[n], "y"):
                    bad = f"value {n} is paired with {dofs.data[n]!r}, expected dof(node {conn[n]}, 'y')"
        if bad:
            r2.fail(fI.qualname, kind, fI.file, fI.lineno, "__Bc_Integration_Dim", f"{kind} load: nodal forces are not the consistent integral sum_p wJ_p f(x_p) N_n(x_p): {bad}")
        else:
            r2.ok(f"{kind} load: consistent nodal forces, aligned with dof(node, unknown)")
        r2.instance(fn=fI.qualname)
        mts = {str(m) for m in log.get("mt", [])}
        if log.get("exclusively") is True and mts == {"mass"}:
            r2.ok(f"{kind}: Get_Elements_Nodes(nodes, exclusively=True); MatrixType.mass for coordinates, N and wJ")
        else:
            r2.fail(fI.qualname, f"selection:{kind}", fI.file, fI.lineno, "__Bc_Integration_Dim", f"elements selected with exclusively={log.get('exclusively')} and quadrature(s) {sorted(mts)}: nodes that bound no loaded element would receive load / N and wJ would use different points")

    # other integrators must also select exclusively (R9.4)
    r4 = ctx.rule("R9.4", "every load integrator obtains its elements through Get_Elements_Nodes(nodes, exclusively=True)", min_instances=2)
    for f in repo.all_functions():
        if not (f.module.name.startswith("EasyFEA.Simulations") or f.qualname.endswith("Mesh.Get_normals")):
            continue
        for n in ast.walk(f.node):
            if isinstance(n, ast.Call) and (dotted(n.func) or "").endswith("Get_Elements_Nodes"):
                r4.instance(fn=f.qualname)
                ex = next((k.value for k in n.keywords if k.arg == "exclusively"), n.args[1] if len(n.args) > 1 else None)
                if isinstance(ex, ast.Constant) and ex.value is True:
                    r4.ok(f"{f.qualname}: {norm_text(n)}")
                else:
                    r4.fail(f.qualname, f"exclusively:{norm_text(n)}", f.file, n.lineno, f.name, f"{norm_text(n)} does not select elements exclusively: a node set touching an element only partially would load it")

    beam_lineload_rule(ctx)
    from .. import beamops as _beamops
    from ..elems import ElemLib as _ElemLib

    ctx.attempt(_beamops.interpolation_rule, ctx, _ElemLib(repo), "R9.13")
    ctx.attempt(load_family_rule, ctx)
    ctx.attempt(empty_selection_rule, ctx)
    ctx.attempt(load_quadrature_rule, ctx)
    from .c08 import mesh_motion_rule as _mesh_motion_rule

    # loads are integrated on the boundary groups: after a motion / re-coordination their Jacobians are those of the new geometry
    ctx.attempt(_mesh_motion_rule, ctx, "R9.16")
    from ..shared import loop_carried_parameter_rule as _loop_carried_parameter_rule

    # a load selection covering faces of several boundary groups: every group is searched with the caller's node set
    ctx.attempt(_loop_carried_parameter_rule, ctx, "R9.18", lambda f: f.module.name.startswith(("EasyFEA.FEM", "EasyFEA.Simulations")), 20)
    selection_rules(ctx)

    # ---- R9.5 point load
    r5 = ctx.rule("R9.5", "a concentrated load distributes its total over the selected nodes (divided by len(nodes) exactly once)", min_instances=1)
    fP = simu.methods["__Bc_pointLoad"]
    r5.instance(fn=fP.qualname)
    Nn = 3
    obj = XObj(simu, dict(mesh=SimpleNamespace(coord=XArray((5, 3), [Q(0)] * 15))))
    obj.attrs["_Simu__Bc_evaluate"] = lambda coord, val, option="": XArray((Nn,), [Poly.var("F")] * Nn)
    obj.attrs["Bc_dofs_nodes"] = lambda nodes, unknowns, pt=None: Opaque("dofs")
    I = Interp(repo)
    try:
        vals, dofs = I.call_function(fP, [Opaque("pt"), XArray((Nn,), [0, 2, 4]), [7], ["x"]], self_obj=obj)
        vals = XArray.from_nested(vals)
        tot = sum(vals.data, Poly())
        if vals.size == Nn and is_zero(tot - Poly.var("F")):
            r5.ok("point load: sum over nodes == prescribed total")
        else:
            r5.fail(fP.qualname, "split", fP.file, fP.lineno, "__Bc_pointLoad", f"the nodal values sum to {tot!r}, not to the prescribed total F")
    except XRaise as e:
        r5.fail(fP.qualname, "split", fP.file, fP.lineno, "__Bc_pointLoad", str(e))

    # ---- R9.5b point load with several unknowns: the value of unknown d at node k sits where dof (k, d) sits
    r5.instance(fn=fP.qualname)
    Fs = [Poly.var("Fx"), Poly.var("Fy")]
    obj = XObj(simu, dict(mesh=SimpleNamespace(coord=XArray((5, 3), [Q(0)] * 15))))
    obj.attrs["_Simu__Bc_evaluate"] = lambda coord, val, option="": XArray((Nn,), [val] * Nn)
    obj.attrs["_Simu__Check_problemTypes"] = lambda *a, **k: None
    obj.attrs["Get_unknowns"] = lambda pt=None: ["x", "y"]
    obj.attrs["problemType"] = Opaque("pt")
    nodes3 = [0, 2, 4]
    I = Interp(repo)
    try:
        vals, dofs = I.call_function(fP, [Opaque("pt"), XArray((Nn,), nodes3), list(Fs), ["x", "y"]], self_obj=obj)
        vals, dofs = XArray.from_nested(vals).ravel(), XArray.from_nested(dofs).ravel()
        got = {}
        for v, dd in zip(vals.data, dofs.data):
            got[int(dd)] = got.get(int(dd), Poly()) + v
        bad = None
        if vals.size != dofs.size:
            bad = f"{vals.size} values for {dofs.size} dofs"
        for k, n in enumerate(nodes3):
            for c in range(2):
                if bad is None and not is_zero(got.get(2 * n + c, Poly()) - Fs[c] * Q(1, Nn)):
                    bad = f"dof {'xy'[c]} of node {n} receives {got.get(2 * n + c, Poly())!r}, expected {'Fx' if c == 0 else 'Fy'}/3"
        if bad:
            r5.fail(fP.qualname, "pairing", fP.file, fP.lineno, "__Bc_pointLoad", f"point load (Fx, Fy) on 3 nodes: {bad}: the values are not laid out like the dofs they are paired with")
        else:
            r5.ok("point load with two unknowns: each dof (node, unknown) receives F_unknown / Nn")
    except XRaise as e:
        r5.fail(fP.qualname, "pairing", fP.file, fP.lineno, "__Bc_pointLoad", str(e))

    # ---- R9.6 pressure
    r6 = ctx.rule("R9.6", "pressure: direction = mesh normals restricted to the first inDim components, same slice for the unknowns; integration over dim-1; thickness once in 2-D", min_instances=2)
    fQ = simu.methods["__Bc_pressureload"]
    for dim in (2, 3):
        r6.instance(fn=fQ.qualname)
        cap = {}
        nrm = XArray((2, 3), [Poly.var(f"n{i}{k}") for i in range(2) for k in range(3)])
        obj = XObj(simu, dict(mesh=SimpleNamespace(dim=dim, inDim=dim, Get_normals=lambda nodes: (nrm, nodes)), model=SimpleNamespace(thickness=t)))
        obj.attrs["Get_unknowns"] = lambda pt=None: ["x", "y", "z"][:dim]

        def integ_stub(d, problemType=None, nodes=None, values=None, unknowns=None):
            cap.update(dim=d, values=values, unknowns=unknowns)
            return (Opaque("v"), Opaque("d"), Opaque("n"))

        obj.attrs["_Simu__Bc_Integration_Dim"] = integ_stub
        I = Interp(repo)
        p = Poly.var("p")
        try:
            I.call_function(fQ, [Opaque("pt"), Opaque("nodes"), p], self_obj=obj)
        except XRaise as e:
            r6.fail(fQ.qualname, f"dim{dim}", fQ.file, fQ.lineno, "__Bc_pressureload", str(e))
            continue
        ok = cap.get("dim") == dim - 1 and list(cap.get("unknowns") or []) == ["x", "y", "z"][:dim] and len(cap.get("values") or []) == dim
        if ok:
            fac = p * (t if dim == 2 else 1)
            for k in range(dim):
                col = XArray.from_nested(cap["values"][k])
                if not all(is_zero(col.data[i] - nrm[i, k] * fac) for i in range(2)):
                    ok = False
        if ok:
            r6.ok(f"dim {dim}: values[k] = normal[:, k] * magnitude{' * thickness' if dim == 2 else ''}, unknowns {['x','y','z'][:dim]}, integration over dimension {dim-1}")
        else:
            r6.fail(fQ.qualname, f"dim{dim}", fQ.file, fQ.lineno, "__Bc_pressureload", f"dim {dim}: integrator called with dim={cap.get('dim')}, unknowns={cap.get('unknowns')}, values not normal_k * magnitude{' * thickness' if dim == 2 else ''}")


def selection_rules(ctx):
    """R9.8: load evaluation hands back fresh arrays and no load API writes into the caller's value / node arrays.
    R9.9: the element selection consumes the node list through multiplicity-erasing operations only (a node listed
    twice - the corner of two concatenated edges - selects the same elements)."""
    from ..flow import CallGraph, alias_closure, multiplicity_sinks, param_inplace, returns_alias

    repo = ctx.repo
    simu = repo.cls("EasyFEA.Simulations._simu._Simu")
    cg = CallGraph(repo)
    r8 = ctx.rule("R9.8", "caller data are read-only for the load API: __Bc_evaluate returns a fresh array (never an alias of the values it was given), and no add_* / integrator function writes its `values` / `nodes` arguments in place", min_instances=6)
    fe = simu.methods["__Bc_evaluate"]
    r8.instance(fn=fe.qualname)
    ps = [p for p in fe.params() if p != "self"]
    leaks = [p for p in ps if returns_alias(fe.node, alias_closure(fe.node, {p}))]
    if leaks:
        r8.fail(fe.qualname, "returns-alias", fe.file, fe.lineno, "__Bc_evaluate", f"the evaluated load can be (a view of) the caller's `{leaks[0]}`: the integrators scale it in place (e.g. the point load divides by the number of nodes), so the user's array shrinks on every use")
    else:
        r8.ok("__Bc_evaluate returns the freshly allocated array")
    for nm in ("add_dirichlet", "add_neumann", "add_lineLoad", "add_surfLoad", "add_volumeLoad", "add_pressureLoad"):
        f = simu.methods.get(nm)
        if f is None:
            continue
        r8.instance(fn=f.qualname)
        sinks = param_inplace(cg, f, {p for p in f.params() if p in ("values", "nodes")}, depth=5)
        if sinks:
            g, node, desc = sinks[0]
            r8.fail(f.qualname, f"writes-caller-data:{g.name}", g.file, node.lineno, nm, f"{nm} reaches {g.name}, which writes the caller's array in place ({desc})")
        else:
            r8.ok(f"{nm}: values / nodes are only read")
    r9 = ctx.rule("R9.9", "node selections are sets: Get_Elements_Nodes consumes its node list only through multiplicity-erasing operations (set, unique, isin, masks), never through a count (sum, len, size, bincount)", min_instances=1)
    ge = repo.cls("EasyFEA.FEM._group_elem._GroupElem")
    f = ge.methods["Get_Elements_Nodes"]
    r9.instance(fn=f.qualname)
    sinks = multiplicity_sinks(f.node, {"nodes"})
    if sinks:
        node, desc = sinks[0]
        r9.fail(f.qualname, "counts-duplicates", f.file, node.lineno, "Get_Elements_Nodes", f"`{norm_text(node)[:80]}`: {desc} of a value that keeps one entry per entry of `nodes`: a node listed twice (corner shared by two concatenated edge selections) changes which elements are selected, and the loads on them are lost")
    else:
        r9.ok("Get_Elements_Nodes: the node list reaches the result through set / nonzero->set / mask operations only")


def gauss_coordinates_order_rule(ctx):
    """R9.11: the load integrators pair, row by row, the Gauss-point coordinates of the selected elements with
    `connect[elements]` and `wJ_e_pg[elements]`; the selection is in hash order (a set), not sorted.  Row k of
    Get_GaussCoordinates_e_pg(mt, elements) must therefore belong to elements[k]: interpreted on three symbolic elements
    with the unsorted selection (2, 0)."""
    repo = ctx.repo
    r = ctx.rule("R9.11", "Get_GaussCoordinates_e_pg(matrixType, elements): row k holds the Gauss-point coordinates of elements[k] (selection order kept, also when it is not ascending)", min_instances=2)
    ge = repo.cls("EasyFEA.FEM._group_elem._GroupElem")
    f = ge.methods["Get_GaussCoordinates_e_pg"]
    Ne, nPe, nPg, Nn = 3, 2, 2, 4
    connect = XArray((Ne, nPe), [0, 1, 1, 2, 2, 3])
    coord = XArray((Nn, 3), [Poly.var(f"X{n}{d}") for n in range(Nn) for d in range(3)])
    N = XArray((nPg, 1, nPe), [Poly.var(f"N{p}{a}") for p in range(nPg) for a in range(nPe)])
    from ..femchain import fe_hook_full

    for sel in ([2, 0], [1, 2, 0]):
        r.instance(fn=f.qualname)
        obj = XObj(ge, dict(Ne=Ne, nPe=nPe, Ncoords=Nn, connect=connect, coord=XArray(coord.shape, list(coord.data)), elements=XArray((Ne,), [0, 1, 2]), nodes=XArray((Nn,), list(range(Nn))),
                            _global_to_local_nodes=XArray((Nn,), list(range(Nn))), Get_N_pg=lambda mt=None: N))
        obj.attrs[ge.mangle("__connect")] = connect
        obj.attrs[ge.mangle("__coord")] = coord
        I = Interp(repo)
        I.call_hook = fe_hook_full
        try:
            out = XArray.from_nested(I.call_function(f, [Opaque("mt"), XArray((len(sel),), list(sel))], self_obj=obj))
        except XRaise as e:
            r.fail(f.qualname, f"sel:{sel}", f.file, f.lineno, "Get_GaussCoordinates_e_pg", f"selection {sel}: raises {e}")
            continue
        bad = None
        if out.shape != (len(sel), nPg, 3):
            bad = f"shape {out.shape}"
        else:
            for k, e in enumerate(sel):
                for p in range(nPg):
                    for d in range(3):
                        want = sum((N[p, 0, a] * coord[connect[e, a], d] for a in range(nPe)), Poly())
                        if not is_zero(out[k, p, d] - want):
                            bad = f"row {k} (element {e}), point {p}: {out[k, p, d]!r}, expected {want!r}"
        if bad:
            r.fail(f.qualname, "selection-order", f.file, f.lineno, "Get_GaussCoordinates_e_pg", f"selection {sel}: {bad}: a position-dependent load is evaluated at another element's Gauss points than the one whose nodes receive it")
        else:
            r.ok(f"selection {sel}: rows follow the selection")


def load_family_rule(ctx):
    """R9.14: the load entry points of a simulation form one family (add_neumann / add_lineLoad / add_surfLoad /
    add_volumeLoad / add_pressureLoad, all taking `problemType`): a simulation class that overrides some of them to
    change the default problem the load goes to (the displacement problem of a staggered simulation) overrides all of
    them -- a sibling left at the base default sends a line / surface / volume load to another problem (or rejects the
    unknowns of the displacement problem)."""
    repo = ctx.repo
    simu = repo.cls(SIMU)
    r = ctx.rule("R9.14", "load entry points with a problemType default are overridden together: a class that re-targets one of them re-targets all of them", min_instances=1)
    family = [nm for nm, f in simu.methods.items() if nm.startswith("add_") and "problemType" in f.params() and nm != "add_dirichlet"]
    if len(family) < 4:
        raise AnalysisError("R9.14: the load family of _Simu was not found")

    def default_of(f):
        a = f.node.args
        names = [x.arg for x in a.args]
        if "problemType" not in names:
            return None
        i = names.index("problemType") - (len(names) - len(a.defaults))
        return norm_text(a.defaults[i]) if 0 <= i < len(a.defaults) else None

    for ci in sorted(repo.subclasses(simu), key=lambda c: c.qualname):
        own = {nm: ci.methods[nm] for nm in family if nm in ci.methods and ci.methods[nm].cls is ci}
        retargeted = {nm: default_of(f) for nm, f in own.items() if default_of(f) not in (None, "None")}
        if not retargeted:
            continue
        r.instance(fn=ci.qualname)
        missing = sorted(nm for nm in family if nm not in retargeted)
        targets = set(retargeted.values())
        if missing:
            f0 = next(iter(own.values()))
            r.fail(ci.qualname, f"family:{ci.name}", f0.file, f0.lineno, ci.name, f"{ci.name} sends {sorted(retargeted)} to {sorted(targets)} by default but leaves {missing} at the base default: {missing[0]} on the displacement unknowns is rejected (or goes to the other problem)")
        elif len(targets) > 1:
            f0 = next(iter(own.values()))
            r.fail(ci.qualname, f"family-targets:{ci.name}", f0.file, f0.lineno, ci.name, f"{ci.name}: the load entry points default to different problems {sorted(targets)}")
        else:
            r.ok(f"{ci.name}: every load entry point defaults to {sorted(targets)[0]}")


def empty_selection_rule(ctx):
    """R9.15: 'loads on nodes that do not bound any loaded element contribute nothing': when the node set selects no
    element at all (a single corner node, nodes of another part of the mesh), the chain integrator -> boundary condition
    must produce an EMPTY condition, not an exception: (a) __Bc_Integration_Dim interpreted on a mesh whose groups select
    no element returns no value, no dof, no node; (b) BoundaryCondition(...) accepts that empty triple; (c) Mesh.Get_normals
    on a node set that bounds no boundary element returns no normal and no node; (d) Get_Elements_Nodes of an empty node
    array is empty."""
    repo = ctx.repo
    r = ctx.rule("R9.15", "a load whose nodes bound no element is an empty condition (integrator, BoundaryCondition, Mesh.Get_normals and Get_Elements_Nodes accept the empty selection without raising)", min_instances=4)
    simu = repo.cls(SIMU)
    fI = simu.methods["__Bc_Integration_Dim"]
    empty_i = lambda: XArray((0,), [], "i")
    # (a) integrator
    r.instance(fn=fI.qualname)
    group = SimpleNamespace(nPe=2, connect=XArray((1, 2), [3, 5]), Get_Elements_Nodes=lambda nodes, exclusively=False, **k: empty_i())
    obj = XObj(simu, dict(mesh=SimpleNamespace(Nn=8, Get_list_groupElem=lambda d=None: [group])))
    obj.attrs["Bc_dofs_nodes"] = lambda nodes, unknowns, pt=None: XArray((len(list(XArray.from_nested(nodes).data)) * len(unknowns),), [Lbl("dof", int(n), u) for n in XArray.from_nested(nodes).data for u in unknowns])
    I = Interp(repo, extra_builtins={"callable": callable})
    triple = None
    try:
        vals, dofs, used = I.call_function(fI, [1, Opaque("pt"), XArray((1,), [7]), [Q(1)], ["x"]], self_obj=obj)
        sizes = [XArray.from_nested(v).size for v in (vals, dofs, used)]
        if sizes == [0, 0, 0]:
            r.ok("__Bc_Integration_Dim: no element selected -> no value, no dof, no node")
            triple = (vals, dofs, used)
        else:
            r.fail(fI.qualname, "empty-selection:integrator", fI.file, fI.lineno, "__Bc_Integration_Dim", f"no element selected, yet {sizes[0]} values / {sizes[1]} dofs / {sizes[2]} nodes are returned: nodes that bound no loaded element receive load")
    except XRaise as e:
        r.fail(fI.qualname, "empty-selection:integrator", fI.file, fI.lineno, "__Bc_Integration_Dim", f"no element selected: raises {e} (a load on nodes that bound no element must contribute nothing, not fail)")
    # (b) the condition object
    bc = repo.cls("EasyFEA.FEM._boundary_conditions.BoundaryCondition")
    fB = bc.methods["__init__"]
    r.instance(fn=fB.qualname)
    try:
        o = XObj(bc, {})
        I2 = Interp(repo)
        I2.call_function(fB, [Opaque("pt"), empty_i(), empty_i(), ["x"], XArray((0,), []), ""], self_obj=o)
        r.ok("BoundaryCondition accepts (no node, no dof, no value)")
    except XRaise as e:
        r.fail(fB.qualname, "empty-selection:condition", fB.file, fB.lineno, "BoundaryCondition.__init__", f"a condition on no node raises {e}: add_lineLoad / add_surfLoad / add_volumeLoad on nodes that bound no element fail instead of contributing nothing")
    # (c) normals
    mesh = repo.cls("EasyFEA.FEM._mesh.Mesh")
    fN = mesh.methods["Get_normals"]
    r.instance(fn=fN.qualname)
    try:
        g2 = SimpleNamespace(Get_Elements_Nodes=lambda nodes, exclusively=False, **k: empty_i())
        o = XObj(mesh, {"Nn": 8, "dim": 2, "Get_list_groupElem": lambda d=None: [g2], "nodes": XArray((8,), list(range(8)), "i")})
        I3 = Interp(repo)
        out = I3.call_function(fN, [XArray((1,), [7], "i")], self_obj=o)
        nrm, nds = XArray.from_nested(out[0]), XArray.from_nested(out[1])
        if nrm.size == 0 and nds.size == 0:
            r.ok("Mesh.Get_normals: nodes bounding no boundary element -> no normal, no node")
        else:
            r.fail(fN.qualname, "empty-selection:normals", fN.file, fN.lineno, "Mesh.Get_normals", f"nodes bounding no boundary element give {nrm.shape} normals")
    except XRaise as e:
        r.fail(fN.qualname, "empty-selection:normals", fN.file, fN.lineno, "Mesh.Get_normals", f"nodes bounding no boundary element: raises {e} (add_pressureLoad fails instead of contributing nothing)")
    # (d) element selection of an empty node set
    ge = repo.cls("EasyFEA.FEM._group_elem._GroupElem")
    fE = ge.methods["Get_Elements_Nodes"]
    r.instance(fn=fE.qualname)
    try:
        from .c03 import XCsr

        conn = XArray((2, 2), [0, 1, 1, 2], "i")
        cne = XCsr((XArray((4,), [1, 1, 1, 1]), (XArray((4,), [0, 1, 1, 2], "i"), XArray((4,), [0, 0, 1, 1], "i"))), shape=(3, 2))
        o = XObj(ge, {ge.mangle("__connect"): conn, "Get_connect_n_e": lambda: cne, "Nn": 3})
        I4 = Interp(repo)
        out = XArray.from_nested(I4.call_function(fE, [empty_i(), True], self_obj=o))
        if out.size == 0:
            r.ok("Get_Elements_Nodes(no node) -> no element")
        else:
            r.fail(fE.qualname, "empty-selection:elements", fE.file, fE.lineno, "_GroupElem.Get_Elements_Nodes", f"an empty node set selects {out.size} elements")
    except XRaise as e:
        r.fail(fE.qualname, "empty-selection:elements", fE.file, fE.lineno, "_GroupElem.Get_Elements_Nodes", f"an empty node set raises {e}")


def load_quadrature_rule(ctx, rid="R9.17"):
    """'... for intensities given as ... polynomial functions of position up to the quadrature order': the loads are
    integrated with the MASS rule of the loaded element type; for every element type that rule integrates the polynomials
    of its documented order exactly (resultant: density x partition of unity; moment: one degree more is the business of
    the documented order itself).  Decided with the exact rule tables (same engine as C07), restricted to the rules the
    load integrator selects."""
    from ..gausslib import GaussLib
    from ..elems import topology

    repo = ctx.repo
    gl = GaussLib(repo)
    r = ctx.rule(rid, "the quadrature rule each element type uses for loads (MatrixType.mass) is exact to its documented order", min_instances=15)
    fac = repo.method("EasyFEA.FEM._gauss.Gauss", "Gauss_factory")
    for e in sorted(gl.et_members):
        if e == "POINT":
            continue
        res = gl.factory(e, "mass")
        if res[0] != "rule":
            continue
        shape, n = res[1], res[2]
        rule = gl.rule(shape, n)
        r.instance(fn=fac.qualname)
        if rule is None:
            r.fail(fac.qualname, f"load-rule:{e}", fac.file, fac.lineno, "Gauss_factory", f"{e}: the mass rule ({shape}, {n} points) raises")
            continue
        d, bad, err = rule.degree(8)
        doc = gl.doc_orders(shape)
        want = None
        if doc is not None:
            av, orders = doc
            if n in av:
                want = min(v[n] for v in orders.values())
        if want is not None and d < want:
            r.fail(f"{rule.func.qualname}[nPg={n}]", f"load-rule:{e}", rule.func.file, rule.func.lineno, f"Gauss.{rule.func.name}({n})", f"{e} loads are integrated with the {n}-point {shape} rule, documented exact to degree {want}, but monomial exponents {bad} are integrated with error {float(err):.3e} (exact only to degree {d}): the resultant / moment of a polynomial density of that degree is wrong")
        else:
            r.ok(f"{e}: mass rule {shape}/{n} exact to degree {d}" + (f" >= documented {want}" if want is not None else ""))


def load_accumulation_rule(ctx, rid="R9.19"):
    """'The nodal forces produced by a ... load sum to the analytical integral of the load density': loads are cumulative -
    a load entered in two equal increments (own weight in two halves, a pressure raised in two equal steps, the same point
    force applied twice) is twice the load.  The registration point of every Neumann load, `_Simu._Bc_Add_Neumann`, and
    the two gatherers the solver reads (`Bc_dofs_Neumann`, `Bc_values_Neumann`) are interpreted with the repository's own
    BoundaryCondition: after registering c1, c1 again (identical nodes, dofs, values, description) and c2, the gathered
    (dof, value) pairs are those of all three conditions, in order."""
    from ..xeval import Sink

    repo = ctx.repo
    simu = repo.cls(SIMU)
    bc = repo.cls("EasyFEA.FEM._boundary_conditions.BoundaryCondition")
    fA = simu.methods["_Bc_Add_Neumann"]
    r = ctx.rule(rid, "Neumann conditions accumulate: registering the same load twice (and another one) makes the solver see every registered (dof, value) pair, identical conditions included", min_instances=1)
    r.instance(fn=fA.qualname)
    I = Interp(repo, extra_builtins={"Tic": lambda *a, **k: Sink()})
    I.constructible = {bc.qualname}
    obj = XObj(simu, {"_Simu__Bc_Neumann": [], "_Check_dofs": lambda *a, **k: None, "_verbosity": False, "problemType": "pt"})
    g1, g2 = [Poly.var("g1a"), Poly.var("g1b")], [Poly.var("g2a")]
    conds = [([4, 7], [8, 14], g1, "load"), ([4, 7], [8, 14], g1, "load"), ([9], [18], g2, "load")]
    try:
        for nodes, dofs, vals, desc in conds:
            I.call_function(fA, ["pt", XArray((len(nodes),), nodes, "i"), XArray((len(vals),), list(vals)), XArray((len(dofs),), dofs, "i"), ["x"], desc], self_obj=obj)
        gd = XArray.from_nested(I.call_function(simu.methods["Bc_dofs_Neumann"], ["pt"], self_obj=obj))
        gv = XArray.from_nested(I.call_function(simu.methods["Bc_values_Neumann"], ["pt"], self_obj=obj))
    except XRaise as e:
        r.fail(fA.qualname, "accumulate", fA.file, fA.lineno, "_Simu._Bc_Add_Neumann", f"raises {e}")
        return
    want_d = [d for _n, ds, _v, _ in conds for d in ds]
    want_v = [v for _n, _d, vs, _ in conds for v in vs]
    got_d = [int(x) for x in gd.data]
    ok = got_d == want_d and len(gv.data) == len(want_v) and all(is_zero(Poly.of(a) - b) for a, b in zip(gv.data, want_v))
    if ok:
        r.ok("c1, c1, c2 registered: the solver gathers all three (the repeated load counts twice)")
    else:
        r.fail(fA.qualname, "accumulate", fA.file, fA.lineno, "_Simu._Bc_Add_Neumann", f"after registering the same load twice and a third one, the gathered dofs are {got_d} with values {[str(x) for x in gv.data]}; every registered condition contributes: {want_d} / {[str(x) for x in want_v]}: a load applied in equal increments is counted once - its resultant is not the integral of the applied density")
