"""C07 -- quadrature rules: inside, total weight, exactness degree, factory table,
exact measures/centroids of straight-sided elements."""

from __future__ import annotations

import ast

from ..alg import Poly, Q, MQ, is_zero
from ..xarray import XArray
from ..elems import ElemLib, GAUSS, topology
from ..gausslib import GaussLib, SHAPE_FUNCS, REF_MEASURE, inside, SHAPE_DIM
from ..geom import Geometry, rule_exact_on
from ..xeval import Uninterpretable
from ..repo import dotted, AnalysisError, norm_text as norm_text_

GE = "EasyFEA.FEM._group_elem._GroupElem"


from . import c02 as _c02


def fnum(x):
    return float(x.approx(30)) if isinstance(x, MQ) else float(x)


def run(ctx):
    from ..shared import state_alias_rule as _sar

    # measures, centroids and integrals are those of the stored geometry: no query writes the stored coordinates through an alias
    ctx.attempt(_sar, ctx, 'R7.15', scope=lambda f, _s=('EasyFEA.FEM._group_elem', 'EasyFEA.FEM._mesh'): f.module.name.startswith(_s), min_instances=50)
    from . import e2e_rules as _e2e

    ctx.attempt(_e2e.geometry_rule, ctx, 'R7.E1')
    from ..shared import shared_container_rule as _shared_container_rule

    ctx.attempt(_shared_container_rule, ctx, "R7.8", scope=lambda f, _s=("EasyFEA.FEM._gauss", "EasyFEA.FEM._group_elem"): f.module.name.startswith(_s), min_instances=50)
    ctx.level = "proof"
    ctx.explanation = (
        "Quadrature tables are read from the source as exact numbers (rationals, quadratic surds; 15-digit decimal literals "
        "converted exactly and compared with the stated literal-precision tolerance 5e-14). Inside-ness, total weight and "
        "exactness on every monomial up to the computed degree are decided exactly; the factory if/elif table is folded over "
        "all ElemType x MatrixType pairs; measure/centroid exactness on straight-sided elements is decided on the polynomial det J."
    )
    ctx.trust("numpy.polynomial.legendre.leggauss(n) is the n-point Gauss-Legendre rule (degree 2n-1, positive weights, interior points)")
    ctx.trust("sa/alg.py exact arithmetic in Q and Q(sqrt d); sa/xeval.py table interpreter")
    repo = ctx.repo
    gl = GaussLib(repo)
    lib = ElemLib(repo)
    ctx.attempt(integer_coordinates_rule, ctx, lib)
    ctx.attempt(embedding_dimension_rule, ctx)
    ctx.attempt(weighted_jacobian_rule, ctx)
    ctx.attempt(mass_center_rule, ctx)
    ctx.attempt(integrate_rule, ctx)
    ctx.attempt(mesh_center_rule, ctx)

    r1 = ctx.rule("R7.1", "every tabulated rule: points inside the reference element, weights sum to the reference measure", min_instances=16)
    r2 = ctx.rule("R7.2", "exactness degree of every tabulated rule >= the documented order", min_instances=16)
    r3 = ctx.rule("R7.3", "Gauss_factory folded over ElemType x MatrixType: every pair yields an available rule or raises ValueError deliberately; _Gauss_factory_nPg agrees", min_instances=19 * 4)
    r4 = ctx.rule("R7.4", "measure (rigi rule) and centroid (mass rule) of straight-sided elements are integrated exactly", min_instances=19)

    maxdeg = 12 if ctx.tier == "thorough" else 8
    degrees = {}
    for shape in SHAPE_FUNCS:
        ns, doc, f = gl.available(shape)
        docinfo = gl.doc_orders(shape)
        if docinfo is None:
            r2.note(f"{f.qualname}: docstring does not parse as 'available [..] / order = [..]'; documented order not compared")
        for n in ns:
            rule = gl.rule(shape, n)
            r1.instance(fn=f.qualname)
            r2.instance(fn=f.qualname)
            if rule is None:
                r1.fail(f.qualname, f"n={n}", f.file, f.lineno, f"Gauss.{f.name}", f"branch nPg == {n} raises")
                continue
            con = f"{f.qualname}[nPg={n}]"
            # inside
            out = [i for i, p in enumerate(rule.pts) if not inside(shape, p)]
            if out:
                r1.fail(con, "inside", f.file, f.lineno, f"Gauss.{f.name}({n})",
                        f"point(s) {out} lie outside the reference {shape}: {[tuple(fnum(c) for c in rule.pts[i]) for i in out[:3]]}")
            else:
                r1.ok(f"{shape} n={n}: all {n} points inside")
            tot = sum(rule.w, Q(0))
            ok, err = rule.exact_on((0,) * rule.dim)
            if ok:
                r1.ok(f"{shape} n={n}: weights sum to {REF_MEASURE[shape]}" + (f" within 5e-14 (|err| = {fnum(err):.1e}, decimal literals)" if err else " exactly"))
            else:
                r1.fail(con, "weight-sum", f.file, f.lineno, f"Gauss.{f.name}({n})",
                        f"weights sum to {fnum(tot):.17g}, reference measure is {REF_MEASURE[shape]} (error {fnum(err):.3e}; tolerance {'5e-14 relative' if rule.approx else '0'})")
            # exactness degree
            d, bad, err = rule.degree(maxdeg)
            degrees[(shape, n)] = d
            if docinfo is not None:
                av, orders = docinfo
                if n not in av:
                    r2.fail(con, "doc-available", f.file, f.lineno, f"Gauss.{f.name}", f"nPg={n} is implemented but not listed as available in the docstring {av}")
                    continue
                if shape == "PRISM" and len(orders) == 2:
                    # order X (the [-1,1] axis = gmsh z) and order Y&Z (triangle plane)
                    ox = next(v for k, v in orders.items() if k.upper().startswith("X"))[n]
                    oyz = next(v for k, v in orders.items() if not k.upper().startswith("X"))[n]
                    badm = None
                    for a in range(oyz + 1):
                        for b in range(oyz + 1 - a):
                            for c in range(ox + 1):
                                okm, e = rule.exact_on((a, b, c))
                                if not okm and badm is None:
                                    badm = ((a, b, c), e)
                    if badm:
                        r2.fail(con, "degree", f.file, f.lineno, f"Gauss.{f.name}({n})",
                                f"documented order (axis {ox}, triangle {oyz}) but x^{badm[0][0]} y^{badm[0][1]} z^{badm[0][2]} is integrated with error {fnum(badm[1]):.3e}")
                    else:
                        r2.ok(f"PRISM n={n}: exact on P{oyz}(triangle) x P{ox}(axis); total degree {d}")
                else:
                    want = list(orders.values())[0][n]
                    if d >= want:
                        r2.ok(f"{shape} n={n}: exact to total degree {d} >= documented {want}")
                    else:
                        r2.fail(con, "degree", f.file, f.lineno, f"Gauss.{f.name}({n})",
                                f"documented order {want} but monomial exponents {bad} are integrated with error {fnum(err):.3e} (exact only to degree {d})")
            else:
                r2.ok(f"{shape} n={n}: exact to total degree {d}")
    ctx.extra["exactness_degrees"] = {f"{s}{n}": d for (s, n), d in degrees.items()}

    # ---- R7.3 factory
    fac = repo.method(GAUSS, "Gauss_factory")
    elems = [e for e in gl.et_members if e != "POINT"]
    mts = list(gl.mt_members)
    table = {}
    for e in elems:
        for m in mts:
            r3.instance(fn=fac.qualname)
            res = gl.factory(e, m)
            table[(e, m)] = res
            con = f"{fac.qualname}[{e},{m}]"
            if res[0] == "raise":
                if res[1] == "ValueError" and "matrixType" in res[2] and m in ("beam", "beam_shear") and SHAPE_DIM[topology(e)] > 1:
                    r3.ok()
                elif res[1] == "ValueError" and "matrixType" in res[2]:
                    # rigi / mass must be available for every element
                    if m in ("rigi", "mass"):
                        r3.fail(con, "raises", fac.file, fac.lineno, "Gauss.Gauss_factory", f"({e}, {m}) raises {res[1]}: {res[2]}")
                    else:
                        r3.ok()
                else:
                    r3.fail(con, "raises", fac.file, fac.lineno, "Gauss.Gauss_factory", f"({e}, {m}) raises {res[1]}: {res[2]}")
                continue
            if res[0] == "gl":
                if topology(e) != "SEG":
                    r3.fail(con, "shape", fac.file, fac.lineno, "Gauss.Gauss_factory", f"({e}, {m}) uses the segment rule")
                else:
                    r3.ok(f"({e}, {m}) -> Gauss-Legendre {res[1]} points")
                continue
            _, shape, n, coord, w = res
            rule = gl.rule(shape, n)
            okshape = coord.shape == (n, SHAPE_DIM[shape]) and rule is not None
            if okshape:
                same = all(tuple(coord[i].data) == tuple(rule.pts[i]) for i in range(n))
                if not same:
                    okshape = False
            if okshape:
                r3.ok(f"({e}, {m}) -> {shape} rule with {n} points")
            else:
                r3.fail(con, "layout", fac.file, fac.lineno, "Gauss.Gauss_factory", f"({e}, {m}): returned coordinates are not the (nPg, dim) table of the {n}-point {shape} rule")
    # _Gauss_factory_nPg: same table per topology
    f2 = repo.method(GAUSS, "_Gauss_factory_nPg")
    for e in elems:
        shape = topology(e)
        if shape == "SEG":
            res = gl.factory_npg(e, 3)
            r3.instance(fn=f2.qualname)
            if res[0] == "gl" and res[1] == 3:
                r3.ok()
            else:
                r3.fail(f"{f2.qualname}[{e}]", "dispatch", f2.file, f2.lineno, "Gauss._Gauss_factory_nPg", f"{e} with 3 points does not use the Gauss-Legendre rule: {res[:2]}")
            continue
        for n in gl.available(shape)[0]:
            r3.instance(fn=f2.qualname)
            res = gl.factory_npg(e, n)
            rule = gl.rule(shape, n)
            if res[0] == "rule" and res[1] == shape and res[2] == n and all(tuple(res[3][i].data) == tuple(rule.pts[i]) for i in range(n)):
                r3.ok()
            else:
                r3.fail(f"{f2.qualname}[{e},{n}]", "dispatch", f2.file, f2.lineno, "Gauss._Gauss_factory_nPg", f"({e}, {n}) does not return the {n}-point {shape} rule: {res[:3]}")
    ctx.extra["factory_table"] = {f"{e}/{m}": (f"GL{v[1]}" if v[0] == "gl" else (f"{v[1]}{v[2]}" if v[0] == "rule" else f"raise {v[1]}")) for (e, m), v in table.items()}

    # ---- R7.4 measure / centroid on straight-sided elements
    ge = repo.cls(GE)
    # which quadrature the measures and the centroid use is OBSERVED: the properties are interpreted on a recorder object
    # (the matrix types used to be read off the call syntax, which failed on a helper extraction, refactored/C07-R7)
    from ..xeval import Interp as _I7, XObj as _X7, XRaise as _XR7, Sink as _S7, EnumVal as _E7
    from ..xarray import XArray as _A7

    mt_measure = {}
    fi = repo.method(GE, "Integrate_e")
    for prop, d in (("length_e", 1), ("area_e", 2), ("volume_e", 3)):
        f = repo.method(GE, prop)
        seen = []
        I7 = _I7(repo)
        default_mt = I7.eval_expr(fi.node.args.defaults[-1], {}, fi.file, fi.module)
        o = _X7(ge, {"dim": d, "Integrate_e": lambda func=None, matrixType=default_mt, _s=seen: (_s.append(matrixType), _A7((1,), [1]))[1]})
        try:
            I7.call_function(f, [], self_obj=o)
        except _XR7:
            pass
        if seen:
            mt_measure[prop] = str(getattr(seen[0], "name", seen[0]))
    fc = repo.method(GE, "center")
    seen = []
    o = _X7(ge, {"dim": 2, "Get_GaussCoordinates_e_pg": lambda mt=None, *a, _s=seen, **k: (_s.append(mt), _A7((1, 1, 3), [1, 1, 1]))[1], "Get_weightedJacobian_e_pg": lambda mt=None, *a, _s=seen, **k: (_s.append(mt), _A7((1, 1), [1]))[1]})
    try:
        _I7(repo).call_function(fc, [], self_obj=o)
    except (_XR7, Uninterpretable):
        pass
    kinds = {str(getattr(m, "name", m)) for m in seen}
    mt_center = kinds.pop() if len(kinds) == 1 else None
    if len(mt_measure) != 3 or mt_center is None:
        raise AnalysisError("R7.4: cannot read the matrix types used by length_e/area_e/volume_e/center")
    prop_of_dim = {1: "length_e", 2: "area_e", 3: "volume_e"}
    for e in elems:
        ed = lib.get(e)
        g = Geometry(lib, e)
        r4.instance(fn=f"{GE}.{prop_of_dim[ed.dim]}")
        if not g.is_isoparametric_consistent():
            r4.fail(ed.cls.qualname, "isoparametric", ed.cls.file, ed.cls.node.lineno, e, "sum_a X_a N_a with nodes placed by the vertex map does not reproduce the vertex map")
            continue
        for what, mt, integrands in (
            ("measure", mt_measure[prop_of_dim[ed.dim]], [("detJ", g.detJ)]),
            ("centroid", mt_center, [("detJ", g.detJ)] + [(f"x{k}*detJ", (g.x[k], g.detJ)) for k in range(ed.dim)]),
        ):
            res = table.get((e, mt))
            con = f"{GE}.{what}[{e},{mt}]"
            if res is None or res[0] == "raise":
                r4.fail(con, "no-rule", fac.file, fac.lineno, "Gauss.Gauss_factory", f"{what} of {e} uses MatrixType.{mt} which the factory does not provide")
                continue
            for label, p in integrands:
                extra = None
                if isinstance(p, tuple):
                    p, extra = p
                if res[0] == "gl":
                    deg = max((dict(m).get("x", 0) for m in p.t), default=0) + (max((dict(m).get("x", 0) for m in extra.t), default=0) if extra is not None else 0)
                    if deg <= 2 * res[1] - 1:
                        r4.ok(f"{e} {what}: {label} has degree {deg} <= 2*{res[1]}-1 (Gauss-Legendre)")
                    else:
                        r4.fail(con, label, fac.file, fac.lineno, "Gauss.Gauss_factory", f"{what} of straight {e}: integrand {label} has degree {deg} > {2*res[1]-1} of the {res[1]}-point Gauss-Legendre rule (MatrixType.{mt})")
                    continue
                rule = gl.rule(res[1], res[2])
                ok, pm, err = rule_exact_on(rule, p, ed.vars, extra)
                if ok:
                    r4.ok(f"{e} {what}: {label} integrated exactly by the {res[2]}-point rule (MatrixType.{mt})")
                else:
                    r4.fail(con, label, fac.file, fac.lineno, "Gauss.Gauss_factory",
                            f"{what} of straight-sided {e}: integrand {label} is not integrated exactly by the {res[2]}-point {res[1]} rule selected for MatrixType.{mt} (error {fnum(err):.3e} on the coefficient of {pm})")

    # ---- R7.5 "rich enough" clause of the statement: counting bound shared with C02 (R2.2)
    ctx.attempt(_c02.rank_rules, ctx, lib, gl, only_stiffness=True)
    # ... and the exact rank of the stiffness of two elements sharing a face (R2.3 shared; the counting bound is only necessary:
    # a 20-node brick with 2 x 2 x 2 points passes it and keeps three spurious modes in a two-element column).  Quick tier: the
    # types up to 20 nodes; thorough: all.
    ctx.attempt(_c02.patch_rank, ctx, lib, gl, None if ctx.tier == "thorough" else [n for n in lib.names((2, 3)) if lib.get(n).nPe <= 20], ("thermal-K", "elastic-K"))
    weights_enter_rule(ctx)
    # "lengths, areas, volumes ... are exact": no tolerance-gated shortcut between the tables and the measures
    from ..shared import approx_guard_rule, setter_discipline_rule

    approx_guard_rule(ctx, "R7.6", ["EasyFEA.FEM._group_elem", "EasyFEA.FEM._gauss"])
    setter_discipline_rule(ctx, "R7.7", class_filter=lambda ci: ci.module.name in ("EasyFEA.FEM._group_elem", "EasyFEA.FEM._mesh"), min_instances=3)


def weights_enter_rule(ctx):
    """R7.5: the quadrature weights enter every integral: a quantity built from the UNWEIGHTED Jacobian
    (Get_jacobian_e_pg) is never summed / averaged / integrated over Gauss points unless it has been multiplied by the
    weights of the same rule (order statistics such as max/min and sign tests are fine)."""
    import ast

    from ..repo import dotted, norm_text

    repo = ctx.repo
    r = ctx.rule("R7.5", "every sum over Gauss points carries the weights: values derived from the unweighted Get_jacobian_e_pg reach sum / mean / integrate / einsum only after multiplication by Get_weight_pg / gauss.weights", min_instances=3)
    REDUCERS = ("sum", "mean", "integrate")
    for f in repo.all_functions():
        calls = [n for n in ast.walk(f.node) if isinstance(n, ast.Call) and isinstance(n.func, ast.Attribute) and n.func.attr == "Get_jacobian_e_pg"]
        if not calls:
            continue
        tainted, weights = set(), set()
        changed = True
        assigns = [n for n in ast.walk(f.node) if isinstance(n, ast.Assign) and len(n.targets) == 1 and isinstance(n.targets[0], ast.Name)]

        def has(e, names):
            return any(isinstance(x, ast.Name) and x.id in names for x in ast.walk(e))

        def is_src(e):
            return any(isinstance(x, ast.Call) and isinstance(x.func, ast.Attribute) and x.func.attr == "Get_jacobian_e_pg" for x in ast.walk(e))

        def is_w(e):
            return any((isinstance(x, ast.Call) and isinstance(x.func, ast.Attribute) and x.func.attr == "Get_weight_pg") or (isinstance(x, ast.Attribute) and x.attr == "weights") for x in ast.walk(e)) or has(e, weights)

        while changed:
            changed = False
            for a in assigns:
                nm = a.targets[0].id
                if is_w(a.value) and nm not in weights and not (is_src(a.value) or has(a.value, tainted)):
                    weights.add(nm)
                    changed = True
                if (is_src(a.value) or has(a.value, tainted)) and not is_w(a.value) and nm not in tainted:
                    tainted.add(nm)
                    changed = True
        for c in calls:
            r.instance(fn=f.qualname)
        bad = None
        for n in ast.walk(f.node):
            if not isinstance(n, ast.Call):
                continue
            d = dotted(n.func) or ""
            operand = None
            if isinstance(n.func, ast.Attribute) and n.func.attr in REDUCERS and not d.startswith("np."):
                operand = n.func.value
            elif d in ("np.sum", "np.mean", "np.einsum", "einsum", "np.average", "np.trapz") and n.args:
                operand = ast.Tuple(elts=list(n.args), ctx=ast.Load())
            if operand is not None and (has(operand, tainted) or is_src(operand)) and not is_w(operand):
                bad = n
                break
        if bad is not None:
            r.fail(f.qualname, "unweighted-sum", f.file, bad.lineno, f.name, f"`{norm_text(bad)[:90]}` sums over Gauss points a quantity built from the unweighted Jacobian: the quadrature weights are missing from the integral (exact only for rules with equal weights and constant Jacobian)")
        else:
            for c in calls:
                r.ok(f"{f.qualname}: unweighted Jacobian used without a Gauss-point sum")


def integer_coordinates_rule(ctx, lib):
    """R7.9: 'lengths, areas, volumes ... are exact': the geometric chain does not inherit an integer type from the node
    coordinates it is given.  Get_F_e_pg is interpreted on a TRI3 tilted in space whose node coordinates are an
    INTEGER array ((0,0,0), (3,0,4), (1,1,0)): the coordinates rebased in the element's plane are not integers, so a
    buffer that copies the type of the input truncates them (numpy does so silently) -- the Jacobian must equal the
    one obtained from the same coordinates held as floats."""
    from ..femchain import Chain
    from ..xarray import XTruncation
    from ..xeval import Uninterpretable

    repo = ctx.repo
    r = ctx.rule("R7.9", "integer-typed node coordinates: the Jacobian of an element tilted in space equals the one of the same coordinates held as floats (no buffer inherits the integer type)", min_instances=2)
    f = repo.method("EasyFEA.FEM._group_elem._GroupElem", "Get_F_e_pg")
    r.instance(fn=f.qualname)
    pts = [[0, 0, 0], [3, 0, 4], [1, 1, 0]]

    ge = repo.cls("EasyFEA.FEM._group_elem._GroupElem")

    def jac(kind):
        """the coordinates enter the group the way a caller hands them over: through the coord setter, read back by the getter"""
        ch = Chain(lib, "TRI3", fe=True)
        a = ch.obj.attrs
        a["inDim"] = 3
        del a["coord"]
        a.update(Ncoords=3, nodes=XArray((3,), [0, 1, 2]), _InitMatrix=lambda *x, **k: None)
        ch.I.call_function(ge.setters["coord"], [XArray((3, 3), [x for row in pts for x in row], kind)], self_obj=ch.obj)
        return XArray.from_nested(ch.F())

    ref = jac(None)
    try:
        got = jac("i")
        same = got.shape == ref.shape and all(is_zero(a - b) for a, b in zip(got.data, ref.data))
        bad = None if same else "the Jacobian differs from the one of the same coordinates held as floats"
    except (Uninterpretable, XTruncation) as e:
        if "integer type" not in str(e):
            raise
        bad = str(e).split(": ", 1)[-1] if ": " in str(e) else str(e)
    # the constructor stores the coordinates with the same conversion: its storing expression evaluated on an integer array
    init = ge.methods["__init__"]
    r.instance(fn=init.qualname)
    stores = [n for n in ast.walk(init.node) if isinstance(n, ast.Assign) and any(isinstance(t, ast.Attribute) and t.attr == "__coord" for t in n.targets)]
    if not stores:
        raise AnalysisError("R7.9: _GroupElem.__init__ no longer stores self.__coord")
    from ..xeval import Interp as _I

    II = _I(repo)
    env = {"coordinates": XArray((3, 3), [x for row in pts for x in row], "i"), "nodes": XArray((3,), [0, 1, 2], "i")}
    val = II.eval_expr(stores[-1].value, env, init.file, init.module)
    if isinstance(val, XArray) and val.dtype == "i":
        r.fail(init.qualname, "integer-coordinates:init", init.file, stores[-1].lineno, "_GroupElem.__init__", f"`{norm_text_(stores[-1])}` keeps the integer type of the coordinates it is given: every buffer copied from self.coord truncates what is written into it (TRI3 (0,0,0), (2,0,1), (0,3,1) as integers has area 3.0 instead of 3.5)")
    else:
        r.ok("_GroupElem.__init__ stores the coordinates as floats")
    if bad:
        r.fail(f.qualname, "integer-coordinates", f.file, f.lineno, "Get_F_e_pg", f"TRI3 (0,0,0), (3,0,4), (1,1,0) given as an integer array: {bad} (the area of that triangle is computed from truncated plane coordinates)")
    else:
        r.ok("TRI3 tilted in space, integer node coordinates: Jacobian as for float coordinates")


def embedding_dimension_rule(ctx, rid="R7.10"):
    """R7.10: the embedding dimension read from the coordinates (it selects the branch of the geometric chain that
    projects lower-dimensional elements onto their own axes): 3 as soon as some z differs from 0, else 2 as soon as
    some y differs from 0, else 1 -- whatever the SIGN of those coordinates.  The inDim property is interpreted on
    segment groups lying in each half of each plane."""
    from ..xeval import Interp, XObj, EnumVal

    repo = ctx.repo
    ge = repo.cls("EasyFEA.FEM._group_elem._GroupElem")
    f = ge.methods["inDim"]
    r = ctx.rule(rid, "inDim: 3 iff some z != 0, else 2 iff some y != 0, else 1, for coordinates of either sign", min_instances=8)
    et_cls = repo.cls("EasyFEA.FEM._utils.ElemType")
    seg2 = EnumVal(et_cls, "SEG2", repo.enum_members(et_cls.qualname)["SEG2"])
    cases = [
        ([[0, 0, 0], [2, 0, 0]], 1), ([[-3, 0, 0], [-1, 0, 0]], 1),
        ([[0, 0, 0], [1, 2, 0]], 2), ([[0, 0, 0], [1, -2, 0]], 2), ([[0, -1, 0], [4, -3, 0]], 2), ([[0, -1, 0], [0, 3, 0]], 2),
        ([[0, 0, 0], [1, 0, 2]], 3), ([[0, 0, -1], [1, 0, -2]], 3), ([[0, 1, -1], [1, -1, -2]], 3), ([[0, 0, -1], [0, 0, 1]], 3),
    ]
    for pts, want in cases:
        r.instance(fn=f.qualname)
        obj = XObj(ge, {"elemType": seg2, "dim": 1, "coord": XArray((2, 3), [Q(x) for row in pts for x in row])})
        got = Interp(repo).call_function(f, [], self_obj=obj)
        if got == want:
            r.ok(f"{pts}: inDim {want}")
        else:
            r.fail(f.qualname, f"inDim:{pts}", f.file, f.lineno, "_GroupElem.inDim", f"segment {pts[0]} - {pts[1]}: inDim = {got}, the coordinates span dimension {want}: the Jacobian of the group is taken along the wrong axes (lengths of vertical or oblique segments vanish or shrink)")


def weighted_jacobian_rule(ctx, rid="R7.11"):
    """R7.11: the integration weight of point p of element e is |det F(e, p)| * w_p with the weight of the rule AS IT IS --
    some rules (5-point tetrahedron, 8-point prism) carry a NEGATIVE weight, needed for their degree of exactness.
    Get_weightedJacobian_e_pg is interpreted on stand-in Jacobians of both orientations (a mirrored element has det F < 0)
    and a rule with one negative weight: wJ[e, p] == |J[e, p]| * w[p], sign of the weight kept."""
    from ..xeval import Interp, XObj, Opaque, XRaise
    from ..femchain import fe_hook_full

    repo = ctx.repo
    ge = repo.cls("EasyFEA.FEM._group_elem._GroupElem")
    f = ge.methods["Get_weightedJacobian_e_pg"]
    r = ctx.rule(rid, "Get_weightedJacobian_e_pg == |det F| * w with the rule's own (possibly negative) weights, for elements of either orientation", min_instances=1)
    r.instance(fn=f.qualname)
    J = [[Q(3, 2), Q(5, 4)], [Q(-7, 3), Q(-2)]]  # element 1 is mirrored
    w = [Q(3, 4), Q(-2, 15)]

    def jac(mt=None, absoluteValues=True):
        return XArray((2, 2), [abs(x) if absoluteValues else x for row in J for x in row])

    obj = XObj(ge, {"dim": 3, "Get_jacobian_e_pg": jac, "Get_weight_pg": lambda mt=None: XArray((2,), list(w))})
    I = Interp(repo)
    I.call_hook = fe_hook_full
    try:
        out = XArray.from_nested(I.call_function(f, [Opaque("matrixType")], self_obj=obj))
    except XRaise as e:
        r.fail(f.qualname, "weighted-jacobian", f.file, f.lineno, "_GroupElem.Get_weightedJacobian_e_pg", f"raises {e}")
        return
    bad = None
    for e in range(2):
        for p in range(2):
            want = abs(J[e][p]) * w[p]
            if bad is None and not is_zero(Poly.of(out[e, p]) - want):
                bad = f"wJ[{e}, {p}] = {out[e, p]}, expected |{J[e][p]}| * ({w[p]}) = {want}"
    if bad:
        r.fail(f.qualname, "weighted-jacobian", f.file, f.lineno, "_GroupElem.Get_weightedJacobian_e_pg", f"{bad}: the sign of a negative quadrature weight is lost (or the orientation of a mirrored element enters the measure): integrals with the 5-point tetrahedron / 8-point prism rules, or on reflected meshes, are wrong")
    else:
        r.ok("wJ == |J| * w for both orientations, negative weight kept")


def mass_center_rule(ctx, rid="R7.12"):
    """'... centroids ... are exact': the centre of mass a simulation reports is, component by component,
    sum_{e,p} rho wJ x_k (x thickness in 2-D) / mass.  _Simu.center is interpreted on one element group with symbolic
    integration points, weights and a per-point density (2 elements x 2 points, dim 2 and 3): three DIFFERENT components,
    each the weighted mean of its own coordinate."""
    from types import SimpleNamespace

    from ..xeval import Interp, XObj, XRaise
    from ..femchain import XFe, fe_hook_full
    from ..alg import Rat

    repo = ctx.repo
    simu = repo.cls("EasyFEA.Simulations._simu._Simu")
    f = repo.lookup_method(simu, "center")
    r = ctx.rule(rid, "_Simu.center[k] == sum_{e,p} rho wJ x_k (* thickness in 2-D) / mass for a per-point density, k = x, y, z", min_instances=2)
    for dim in (2, 3):
        r.instance(fn=f.qualname)
        Ne, nP = 2, 2
        X = XFe((Ne, nP, 3), [Poly.var(f"x{e}{p}{k}") for e in range(Ne) for p in range(nP) for k in range(3)])
        W = XFe((Ne, nP), [Poly.var(f"w{e}{p}") for e in range(Ne) for p in range(nP)])
        rho = XArray((Ne, nP), [Poly.var(f"r{e}{p}") for e in range(Ne) for p in range(nP)])
        mass, t = Poly.var("M"), Poly.var("t")
        group = SimpleNamespace(Get_GaussCoordinates_e_pg=lambda mt=None: X, Get_weightedJacobian_e_pg=lambda mt=None: W)
        obj = XObj(simu, {"dim": dim, "mass": mass, "rho": rho, "mesh": SimpleNamespace(Get_list_groupElem=lambda d=None: [group], center=None), "model": SimpleNamespace(thickness=t)})
        I = Interp(repo, extra_builtins={"isinstance": lambda o, ty: True if isinstance(o, XArray) else isinstance(o, ty) if isinstance(ty, type) else False})
        I.call_hook = fe_hook_full
        try:
            out = XArray.from_nested(I.call_function(f, [], self_obj=obj))
        except XRaise as e:
            r.fail(f.qualname, f"mass-center:dim{dim}", f.file, f.lineno, "_Simu.center", f"dim {dim}: raises {e}")
            continue
        bad = None
        if out.shape != (3,):
            bad = f"shape {out.shape}"
        else:
            for k in range(3):
                want = Rat.of(Poly())
                for e in range(Ne):
                    for p in range(nP):
                        want = want + Rat.of(rho[e, p] * W[e, p] * X[e, p, k] * (t if dim == 2 else 1)) / Rat.of(mass)
                got = out[k]
                if bad is None and not is_zero((got if isinstance(got, Rat) else Rat.of(got)) - want):
                    bad = f"component {'xyz'[k]} is {got!r}, expected sum rho wJ {'xyz'[k]}{' t' if dim == 2 else ''} / M"
        if bad:
            r.fail(f.qualname, f"mass-center:dim{dim}", f.file, f.lineno, "_Simu.center", f"dim {dim}, per-point density: {bad}: the components of the centre of mass are not the weighted means of their own coordinates (one scalar summed over all axes gives three equal numbers)")
        else:
            r.ok(f"dim {dim}: centre of mass == weighted mean of each coordinate")


def integrate_rule(ctx, rid="R7.13"):
    """'... integrals of low-degree polynomials over meshes': _GroupElem.Integrate_e(f) is sum_p wJ[e, p] f(x_p) for every
    integrand the API accepts: a constant, a scalar field, and a TENSOR-valued field (Ne, nPg, k) -- the sum runs over the
    integration-point axis, never over a tensor axis (with nPg == k the shapes coincide).  Interpreted under the FeArray
    protocol model with symbolic weights and coordinates, (Ne, nPg) = (2, 3) with k = 3 and (2, 2) with k = 3."""
    from types import SimpleNamespace

    from ..femodel import Model, FeV
    from ..xeval import XObj, XRaise, Opaque

    repo = ctx.repo
    ge = repo.cls("EasyFEA.FEM._group_elem._GroupElem")
    f = ge.methods["Integrate_e"]
    r = ctx.rule(rid, "Integrate_e(f)[e] == sum_p wJ[e, p] f(x_p) for constant, scalar-field and vector-field integrands (nPg == number of components included)", min_instances=6)
    for (Ne, nP) in ((2, 3), (2, 2)):
        M = Model(repo)
        W = FeV((Ne, nP), [Poly.var(f"w{e}{p}") for e in range(Ne) for p in range(nP)])
        X = FeV((Ne, nP, 3), [Poly.var(f"x{e}{p}{k}") for e in range(Ne) for p in range(nP) for k in range(3)])
        obj = XObj(ge, {"Get_weightedJacobian_e_pg": lambda mt=None: W, "Get_GaussCoordinates_e_pg": lambda mt=None: X})
        integrands = {
            "constant 1": (lambda x, y, z: 1, lambda e, p: [Poly.const(Q(1))]),
            "scalar field 2x - y": (lambda x, y, z: 2 * x - y, lambda e, p: [2 * X[e, p, 0] - X[e, p, 1]]),
            "vector field (x, y, z)": (lambda x, y, z: FeV((Ne, nP, 3), [v for e in range(Ne) for p in range(nP) for v in (x[e, p], y[e, p], z[e, p])]), lambda e, p: [X[e, p, 0], X[e, p, 1], X[e, p, 2]]),
        }
        for label, (fn, ref) in integrands.items():
            r.instance(fn=f.qualname)
            try:
                out = M.I.call_function(f, [fn, Opaque("matrixType")], self_obj=obj)
            except XRaise as e:
                r.fail(f.qualname, f"integrate:{label}:{Ne}x{nP}", f.file, f.lineno, "_GroupElem.Integrate_e", f"{label}, (Ne, nPg) = ({Ne}, {nP}): raises {e}")
                continue
            out = XArray.from_nested(out)
            k = len(ref(0, 0))
            bad = None
            want_shape = (Ne,) if k == 1 else (Ne, k)
            if out.shape not in (want_shape, (Ne, 1) if k == 1 else want_shape):
                bad = f"shape {out.shape}, expected {want_shape}"
            else:
                for e in range(Ne):
                    for c in range(k):
                        want = sum((W[e, p] * ref(e, p)[c] for p in range(nP)), Poly())
                        got = out[e] if out.ndim == 1 else out[e, c]
                        if bad is None and not is_zero(Poly.of(got) - want):
                            bad = f"entry [{e}{', ' + str(c) if k > 1 else ''}] is {got!r}, expected sum_p wJ f = {want!r}"
            if bad:
                r.fail(f.qualname, f"integrate:{label}:{Ne}x{nP}", f.file, f.lineno, "_GroupElem.Integrate_e", f"{label}, (Ne, nPg) = ({Ne}, {nP}): {bad}: the sum does not run over the integration points (a tensor axis was summed instead: first moments / inertia integrals of a mesh are wrong)")
            else:
                r.ok(f"{label}, ({Ne}, {nP}): sum over the integration points")


def mesh_center_rule(ctx, rid="R7.14"):
    """'... centroids ... are exact', also on a mesh that mixes element types: Mesh.center is the measure-weighted mean of the
    coordinates over ALL main-dimension groups: center_k = sum_g sum_{e,p} wJ x_k / sum_g sum_{e,p} wJ.  Interpreted on a
    mesh object with two main groups whose weights, integration-point coordinates, centres and measures are symbolic (both
    ways of computing it -- per-group centres weighted by the measures, or accumulated first moments -- are accepted)."""
    from types import SimpleNamespace

    from ..xeval import Interp, XObj, XRaise
    from ..femchain import XFe, fe_hook_full
    from ..alg import Rat

    repo = ctx.repo
    mesh = repo.cls("EasyFEA.FEM._mesh.Mesh")
    f = repo.lookup_method(mesh, "center")
    r = ctx.rule(rid, "Mesh.center[k] == sum over all main groups of wJ x_k / sum over all main groups of wJ (two groups with symbolic data)", min_instances=1)
    r.instance(fn=f.qualname)
    groups = []
    tot_w = Poly()
    mom = [Poly(), Poly(), Poly()]
    for g in range(2):
        W = XFe((1, 2), [Poly.var(f"w{g}{p}") for p in range(2)])
        X = XFe((1, 2, 3), [Poly.var(f"x{g}{p}{k}") for p in range(2) for k in range(3)])
        meas = W[0, 0] + W[0, 1]
        cen = XArray((3,), [Rat.of(W[0, 0] * X[0, 0, k] + W[0, 1] * X[0, 1, k]) / Rat.of(meas) for k in range(3)])
        groups.append(SimpleNamespace(Get_weightedJacobian_e_pg=lambda mt=None, W=W: W, Get_GaussCoordinates_e_pg=lambda mt=None, X=X: X, center=cen, length=meas, area=meas, volume=meas, dim=2))
        tot_w = tot_w + meas
        for k in range(3):
            mom[k] = mom[k] + W[0, 0] * X[0, 0, k] + W[0, 1] * X[0, 1, k]
    obj = XObj(mesh, {"dim": 2, "Get_list_groupElem": lambda d=None: list(groups)})
    I = Interp(repo)
    I.call_hook = fe_hook_full
    try:
        out = XArray.from_nested(I.call_function(f, [], self_obj=obj))
    except XRaise as e:
        r.fail(f.qualname, "mesh-center", f.file, f.lineno, "Mesh.center", f"two main groups: raises {e}")
        return
    bad = None
    for k in range(3):
        want = Rat.of(mom[k]) / Rat.of(tot_w)
        got = out[k]
        if bad is None and not is_zero((got if isinstance(got, Rat) else Rat.of(got)) - want):
            bad = f"component {'xyz'[k]} is {got!r}, expected (sum over both groups of wJ {'xyz'[k]}) / (sum over both groups of wJ)"
    if bad:
        r.fail(f.qualname, "mesh-center", f.file, f.lineno, "Mesh.center", f"mesh with two main element groups: {bad}: the centroid of a mesh mixing element types is not the measure-weighted mean over all its groups")
    else:
        r.ok("two main groups: centroid == weighted mean over both")
