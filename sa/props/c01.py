"""C01 -- patch test, decided through its classical decomposition:
completeness (R1.1), true gradients (R1.2), exact quadrature of the consistency
integrals on straight-sided elements (R1.3), one Kelvin-Mandel convention
(R1.4), Hermite completeness (R1.5) and constant-strain consistency of the
whole isoparametric chain as rational identities (R1.6)."""

from __future__ import annotations

import ast

from ..alg import Poly, Q, MQ, Rat, is_zero
from ..elems import ElemLib, topology
from ..gausslib import GaussLib
from ..geom import Geometry, rule_exact_on
from .. import beamops
from ..femchain import Chain, fe_hook
from ..repo import AnalysisError, dotted, norm_text
from ..xeval import Interp, XObj
from ..xarray import XArray
from . import c06

MU = "EasyFEA.Models._utils"
GE = "EasyFEA.FEM._group_elem._GroupElem"
BEAM_MOD = "EasyFEA.FEM.Elems._beam"


def kelvin_reference(repo):
    """Kelvin-Mandel vector of a symbolic symmetric 3x3 tensor, produced by the
    repository's own Project_Kelvin (index table e, factor sqrt(2-delta))."""
    I = Interp(repo)
    f = repo.func(MU + ".Project_Kelvin")
    names = [["a00", "a01", "a02"], ["a01", "a11", "a12"], ["a02", "a12", "a22"]]
    A = XArray((3, 3), [Poly.var(names[i][j]) for i in range(3) for j in range(3)])
    v = I.call_function(f, [A, 2])
    return A, XArray.from_nested(v), f


def kelvin_rules(ctx):
    repo = ctx.repo
    r = ctx.rule("R1.4", "one Kelvin-Mandel convention (order xx,yy,zz,yz,xz,xy; sqrt2 on shear) across Project_Kelvin, Project_matrix_to_vector, Project_vector_to_matrix, KelvinMandel_Matrix and the strain operator B", min_instances=7)
    A, kv, fK = kelvin_reference(repo)
    r.instance(fn=fK.qualname)
    s2 = MQ.sqrt(2)
    want = [Poly.var("a00"), Poly.var("a11"), Poly.var("a22"), Poly.var("a12") * s2, Poly.var("a02") * s2, Poly.var("a01") * s2]
    # Project_Kelvin accumulates both (i,j) and (j,i) into the same slot by assignment: the slot must hold sqrt2*a_ij
    if kv.shape == (6,) and all(kv.data[i] == want[i] for i in range(6)):
        r.ok("Project_Kelvin(A)[I] = (a00, a11, a22, r2*a12, r2*a02, r2*a01)")
    else:
        r.fail(fK.qualname, "order-2", fK.file, fK.lineno, "Project_Kelvin", f"order-2 projection is {kv.tolist()!r}, expected the Kelvin-Mandel vector (xx,yy,zz,r2 yz,r2 xz,r2 xy)")
    I = Interp(repo)
    fm2v = repo.func(MU + ".Project_matrix_to_vector")
    fv2m = repo.func(MU + ".Project_vector_to_matrix")
    for dim in (2, 3):
        r.instance(fn=fm2v.qualname)
        M = XArray((1, 1, dim, dim), [A[i, j] for i in range(dim) for j in range(dim)])
        v = XArray.from_nested(I.call_function(fm2v, [M]))
        idx = [0, 1, 2, 3, 4, 5] if dim == 3 else [0, 1, 5]
        exp = [want[k] for k in idx]
        got = list(v.ravel().data)
        if got == exp:
            r.ok(f"Project_matrix_to_vector dim {dim} == Kelvin vector entries {idx}")
        else:
            r.fail(fm2v.qualname, f"dim{dim}", fm2v.file, fm2v.lineno, "Project_matrix_to_vector", f"dim {dim}: returns {got!r}, Kelvin-Mandel convention gives {exp!r}")
        r.instance(fn=fv2m.qualname)
        back = XArray.from_nested(I.call_function(fv2m, [v]))
        ok = back.shape == (1, 1, dim, dim) and all(is_zero(back[0, 0, i, j] - A[i, j]) for i in range(dim) for j in range(dim))
        if ok:
            r.ok(f"Project_vector_to_matrix(Project_matrix_to_vector(M)) == M, dim {dim}")
        else:
            r.fail(fv2m.qualname, f"dim{dim}", fv2m.file, fv2m.lineno, "Project_vector_to_matrix", f"dim {dim}: vector->matrix is not the inverse of matrix->vector: {back.tolist()!r}")
    # KelvinMandel_Matrix
    fkm = repo.func(MU + ".KelvinMandel_Matrix")
    for dim in (2, 3):
        r.instance(fn=fkm.qualname)
        n = 3 if dim == 2 else 6
        Mv = XArray((n, n), [Poly.var(f"m{i}{j}") for i in range(n) for j in range(n)])
        res = XArray.from_nested(I.call_function(fkm, [dim, Mv]))
        kap = [1] * dim + [s2] * (n - dim)
        ok = all(res[i, j] == Mv[i, j] * (kap[i] * kap[j]) for i in range(n) for j in range(n))
        if ok:
            r.ok(f"KelvinMandel_Matrix dim {dim}: factor kappa_i*kappa_j, kappa = (1,..,r2,..)")
        else:
            r.fail(fkm.qualname, f"dim{dim}", fkm.file, fkm.lineno, "KelvinMandel_Matrix", f"dim {dim}: scaling table is not kappa_i*kappa_j with kappa=(1..1, sqrt2..sqrt2)")
    return want


def irons_rule(ctx, lib, gl):
    r = ctx.rule("R1.3", "consistency integrals: the rigi rule integrates adj(J).grad_xi N_i exactly on straight-sided elements (symbolic vertices)", min_instances=19)
    fac = ctx.repo.method("EasyFEA.FEM._gauss.Gauss", "Gauss_factory")
    for name in lib.names((1, 2, 3)):
        ed = lib.get(name)
        r.instance(fn=ed.cls.qualname)
        res = gl.factory(name, "rigi")
        con = f"{fac.qualname}[{name},rigi]"
        if res[0] == "raise":
            r.fail(con, "no-rule", fac.file, fac.lineno, "Gauss.Gauss_factory", f"no rigi rule for {name}")
            continue
        g = Geometry(lib, name)
        adj = g.adjugate()
        dN = ed.tables["dN"][1]
        bad = None
        nchecked = 0
        for i in range(ed.nPe):
            for a in range(ed.dim):
                # integrand_a = sum_k adj[a][k] * dN_i/dxi_k
                if res[0] == "gl":
                    deg = max((dict(m).get("x", 0) for m in dN[i, 0].t), default=0)
                    nchecked += 1
                    if deg > 2 * res[1] - 1:
                        bad = (i, a, f"degree {deg} > {2*res[1]-1}")
                    continue
                rule = gl.rule(res[1], res[2])
                # linear functional: error(sum_k p_k q_k) = sum_k error(p_k q_k); accumulate symbolically
                tot_ok = True
                errs = []
                for k in range(ed.dim):
                    ok, pm, err = rule_exact_on(rule, adj[a][k], ed.vars, dN[i, k])
                    if not ok:
                        tot_ok = False
                        errs.append((k, pm, err))
                nchecked += 1
                if not tot_ok:
                    # the k-terms might cancel: recompute on the expanded sum
                    p = Poly()
                    for k in range(ed.dim):
                        p = p + adj[a][k] * dN[i, k]
                    ok, pm, err = rule_exact_on(rule, p, ed.vars)
                    if not ok and bad is None:
                        bad = (i, a, f"error {float(err):.3e} on the coefficient of {pm}")
        if bad is None:
            r.ok(f"{name}: {nchecked} integrands adj(J).grad N_i integrated exactly by {('GL%d' % res[1]) if res[0]=='gl' else '%s%d' % (res[1], res[2])}")
        else:
            r.fail(con, "consistency-integral", fac.file, fac.lineno, "Gauss.Gauss_factory",
                   f"{name}: the rigi rule does not integrate int dN_{bad[0]+1}/dx_{bad[1]} exactly on straight-sided elements ({bad[2]}): interior nodal forces of a constant stress do not cancel")


def hermite_complete(ctx, lib):
    repo = ctx.repo
    r = ctx.rule("R1.5", "Hermite completeness: sum_i m(xi_i) phi_i + 2 m'(xi_i) psi_i == m for monomials up to degree 3 (constant curvature reproduced)", min_instances=4)
    base = repo.cls(BEAM_MOD + "._EulerBernoulli")
    I = lib.I
    x = Poly.var("x")
    for ci in sorted((c for c in repo.subclasses(base) if "_Hermitian_N" in c.methods), key=lambda c: c.qualname):
        seg = [b for b in ci.mro if b.module.name.endswith("._seg") and b.name.startswith("SEG")][0]
        ed = lib.get(seg.name)
        f = repo.lookup_method(ci, "_Hermitian_N")
        r.instance(fn=f.qualname)
        t = XArray.from_nested(I.call_function(f, [], self_obj=XObj(ci, dict(nPe=ed.nPe, dim=1, order=ed.order)))).reshape(-1)
        H = [c06.to_poly(fn(x)) for fn in t.data]
        nodes = [c[0] for c in ed.coords]
        ref_len = max(nodes) - min(nodes)
        for deg in range(0, 4):
            m = x**deg
            s = Poly()
            for a, xa in enumerate(nodes):
                s = s + H[2 * a] * m.eval({"x": xa}) + H[2 * a + 1] * (ref_len * m.diff("x").eval({"x": xa}))
            d = s - m
            if d.is_zero():
                r.ok(f"{ci.name}: reproduces xi^{deg}")
            else:
                # tolerated only below the binary64 evaluation error of the table (decimal literals)
                from ..alg import abs_eval, within_roundoff

                worst = max((abs(c) for c in d.t.values()), default=0)
                mag = sum((abs(c) for h in H for c in h.t.values()), Q(0))
                if within_roundoff(worst, 0, mag):
                    r.ok(f"{ci.name}: reproduces xi^{deg} within binary64 round-off of the decimal coefficient literals")
                else:
                    r.fail(f.qualname, f"deg{deg}", f.file, f.lineno, f"{ci.name}._Hermitian_N", f"Hermite interpolation of xi^{deg} leaves the residual {d!r}")


def constant_strain(ctx, lib, kelvin_want):
    """R1.6: on one straight-sided element (symbolic vertices for simplices,
    a generic rational geometry otherwise) and at the symbolic reference point,
    the code's own chain gives grad(t_lin) == g and B u_lin == Kelvin(sym G)."""
    repo = ctx.repo
    r = ctx.rule("R1.6", "isoparametric chain F -> inv F -> dN_e -> B reproduces constant gradient / constant strain of a linear field at every reference point", min_instances=19)
    s2 = MQ.sqrt(2)
    for name in lib.names((1, 2, 3)):
        ed = lib.get(name)
        dim = ed.dim
        sym = ed.shape in ("SEG", "TRI", "TETRA")
        ch = Chain(lib, name, symbolic_vertices=sym)
        r.instance(fn=f"{GE}.Get_dN_e_pg[{name}]")
        f_dn = repo.method(GE, "Get_dN_e_pg")
        dNe = XArray.from_nested(ch.dN_e())
        if dNe.shape != (1, 1, dim, ed.nPe):
            r.fail(f_dn.qualname, f"shape[{name}]", f_dn.file, f_dn.lineno, "Get_dN_e_pg", f"{name}: shape {dNe.shape}")
            continue
        # scalar linear field t(x) = g.x + c
        g = [Poly.var(f"g{k}") for k in range(dim)]
        c0 = Poly.var("c0")
        tn = [sum((g[k] * ch.node_coords[a][k] for k in range(dim)), Poly()) + c0 for a in range(ed.nPe)]
        bad = None
        for k in range(dim):
            tot = Rat.of(Poly())
            for a in range(ed.nPe):
                tot = tot + Rat.of(dNe[0, 0, k, a]) * tn[a]
            if not is_zero(tot - g[k]):
                bad = k
        if bad is None:
            r.ok(f"{name}: dN_e . t_lin == grad t at every reference point ({'symbolic vertices' if sym else 'generic rational straight-sided geometry'})")
        else:
            r.fail(f_dn.qualname, f"gradient[{name}]", f_dn.file, f_dn.lineno, "Get_dN_e_pg",
                   f"{name}: the physical gradient of a linear nodal field is not its constant gradient (component {bad}): Jacobian / inverse / product order convention broken")
        if dim == 1:
            continue
        f_b = repo.method(GE, "Get_B_e_pg")
        r.instance(fn=f"{GE}.Get_B_e_pg[{name}]")
        B = XArray.from_nested(ch.B())
        ns = 3 if dim == 2 else 6
        if B.shape != (1, 1, ns, ed.nPe * dim):
            r.fail(f_b.qualname, f"shape[{name}]", f_b.file, f_b.lineno, "Get_B_e_pg", f"{name}: shape {B.shape}")
            continue
        G = [[Poly.var(f"G{i}{j}") for j in range(dim)] for i in range(dim)]
        cc = [Poly.var(f"c{i}") for i in range(dim)]
        u = []
        for a in range(ed.nPe):
            for i in range(dim):
                u.append(sum((G[i][j] * ch.node_coords[a][j] for j in range(dim)), Poly()) + cc[i])
        # expected Kelvin vector of sym(G), from the repository's convention
        def symG(i, j):
            if i >= dim or j >= dim:
                return Poly()
            return (G[i][j] + G[j][i]) / 2

        env = {f"a{i}{j}": symG(i, j) for i in range(3) for j in range(i, 3)}
        full = [p.subs(env) for p in kelvin_want]
        exp = full if dim == 3 else [full[0], full[1], full[5]]
        bad = None
        for row in range(ns):
            tot = Rat.of(Poly())
            for col in range(ed.nPe * dim):
                b = B[0, 0, row, col]
                if is_zero(b):
                    continue
                tot = tot + Rat.of(b) * u[col]
            if not is_zero(tot - exp[row]):
                bad = row
        if bad is None:
            r.ok(f"{name}: B u_lin == Kelvin(sym grad u) at every reference point")
        else:
            r.fail(f_b.qualname, f"strain[{name}]", f_b.file, f_b.lineno, "Get_B_e_pg",
                   f"{name}: row {bad} of B applied to a linear displacement field is not the Kelvin-Mandel strain component (order xx,yy,zz,yz,xz,xy with sqrt2 on shear)")


def run(ctx):
    from . import e2e_rules as _e2e

    ctx.attempt(_e2e.beam_rule, ctx, 'R1.E3')
    ctx.attempt(_e2e.patch_test_rule, ctx, 'R1.E1')
    ctx.attempt(_e2e.thermal_patch_rule, ctx, 'R1.E2')
    from . import c10 as _c10

    # beam patch test ('constant axial strain or curvature for beams'): the member frame is orthonormal
    ctx.attempt(_c10.stored_frame_rule, ctx)
    # ... and the block that carries the global dofs into the member axes has those axes as rows (right-handed for members of every direction)
    ctx.attempt(_c10.frame_rule, ctx)
    from . import c04 as _c04

    # 'prescribing that field on the boundary and solving': beam structures with connections go through the multiplier system
    ctx.attempt(_c04.lagrange_rule, ctx)
    from .c08 import mesh_motion_rule as _mesh_motion_rule

    # the patch test on a mesh that was used, then moved: the strain operators must be those of the moved geometry
    ctx.attempt(_mesh_motion_rule, ctx, "R1.11")
    # the patch test of an anisotropic material with tilted axes: stress = (P C P^T) : eps needs the exact change-of-basis matrix
    ctx.attempt(_c10.pmat_rules, ctx)
    from .c02 import pointwise_inverse_rule as _pointwise_inverse_rule
    from ..elems import ElemLib as _ElemLib0

    # strains of the patch test are B u with B from invF: the inverse Jacobian of every orientation (mirrored meshes) and of curved elements
    ctx.attempt(_pointwise_inverse_rule, ctx, _ElemLib0(ctx.repo), "R1.12")
    from ..shared import group_loop_leak_rule as _group_loop_leak_rule

    ctx.attempt(_group_loop_leak_rule, ctx, "R1.9", scope=lambda f, _s=("EasyFEA.Simulations",): f.module.name.startswith(_s), min_instances=8)
    ctx.level = "proof"
    ctx.explanation = (
        "Patch-test decomposition (Irons / Strang-Fix): completeness and true gradients of every basis (polynomial identities), exact quadrature "
        "of the consistency integrals adj(J).grad N_i on straight-sided elements with symbolic vertices, the Kelvin-Mandel layout of the strain operator "
        "against the repository's own index table, and the whole isoparametric chain (Get_F_e_pg, Inv, Get_dN_e_pg, Get_B_e_pg) interpreted on one element "
        "at the symbolic reference point: grad of a linear field and B.u_lin are the constant gradient / Kelvin strain as rational-function identities. "
        "NOT decided: the value returned by simu.Solve() on a real mesh (needs C02-C04), round-off, gmsh meshes."
    )
    ctx.trust("sa/alg.py, sa/xeval.py, sa/xarray.py (exact numpy-like tables)")
    ctx.assume("unique solvability (C02), exact scatter-add (C03) and exact elimination (C04) complete the patch test")
    ctx.assume("R1.6 on quadrangles/hexahedra/prisms uses one generic rational straight-sided geometry: a polynomial identity in the vertex coordinates is checked at a generic point (Schwartz-Zippel), exactly in the reference coordinates")
    # 'to round-off, for every mesh': no tolerance-gated shortcut in the kernels the patch test runs through
    from ..shared import approx_guard_rule

    approx_guard_rule(ctx, "R1.8", ["EasyFEA.FEM._group_elem", "EasyFEA.FEM._gauss", "EasyFEA.FEM._linalg", "EasyFEA.FEM.Operators.Bilinear", "EasyFEA.Simulations.Solvers"])
    lib = ElemLib(ctx.repo)
    gl = GaussLib(ctx.repo)
    c06.lagrange_rules(ctx, lib)  # R6.1-R6.4 are R1.1/R1.2
    want = kelvin_rules(ctx)
    irons_rule(ctx, lib, gl)
    hermite_complete(ctx, lib)
    constant_strain(ctx, lib, want)
    beamops.rule(ctx, lib, "R1.7")  # constant axial strain / curvature of beams
    # 'the strains and stresses reported afterwards are the constant values of that field': the extraction path (R16.4, R16.7)
    from . import c16

    c16.extractor_rules(ctx)
    c16.field_e_rule(ctx)
    # Dirichlet prescription of the field (dof <-> value pairing) and the Timoshenko bending/shear split
    from . import c02, c03

    c03.dofs_nodes_rule(ctx)
    c02.sri_rule(ctx, lib)
