"""C18 R18.12 -- the non-linear element operators, end to end.

Every operator of ``EasyFEA.FEM.Operators.NonLinear`` is interpreted on one symbolic element: the nodal unknowns are
symbols ``U_i`` in the simulation's dof layout (x1, y1, (z1), x2, ...), the connectivity is non-trivial, the shape
function gradients and weights are distinct rationals at two integration points, and the material is a generic
polynomial stored energy ``W(e)`` of the Kelvin-Mandel Green-Lagrange strain.  The whole chain is the repository's own
source -- ``_GroupElem.Get_Gradient_e_pg`` / ``Locates_sol_e`` / ``_Get_assembly_e``, ``HyperElasticState.Compute_F / C /
GreenLagrange / De / Deta / Edot_vec``, ``__block_grad_B``, ``__geometric_tangent``, ``__second_piola_block``,
``__reorder_dofs`` and the ``FeArray`` class -- so the identities below are polynomial identities in the unknowns:

* residual_i  ==  d (sum_p wJ_p W(e_p(U))) / d U_i  (x thickness in 2-D)      [energy-derived operators]
* tangent_ij  ==  d residual_i / d U_j  (with the operator's documented coefK convention)
* damping_ij  ==  d residual_i / d V_j                                         [Kelvin-Voigt]
* discrete gradient:  residual . (U - U_n) == Delta W                         [Gonzalez]

Nothing is executed: the interpreter works on the AST with exact rational polynomials.
"""

from __future__ import annotations

from ..alg import Poly, Q, MQ, is_zero
from ..repo import AnalysisError
from ..xarray import XArray
from ..xeval import XObj, Opaque, XRaise, Uninterpretable, FuncInfo

NL = "EasyFEA.FEM.Operators.NonLinear"
GE = "EasyFEA.FEM._group_elem._GroupElem"
ST = "EasyFEA.Models.HyperElastic._state.HyperElasticState"

_RATS = [(1, 2), (-1, 3), (2, 5), (3, 7), (-2, 3), (1, 5), (1, 3), (-3, 4), (2, 7), (-1, 2), (5, 6), (1, 7), (3, 5), (-2, 7), (1, 4), (4, 9), (-5, 8), (2, 9), (7, 9), (-1, 6), (3, 8), (5, 9), (-4, 7), (1, 9)]


class _Setup:
    def __init__(self, repo, dim, nPg=2):
        from ..femodel import Model, FeV

        self.repo, self.dim, self.nPg = repo, dim, nPg
        self.FeV = FeV
        self.M = Model(repo, max_steps=2_000_000_000)
        self.M.I.constructible = {f"{NL}._StrainPathState"}
        self.ge = repo.cls(GE)
        self.stc = repo.cls(ST)
        self.nPe = dim + 1
        self.Ncoords = self.nPe + 1
        self.connect = XArray((1, self.nPe), [2, 0, 3] if dim == 2 else [4, 2, 0, 3])
        nPe = self.nPe
        rats = [Q(n, d) for n, d in _RATS] * 4
        self.dN = FeV((1, nPg, dim, nPe), rats[: nPg * dim * nPe])
        self.wJ = FeV((1, nPg), [Q(2, 3), Q(5, 7)][:nPg])
        self.mt = Opaque("matrixType")
        ge = self.ge
        self.g = XObj(
            ge,
            {
                ge.mangle("__Ncoords"): self.Ncoords,
                ge.mangle("__dim"): dim,
                ge.mangle("__connect"): self.connect,
                "Ne": 1,
                "nPe": nPe,
                "dim": dim,
                "inDim": dim,
                "Ncoords": self.Ncoords,
                "connect": self.connect,
                "Get_dN_e_pg": lambda mt_=None: self.dN,
                "Get_weightedJacobian_e_pg": lambda mt_=None: self.wJ,
                "Get_N_pg": lambda mt_=None: XArray((nPg, 1, nPe), [Q(0)] * (nPg * nPe)),
            },
        )
        self.ndof = self.Ncoords * dim
        self.pairs = [(0, 0), (1, 1), (0, 1)] if dim == 2 else [(0, 0), (1, 1), (2, 2), (1, 2), (0, 2), (0, 1)]
        self.ne = len(self.pairs)
        ne = self.ne
        self.a = [Q(1, 3), Q(-2, 5), Q(3, 4), Q(1, 6), Q(2, 3), Q(-1, 7)][:ne]
        self.c = [[Q(1 + (i + 1) * (j + 1), 2 + i + j) for j in range(ne)] for i in range(ne)]  # symmetric
        self.t = Q(5, 3)
        self.h = Poly.var("h") if dim == 2 else Poly.const(1)

    # -- states -------------------------------------------------------------
    def vec(self, prefix):
        return XArray((self.ndof,), [Poly.var(f"{prefix}{i}") for i in range(self.ndof)])

    def state(self, U):
        stc = self.stc
        return XObj(stc, {stc.mangle("__groupElem"): self.g, stc.mangle("__displacement"): U, stc.mangle("__matrixType"): self.mt})

    def call(self, obj, name, *args):
        f = self.repo.lookup_method(obj.cls, name)
        return self.M.I.call_function(f, list(args), self_obj=obj)

    def kel(self, st):
        """Kelvin-Mandel Green-Lagrange strain of a state, per integration point, from the repository's own kinematics"""
        E = self.call(st, "Compute_GreenLagrange")
        s2 = MQ.sqrt(2)
        return [[Poly.of(E[0, p, a, b]) * (s2 if a != b else 1) for a, b in self.pairs] for p in range(E.shape[1])]

    # -- the generic stored energy -------------------------------------------
    def W(self, e):
        ne, a, c, t = self.ne, self.a, self.c, self.t
        w = sum((e[i] * a[i] for i in range(ne)), Poly())
        w = w + sum((e[i] * e[j] * (c[i][j] * Q(1, 2)) for i in range(ne) for j in range(ne)), Poly())
        return w + e[0] * e[1] * e[ne - 1] * t

    def dW(self, e, i):
        ne, t = self.ne, self.t
        r = Poly.const(self.a[i]) + sum((e[j] * self.c[i][j] for j in range(ne)), Poly())
        tri = (0, 1, ne - 1)
        if i in tri:
            x, y = [k for k in tri if k != i]
            r = r + e[x] * e[y] * t
        return r

    def d2W(self, e, i, j):
        ne = self.ne
        r = Poly.const(self.c[i][j])
        tri = {0, 1, ne - 1}
        if i != j and i in tri and j in tri:
            k = (tri - {i, j}).pop()
            r = r + e[k] * self.t
        return r

    def material(self, **extra):
        S = self

        class Mat:
            _xeval_open = True
            thickness = S.h

            def Compute_W(self, st):
                e = S.kel(st)
                return S.FeV((1, len(e)), [S.W(ep) for ep in e])

            def Compute_dWde(self, st):
                e = S.kel(st)
                return S.FeV((1, len(e), S.ne), [S.dW(ep, i) for ep in e for i in range(S.ne)])

            def Compute_d2Wde(self, st):
                e = S.kel(st)
                return S.FeV((1, len(e), S.ne, S.ne), [S.d2W(ep, i, j) for ep in e for i in range(S.ne) for j in range(S.ne)])

        m = Mat()
        for k, v in extra.items():
            setattr(m, k, v)
        return m

    def dofname(self, prefix, a, j):
        return f"{prefix}{self.dim * int(self.connect[0, a]) + j}"

    def local_dofs(self, prefix="U"):
        """names of the unknowns in the element's interleaved local layout (x_a, y_a, (z_a) for a = 0..nPe-1)"""
        return [self.dofname(prefix, a, j) for a in range(self.nPe) for j in range(self.dim)]

    def wtot(self, e):
        return sum((self.W(e[p]) * Poly.const(self.wJ[0, p]) for p in range(self.nPg)), Poly()) * self.h

    def fn(self, name):
        return self.repo.func(f"{NL}.{name}")


def _base(S, shift=0):
    return [Q(n, d) * Q(1, 2) for n, d in (_RATS * 2)[shift : shift + S.ndof]]


def _line(S, base, j):
    """the unknowns on the line through `base` along unknown j: base + s e_j"""
    return XArray((S.ndof,), [Poly.const(b) + (Poly.var("s") if i == j else Poly()) for i, b in enumerate(base)])


def _spk_lines(repo, f):
    """3-D: the identities along every coordinate line U = U0 + s e_j through a generic rational point (univariate in s)"""
    S = _Setup(repo, 3)
    base = _base(S, 3)
    n = S.nPe * S.dim
    for jl in range(n):
        a, c = divmod(jl, S.dim)
        j = S.dim * int(S.connect[0, a]) + c
        st = S.state(_line(S, base, j))
        K, R = S.M.I.call_function(f, [S.material(), st])
        if tuple(R.shape) != (1, n) or tuple(K.shape) != (1, n, n):
            return f"shapes {K.shape}, {R.shape}"
        Wt = S.wtot(S.kel(st))
        if not is_zero(Poly.of(R[0, jl]) - Wt.diff("s")):
            return f"residual[{jl}] is not the derivative of the stored energy with respect to unknown {jl} (on the line through a generic point along that unknown)"
        for i in range(n):
            if not is_zero(Poly.of(K[0, i, jl]) - Poly.of(R[0, i]).diff("s")):
                return f"tangent[{i}][{jl}] is not the derivative of residual {i} with respect to unknown {jl}"
    return None


def _cmp_vec(got, want, label):
    for i, w in enumerate(want):
        if not is_zero(Poly.of(got[0, i]) - w):
            return f"{label}[{i}] = {str(Poly.of(got[0, i]))[:90]}, expected {str(w)[:90]}"
    return None


def _cmp_mat(got, rows, names, label, scale=None):
    """got[0, i, j] == d rows[i] / d names[j] (x scale)"""
    for i, ri in enumerate(rows):
        for j, nm in enumerate(names):
            w = ri.diff(nm)
            g = Poly.of(got[0, i, j])
            if scale is not None:
                g = g * scale
            if not is_zero(g - w):
                return f"{label}[{i}][{j}] = {str(g)[:80]}, the derivative of residual {i} with respect to unknown {j} is {str(w)[:80]}"
    return None


def operator_rule(ctx):
    repo = ctx.repo
    r = ctx.rule(
        "R18.12",
        "non-linear element operators, interpreted end to end on a symbolic element (repository kinematics, FeArray algebra, dof reordering): residual == d(energy)/dU for the "
        "energy-derived operators, tangent == d(residual)/dU under the documented coefK convention, damping == d(residual)/dV, Gonzalez residual . dU == Delta W, follower pressure "
        "and penalty contact against their surface-integral definitions -- polynomial identities in the unknowns, 2-D and 3-D",
        min_instances=9,
    )

    def guard(fname, key, fn):
        f = repo.func(f"{NL}.{fname}")
        r.instance(fn=f.qualname)
        import time as _t

        _t0 = _t.time()
        try:
            bad = fn(f)
            r.note(f"{key}: {_t.time() - _t0:.1f}s") if hasattr(r, "note") else None
        except XRaise as e:
            bad = f"raises {e}"
        except Uninterpretable as e:
            if any(s in str(e) for s in ("cannot broadcast", "do not broadcast", "cannot reshape", "out of bounds", "einsum")):
                bad = f"shape error: {e}"
            else:
                raise
        if bad:
            r.fail(f.qualname, key, f.file, f.lineno, fname, f"{key}: {bad}")
        else:
            r.ok(key)

    for dim in (2, 3):
        # ---- SecondPiolaKirchhoffStressTensor --------------------------------
        def spk(f, dim=dim):
            if dim == 3:
                return _spk_lines(repo, f)
            S = _Setup(repo, dim)
            U = S.vec("U")
            st = S.state(U)
            K, R = S.M.I.call_function(f, [S.material(), st])
            names = S.local_dofs()
            Wt = S.wtot(S.kel(st))
            want = [Wt.diff(n) for n in names]
            n = len(names)
            if tuple(R.shape) != (1, n) or tuple(K.shape) != (1, n, n):
                return f"shapes {K.shape}, {R.shape}"
            return _cmp_vec(R, want, "residual (not the derivative of the stored energy in the (x1, y1, .., xn, yn) layout): R") or _cmp_mat(K, want, names, "tangent")

        guard("SecondPiolaKirchhoffStressTensor", f"spk:dim{dim}", spk)

        # ---- ActiveStressTensor -----------------------------------------------
        def active(f, dim=dim):
            S = _Setup(repo, dim)
            U = S.vec("U")
            st = S.state(U)
            sig = [[Q(1 + p + 2 * i, 3 + i) for i in range(S.ne)] for p in range(S.nPg)]
            mat = S.material(active_stress=Q(2), Compute_active_stress=lambda st_: S.FeV((1, S.nPg, S.ne), [x for row in sig for x in row]))
            K, R = S.M.I.call_function(f, [mat, st])
            names = S.local_dofs()
            e = S.kel(st)
            lin = sum((e[p][i] * (sig[p][i] * S.wJ[0, p]) for p in range(S.nPg) for i in range(S.ne)), Poly()) * S.h
            want = [lin.diff(n) for n in names]
            return _cmp_vec(R, want, "residual (int B^T Sigma_act): R") or _cmp_mat(K, want, names, "geometric tangent")

        guard("ActiveStressTensor", f"active:dim{dim}", active)

        # ---- KelvinVoigtDamping -------------------------------------------------
        def kv(f, dim=dim):
            S = _Setup(repo, dim)
            U, V = S.vec("U"), S.vec("V")
            st = S.state(U)
            eta = Q(5, 7)
            K, R, C = S.M.I.call_function(f, [S.material(eta=eta), st, V])
            names, vnames = S.local_dofs("U"), S.local_dofs("V")
            e = S.kel(st)
            want = []
            for ni in names:
                tot = Poly()
                for p in range(S.nPg):
                    for rr in range(S.ne):
                        edot = sum((e[p][rr].diff(nk) * Poly.var(vk) for nk, vk in zip(names, vnames)), Poly())
                        tot = tot + e[p][rr].diff(ni) * edot * S.wJ[0, p]
                want.append(tot * eta * S.h)
            return (
                _cmp_vec(R, want, "viscous residual (thickness . eta . int B^T Edot): R")
                or _cmp_mat(C, want, vnames, "damping matrix (d residual / d velocity)")
                or _cmp_mat(K, want, names, "configuration tangent (d residual / d displacement at fixed velocity)")
            )

        guard("KelvinVoigtDamping", f"kelvin-voigt:dim{dim}", kv)

    # ---- TimeQuadratureStressTensor (fixed rule), 2-D, two coefK ---------------
    for coefK in (Q(1, 2), Q(3, 4)):

        def tq(f, coefK=coefK):
            S = _Setup(repo, 2)
            U = S.vec("U")
            Un = XArray((S.ndof,), [Q(n, d) * Q(1, 2) for n, d in _RATS[5 : 5 + S.ndof]])
            Ut = U * coefK + Un * (1 - coefK)
            sn, st, s1 = S.state(Un), S.state(Ut), S.state(U)
            nodes, weights = (Q(0), Q(1, 2), Q(1)), (Q(1, 6), Q(2, 3), Q(1, 6))  # Simpson; the rule itself is decided by R18.6
            prev = S.M.user_call_hook

            def hook(fn, args, kwargs):
                fi = fn if isinstance(fn, FuncInfo) else getattr(fn, "finfo", None)
                if isinstance(fi, FuncInfo) and fi.name == "__clenshaw_curtis":
                    return (nodes, weights)
                return NotImplemented if prev is None else prev(fn, args, kwargs)

            S.M.user_call_hook = hook
            K, R, npts = S.M.I.call_function(f, [S.material(), sn, st, s1, coefK, 3])
            names = S.local_dofs()
            en, e1, et = S.kel(sn), S.kel(s1), S.kel(st)
            want = []
            for ni in names:
                tot = Poly()
                for p in range(S.nPg):
                    for s, w in zip(nodes, weights):
                        es = [en[p][i] + (e1[p][i] - en[p][i]) * s for i in range(S.ne)]
                        for i in range(S.ne):
                            # B(u_t)^T: d e(u_t) / d u_t
                            dB = et[p][i].diff(ni) * (1 / coefK)  # d e_t / d U = coefK . d e / d u_t
                            tot = tot + dB * S.dW(es, i) * (w * S.wJ[0, p])
                want.append(tot * S.h)
            return _cmp_vec(R, want, "residual (int B(u_t)^T S_quad): R") or _cmp_mat(K, want, names, f"coefK . tangent (coefK = {coefK})", scale=coefK)

        guard("TimeQuadratureStressTensor", f"time-quadrature:coefK={coefK}", tq)

    # ---- GonzalezStressTensor (midpoint), 2-D, one integration point ------------
    def gonzalez(f):
        S = _Setup(repo, 2, nPg=1)
        base = _base(S, 2)
        Unv = _base(S, 5)
        Un = XArray((S.ndof,), Unv)
        n = S.nPe * S.dim
        iD = Poly.var("iD")
        for jl in range(n):
            a, c = divmod(jl, S.dim)
            j = S.dim * int(S.connect[0, a]) + c
            U = _line(S, base, j)
            Um = (U + Un) * Q(1, 2)
            sn, sm, s1 = S.state(Un), S.state(Um), S.state(U)
            seen = {}

            def hook(fn, args, kwargs, seen=seen):
                from ..xeval import _NpAttr

                if isinstance(fn, _NpAttr) and fn.path == "divide" and "where" in kwargs:
                    # the guarded reciprocal of De.De: the generic branch (De.De > eps0); its value is carried as the symbol iD
                    seen["den"] = args[1]
                    return S.FeV((1, 1), [iD])
                return NotImplemented

            S.M.user_call_hook = hook
            K, R = S.M.I.call_function(f, [S.material(), sn, sm, s1])
            if "den" not in seen:
                raise AnalysisError("R18.12: the guarded reciprocal of De.De was not found in GonzalezStressTensor")
            en, e1 = S.kel(sn), S.kel(s1)
            dE = [e1[0][i] - en[0][i] for i in range(S.ne)]
            D = sum((x * x for x in dE), Poly())
            if not is_zero(Poly.of(XArray.from_nested(seen["den"]).data[0]) - D):
                return "the denominator of the discrete-gradient correction is not De . De"
            res = [Poly.of(R[0, i]) for i in range(n)]
            # discrete gradient: R . (U - U_n) == thickness . wJ . (W(e_{n+1}) - W(e_n)) once iD == 1 / D
            work = Poly()
            for i in range(n):
                ai, ci = divmod(i, S.dim)
                k = S.dim * int(S.connect[0, ai]) + ci
                work = work + res[i] * (Poly.of(U[k]) - Unv[k])
            dWtot = (S.W(e1[0]) - S.W(en[0])) * S.wJ[0, 0] * S.h
            A = work.subs({"iD": Poly()})
            B = work - A  # the part carrying iD
            if not is_zero(B.diff("iD").diff("iD")):
                return "the residual is not linear in 1 / (De . De)"
            if not is_zero(A * D + B.diff("iD") - dWtot * D):
                return "the discrete-gradient identity fails: residual . (u_{n+1} - u_n) != W(e_{n+1}) - W(e_n) (energy is not conserved by construction)"
            # consistent tangent: coefK . K == d R / d U_{n+1} with coefK = 1/2 and d iD / dU = - iD^2 dD/dU
            for i in range(n):
                want = res[i].diff("s") - res[i].diff("iD") * iD * iD * D.diff("s")
                if not is_zero(Poly.of(K[0, i, jl]) * Q(1, 2) - want):
                    return f"1/2 . tangent[{i}][{jl}] is not the derivative of residual {i} with respect to unknown {jl} of u_(n+1)"
        return None

    guard("GonzalezStressTensor", "gonzalez", gonzalez)


def surface_operator_rule(ctx, r=None):
    """FollowingPressure and PenaltyContact on one symbolic surface element of a 3-D mesh (interpreted): the follower
    force is sum_p w_p p N_i (dx/dr x dx/ds) in the (x1, y1, z1, ...) layout with x = X + u, its tangent is minus the
    derivative of that force with respect to every unknown; the penalty residual is eps sum_p wJ <-g> N_i n and its
    tangent eps sum_p wJ [g < 0] N_i N_j n (x) n -- the derivative of minus the residual along dg = N_j n . du -- point
    by point (a partly penetrating element keeps only its penetrating points)."""
    from types import SimpleNamespace

    from ..femodel import Model, FeV

    repo = ctx.repo
    if r is None:
        r = ctx.rule("R18.13", "surface operators: FollowingPressure force == sum_p w p N_i (dx/dr x dx/ds), tangent == - d force / dU; PenaltyContact residual / tangent == the pointwise active-set integrals", min_instances=2)
    ge = repo.cls(GE)
    # ---- FollowingPressure --------------------------------------------------
    f = repo.func(f"{NL}.FollowingPressure")
    r.instance(fn=f.qualname)
    M = Model(repo, max_steps=400_000_000)
    nPe, nPg, Nn = 3, 2, 5
    connect = XArray((2, nPe), [4, 1, 2, 0, 2, 3])
    rats = [Q(n, d) for n, d in _RATS] * 3
    Npg = XArray((nPg, 1, nPe), rats[: nPg * nPe])
    dNpg = XArray((nPg, 2, nPe), rats[7 : 7 + nPg * 2 * nPe])
    w = XArray((nPg,), [Q(1, 3), Q(2, 5)])
    X = XArray((Nn, 3), rats[3 : 3 + Nn * 3])
    U = XArray((Nn * 3,), [Poly.var(f"U{i}") for i in range(Nn * 3)])
    pr = Q(7, 3)
    g = XObj(
        ge,
        {
            "dim": 2,
            "Ne": 2,
            "nPe": nPe,
            "connect": connect,
            "coord": X,
            "_global_to_local_nodes": XArray((Nn,), list(range(Nn))),
            "Get_gauss": lambda mt=None: SimpleNamespace(weights=w),
            "Get_N_pg": lambda mt=None: Npg,
            "Get_dN_pg": lambda mt=None: dNpg,
        },
    )
    try:
        K, R = M.I.call_function(f, [g, U, pr, XArray((1,), [1])])  # element 1 only: element 0 must stay exactly zero
        bad = None
        K, R = XArray.from_nested(K), XArray.from_nested(R)
        if K.shape != (2, 9, 9) or R.shape != (2, 9):
            bad = f"shapes {K.shape}, {R.shape}"
        elif any(not is_zero(Poly.of(v)) for v in list(K[0].data) + list(R[0].data)):
            bad = "an element outside `elements` receives a contribution"
        else:
            e = 1
            x = [[Poly.of(X[int(connect[e, a]), c]) + Poly.var(f"U{3 * int(connect[e, a]) + c}") for c in range(3)] for a in range(nPe)]
            force = []
            for a in range(nPe):
                for c in range(3):
                    tot = Poly()
                    for p in range(nPg):
                        ta = [sum((x[b][k] * dNpg[p, 0, b] for b in range(nPe)), Poly()) for k in range(3)]
                        tb = [sum((x[b][k] * dNpg[p, 1, b] for b in range(nPe)), Poly()) for k in range(3)]
                        n = [ta[1] * tb[2] - ta[2] * tb[1], ta[2] * tb[0] - ta[0] * tb[2], ta[0] * tb[1] - ta[1] * tb[0]]
                        tot = tot + n[c] * (w[p] * pr * Npg[p, 0, a])
                    force.append(tot)
            names = [f"U{3 * int(connect[e, a]) + c}" for a in range(nPe) for c in range(3)]
            for i in range(9):
                if not is_zero(Poly.of(R[e, i]) - force[i]):
                    bad = f"force entry {i} is not sum_p w p N (dx/dr x dx/ds) in the (x1, y1, z1, ...) layout"
                    break
            if bad is None:
                for i in range(9):
                    for j in range(9):
                        if not is_zero(Poly.of(K[e, i, j]) + force[i].diff(names[j])):
                            bad = f"tangent[{i}][{j}] is not minus the derivative of force {i} with respect to unknown {j}"
                            break
                    if bad:
                        break
        if bad:
            r.fail(f.qualname, "following-pressure", f.file, f.lineno, "FollowingPressure", bad)
        else:
            r.ok("FollowingPressure: force and tangent, element subset")
    except XRaise as e:
        r.fail(f.qualname, "following-pressure", f.file, f.lineno, "FollowingPressure", f"raises {e}")
    # ---- PenaltyContact ------------------------------------------------------
    f = repo.func(f"{NL}.PenaltyContact")
    r.instance(fn=f.qualname)
    M = Model(repo, max_steps=400_000_000)
    nPe, nPg, dim = 2, 3, 2
    Npg = XArray((nPg, 1, nPe), [Poly.var(f"N{p}{a}") for p in range(nPg) for a in range(nPe)])
    wJ = FeV((2, nPg), [Poly.var(f"w{e}{p}") for e in range(2) for p in range(nPg)])
    gaps = [Q(-1, 2), Q(3, 4), Q(-2, 3)]  # a partly penetrating element: points 0 and 2 penetrate, point 1 does not
    gap = FeV((1, nPg), gaps)
    nrm = FeV((1, nPg, 3), [Poly.var(f"n{p}{c}") for p in range(nPg) for c in range(3)])
    eps = Q(11, 2)
    g = XObj(ge, {"dim": 1, "inDim": dim, "Ne": 2, "nPe": nPe, "Get_weightedJacobian_e_pg": lambda mt=None: wJ, "Get_N_pg": lambda mt=None: Npg})
    try:
        K, R = M.I.call_function(f, [g, eps, gap, nrm, XArray((1,), [1])])
        K, R = XArray.from_nested(K), XArray.from_nested(R)
        bad = None
        n = nPe * dim
        if K.shape != (2, n, n) or R.shape != (2, n):
            bad = f"shapes {K.shape}, {R.shape}"
        elif any(not is_zero(Poly.of(v)) for v in list(K[0].data) + list(R[0].data)):
            bad = "an element outside `elements` receives a contribution"
        else:
            e = 1
            for i in range(nPe):
                for c in range(dim):
                    want = sum((Poly.of(wJ[e, p]) * Npg[p, 0, i] * nrm[0, p, c] * (eps * max(-gaps[p], 0)) for p in range(nPg)), Poly())
                    if not is_zero(Poly.of(R[e, i * dim + c]) - want):
                        bad = f"residual entry (node {i}, component {c}) is not eps sum_p wJ <-g> N_i n_c"
                    for j in range(nPe):
                        for d in range(dim):
                            wantK = sum((Poly.of(wJ[e, p]) * Npg[p, 0, i] * Npg[p, 0, j] * nrm[0, p, c] * nrm[0, p, d] * eps for p in range(nPg) if gaps[p] < 0), Poly())
                            if not is_zero(Poly.of(K[e, i * dim + c, j * dim + d]) - wantK):
                                bad = bad or f"tangent entry ({i},{c};{j},{d}) is not eps sum over the penetrating points of wJ N_i N_j n_c n_d: the tangent is not the derivative of the residual on a partly penetrating element"
        if bad:
            r.fail(f.qualname, "penalty-contact", f.file, f.lineno, "PenaltyContact", bad)
        else:
            r.ok("PenaltyContact: residual and tangent on a partly penetrating element, element subset")
    except XRaise as e:
        r.fail(f.qualname, "penalty-contact", f.file, f.lineno, "PenaltyContact", f"raises {e}")


def clenshaw_curtis_rule(ctx):
    """R18.15: the strain-path rule itself (R18.6 / R18.12 take its nodes and weights as given): __clenshaw_curtis(n) is
    interpreted exactly (cosines of rational multiples of pi in Q(sqrt 2, sqrt 3, sqrt 5)) for n = 1 .. 7 points:
    nodes increasing from 0 to 1 at (1 - cos(k pi / (n - 1))) / 2, weights summing to one, and the rule integrates
    every monomial s^j, j < n, exactly on [0, 1] (an interpolatory rule on those nodes is unique): the energy defect of
    the averaged stress is then the quadrature error of a smooth integrand, nothing else."""
    from ..xeval import Interp

    repo = ctx.repo
    f = repo.func(f"{NL}.__clenshaw_curtis")
    r = ctx.rule("R18.15", "__clenshaw_curtis(n), n = 1..7: nodes == (1 - cos(k pi/(n-1)))/2 increasing, sum of weights == 1, exact on s^j for j < n (exact arithmetic)", min_instances=7)
    for n in range(1, 8):
        r.instance(fn=f.qualname)
        try:
            nodes, weights = Interp(repo).call_function(f, [n])
        except Uninterpretable as e:
            if "outside the exact" in str(e):
                r.note(f"nPoints = {n}: {e}")
                r.ok(f"nPoints = {n}: not followed ({str(e)[-60:]})")
                continue
            raise
        nodes, weights = [MQ.of(exact_(x)) for x in nodes], [MQ.of(exact_(x)) for x in weights]
        bad = None
        if len(nodes) != n or len(weights) != n:
            bad = f"{len(nodes)} nodes, {len(weights)} weights"
        elif any(not (nodes[k] < nodes[k + 1]) for k in range(n - 1)) or (n > 1 and (not nodes[0].is_zero() or not (nodes[-1] - MQ.of(1)).is_zero())):
            bad = f"nodes {nodes} are not increasing from 0 to 1"
        else:
            for j in range(n):
                tot = MQ.of(0)
                for s, w in zip(nodes, weights):
                    tot = tot + w * (s ** j if j else MQ.of(1))
                if not (tot - MQ.of(Q(1, j + 1))).is_zero():
                    bad = f"sum_k w_k s_k^{j} = {tot.approx(12) if hasattr(tot, 'approx') else tot}, the integral of s^{j} over [0, 1] is 1/{j + 1}"
                    break
        if bad:
            r.fail(f.qualname, f"rule:n={n}", f.file, f.lineno, "__clenshaw_curtis", f"nPoints = {n}: {bad}: the averaged stress is no longer a discrete gradient up to the quadrature error (R . du != Delta W already for a quadratic energy)")
        else:
            r.ok(f"nPoints = {n}: interpolatory, weights sum to 1")


def exact_(x):
    from ..xeval import exact

    x = exact(x)
    if isinstance(x, Poly) and x.is_const():
        return x.const_value()
    return x


def adaptive_bookkeeping_rule(ctx):
    """R18.17: the adaptive strain-path rule refines element by element: elements that stop on different Clenshaw-Curtis
    levels.  __AdaptiveTimeQuadratureStressTensor is interpreted on three one-point elements with DIFFERENT strain paths
    and a cubic stand-in energy W(C) = C^3 (S = 6 C^2, dS/de = 24 C; tol = 0): elements 0 and 2 do not move (accepted on
    level 1), element 1 moves (its midpoint rule has an energy defect, Simpson is exact: accepted on level 2).  Each
    element's averaged stress AND tangent must be the rule of ITS level applied to ITS OWN strain path:
    dWde[e] = sum_k w_k S(C_e(s_k)),  d2Wde[e] = sum_k (w_k s_k / coefK) dS/de(C_e(s_k))."""
    from types import SimpleNamespace

    from ..xeval import Interp, FuncInfo
    from ..femchain import fe_hook_full, XFe

    repo = ctx.repo
    f = repo.func(f"{NL}.__AdaptiveTimeQuadratureStressTensor")
    r = ctx.rule("R18.17", "adaptive strain-path quadrature: each element's averaged stress and tangent are its accepted rule applied to its own strain path (elements stopping on different levels)", min_instances=1)
    r.instance(fn=f.qualname)
    Ne = 3
    C0 = [Q(2), Q(3), Q(5)]
    C1 = [Q(2), Q(4), Q(5)]  # only element 1 moves
    col = lambda vals: XFe((len(vals), 1, 1, 1), list(vals))

    class State:
        _xeval_open = True

        def __init__(self, C):
            self.C = C
            self.groupElem = group
            self.matrixType = "mt"

        def Compute_C(self):
            return col(self.C)

        def Compute_GreenLagrange(self):
            return col([(c - 1) / 2 for c in self.C])

    class Holder:
        _xeval_open = True

        def __init__(self, C):
            self.C = XArray.from_nested(C)

    group = SimpleNamespace(dim=1, Get_weightedJacobian_e_pg=lambda mt=None: XFe((Ne, 1), [Q(1)] * Ne))
    sn, s1 = State(C0), State(C1)

    def values(h):
        c = h.C if isinstance(h, Holder) else col(h.C)
        return [c[e, 0, 0, 0] for e in range(c.shape[0])]

    material = SimpleNamespace(
        Compute_W=lambda st: XFe((len(values(st)), 1), [c ** 3 for c in values(st)]),
        Compute_dWde=lambda h: XFe((len(values(h)), 1, 1), [6 * c * c for c in values(h)]),
        Compute_d2Wde=lambda h: XFe((len(values(h)), 1, 1, 1), [24 * c for c in values(h)]),
    )

    def hook(fn, args, kwargs):
        fi = fn if isinstance(fn, FuncInfo) else getattr(fn, "finfo", None)
        if isinstance(fi, FuncInfo) and fi.name == "_sliced":
            return Holder(args[-1])
        if isinstance(fi, FuncInfo) and fi.name == "Project_matrix_to_vector":
            a = XArray.from_nested(args[0])
            return XFe(a.shape[:2] + (1,), list(a.data))
        return fe_hook_full(fn, args, kwargs)

    I = Interp(repo, max_steps=20_000_000)
    I.call_hook = hook
    coefK = Q(1, 2)
    try:
        dW_q, d2W_q, npts = I.call_function(f, [material, sn, s1, coefK, Q(0), 9])
    except XRaise as e:
        r.fail(f.qualname, "adaptive-bookkeeping", f.file, f.lineno, "__AdaptiveTimeQuadratureStressTensor", f"raises {e}")
        return
    dW_q, d2W_q, npts = XArray.from_nested(dW_q), XArray.from_nested(d2W_q), [int(exact_(x)) for x in XArray.from_nested(npts).data]
    rules = {1: ([Q(1, 2)], [Q(1)]), 3: ([Q(0), Q(1, 2), Q(1)], [Q(1, 6), Q(2, 3), Q(1, 6)])}
    bad = None
    want_levels = [1, 3, 1]
    if npts != want_levels:
        bad = f"accepted point counts {npts}, expected {want_levels} (elements 0 and 2 do not move; element 1: the midpoint rule has an energy defect, Simpson is exact for the cubic energy)"
    else:
        for e in range(Ne):
            nodes, weights = rules[npts[e]]
            path = lambda s, e=e: C0[e] + s * (C1[e] - C0[e])
            wantS = sum((w * 6 * path(s) ** 2 for s, w in zip(nodes, weights)), Q(0))
            wantT = sum((w * s / coefK * 24 * path(s) for s, w in zip(nodes, weights) if s), Q(0))
            gotS, gotT = exact_(dW_q[e, 0, 0]), exact_(d2W_q[e, 0, 0, 0])
            if bad is None and not is_zero(Poly.of(gotS) - wantS):
                bad = f"element {e} (level {npts[e]}): averaged stress {gotS}, its own path gives {wantS}"
            if bad is None and not is_zero(Poly.of(gotT) - wantT):
                bad = f"element {e} (level {npts[e]}): tangent {gotT}, the rule applied to its own strain path gives {wantT} (the value belongs to another element's path: global element numbers and rows of the still-active block were mixed up)"
    if bad:
        r.fail(f.qualname, "adaptive-bookkeeping", f.file, f.lineno, "__AdaptiveTimeQuadratureStressTensor", f"three elements, strain C: (2, 3, 5) -> (2, 4, 5), W = C^3, tol = 0: {bad}: coefK * K_e is no longer the derivative of the residual")
    else:
        r.ok("levels (1, 3, 1): stress and tangent of each element from its own path")
