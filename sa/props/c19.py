"""C19 -- history-dependent materials: the effect clause "integration never
modifies the committed state; only saving a converged step advances the
history".  Admissibility, dissipation and tangent consistency are inequalities
/ derivatives over run-time paths and are NOT decided."""

from __future__ import annotations

import ast

from ..flow import CallGraph, self_stores, param_inplace, alias_closure, inplace_sinks, returns_alias
from ..repo import AnalysisError, dotted, norm_text, walk_no_nested

BEH = "EasyFEA.Models.InElastic._behavior.Behavior"
SIM = "EasyFEA.Simulations._inelastic.InElastic"
MP = "EasyFEA.Models.InElastic._materialpoint"


def run(ctx):
    repo = ctx.repo
    ctx.level = "other"
    ctx.explanation = (
        "Decided (effect and who-may-call analysis): everything reachable from Behavior.Integrate inside the InElastic package neither stores to a Behavior attribute "
        "nor writes in place to an alias of the committed-state parameter (interprocedural alias analysis: views via subscripts, asarray/asfearray/reshape; fresh via arithmetic/copy); "
        "the committed state __zOld is written only by construction, lazy zero-initialisation, Save_Iter and Set_Iter, Construct_local_matrix_system writes the trial state only; "
        "Integrate is called only from assembly and MaterialPoint.Run, result queries read through Compute_stress; every local Newton update passes the bound on the multipliers; "
        "the no-internal-variable path returns the elastic stress and C. NOT decided: admissibility, dissipation inequality, tangent consistency, agreement of the two local solvers."
    )
    cg = CallGraph(repo)
    beh = repo.cls(BEH)
    fint = beh.methods["Integrate"]
    pkg_prefix = "EasyFEA.Models.InElastic"
    reach = cg.reachable([fint], stop=lambda f: not f.module.name.startswith(pkg_prefix))
    inpkg = [f for f in reach if f.module.name.startswith(pkg_prefix)]

    r1 = ctx.rule("R19.1", "Integrate is pure: no store to an attribute of the behaviour (or of its yield/hardening/rate objects) and no in-place write to an alias of the committed state zOld_e_pg, in anything it reaches", min_instances=10)
    for f in inpkg:
        r1.instance(fn=f.qualname)
        stores = self_stores(f)
        if f.name == "__init__":
            r1.ok()
            continue
        if stores:
            a, n, kind = stores[0]
            r1.fail(f.qualname, f"self-store:{a}", f.file, n.lineno, f.name, f"reachable from Behavior.Integrate and stores to self.{a} ({kind}): integration would carry hidden state between Newton iterations")
        else:
            r1.ok(f"{f.qualname}: no attribute store")
    # alias analysis of the committed-state parameter
    params = [p for p in fint.params() if p.lower().startswith("zold")]
    if not params:
        raise AnalysisError("Behavior.Integrate has no zOld parameter")
    r1.instance(fn=fint.qualname)
    sinks = param_inplace(cg, fint, set(params), depth=6)
    sinks = [(f, n, d) for f, n, d in sinks if f.module.name.startswith(pkg_prefix)]
    if sinks:
        for f, n, d in sinks[:5]:
            r1.fail(f.qualname, f"inplace:{norm_text(n)[:60]}", f.file, n.lineno, f.name, f"writes in place to an alias of the committed state passed to Integrate ({d}): `{norm_text(n)[:100]}`")
    else:
        r1.ok(f"no in-place write to an alias of {params} in {len(inpkg)} reachable functions")
    ctx.extra["reachable_from_Integrate"] = sorted(f.qualname for f in inpkg)

    # R19.2 commit discipline
    r2 = ctx.rule("R19.2", "commit discipline: __zOld is written only by __init__, the lazy zero-initialisation, Save_Iter and Set_Iter; Construct_local_matrix_system writes the trial state only; Integrate is called only from assembly and MaterialPoint.Run", min_instances=4)
    sim = repo.cls(SIM)
    zold = sim.mangle("__zOld")
    z = sim.mangle("__z")
    writers = {}
    for name, f in sim.methods.items():
        if f.cls is not sim:
            continue
        for a, n, kind in self_stores(f):
            if a in (zold, z):
                writers.setdefault(a, {}).setdefault(f.name, []).append((n, kind))
    r2.instance(fn=SIM)
    allowed_old = {"__init__", "Save_Iter", "Set_Iter", "__Get_state"}
    extra = set(writers.get(zold, {})) - allowed_old
    if not extra and writers.get(zold):
        r2.ok(f"__zOld writers: {sorted(writers[zold])}")
    else:
        for w in sorted(extra):
            n, kind = writers[zold][w][0]
            f = sim.methods[w]
            r2.fail(f.qualname, "commit-writer", f.file, n.lineno, w, f"`{w}` writes the committed state __zOld ({kind}); only Save_Iter / Set_Iter (and construction) may advance the history")
    # the lazy initialisation must only write zeros for a missing key
    g = sim.methods.get("__Get_state")
    if g is not None and "__Get_state" in writers.get(zold, {}):
        r2.instance(fn=g.qualname)
        ok = all(isinstance(n, ast.Assign) and isinstance(n.value, ast.Call) and (dotted(n.value.func) or "").endswith("State_zeros") for n, k in writers[zold]["__Get_state"])
        guarded = any(isinstance(n, ast.If) and isinstance(n.test, ast.Compare) and isinstance(n.test.ops[0], ast.NotIn) for n in ast.walk(g.node))
        if ok and guarded:
            r2.ok("__Get_state only inserts State_zeros for a missing key")
        else:
            r2.fail(g.qualname, "lazy-init", g.file, g.lineno, "__Get_state", "the lazy initialisation of the committed state does more than insert zeros for a missing element type")
    fc = sim.methods["Construct_local_matrix_system"]
    r2.instance(fn=fc.qualname)
    cw = {a for a, n, k in self_stores(fc)}
    if zold in cw:
        r2.fail(fc.qualname, "assembly-commits", fc.file, fc.lineno, "Construct_local_matrix_system", "assembly writes the committed state: the history would advance inside Newton iterations")
    elif z in cw:
        r2.ok("Construct_local_matrix_system stores the trial state __z only")
    else:
        r2.fail(fc.qualname, "no-trial", fc.file, fc.lineno, "Construct_local_matrix_system", "the trial state returned by Integrate is not kept: Save_Iter would have nothing to commit")
    # Save_Iter commits a copy of the trial state
    fs = sim.methods["Save_Iter"]
    r2.instance(fn=fs.qualname)
    commits = [n for a, n, k in self_stores(fs) if a == zold]
    if commits and all(".copy()" in norm_text(n.value) and (z.replace("_InElastic", "self.") in norm_text(n.value) or "self.__z" in norm_text(n.value)) for n in commits):
        r2.ok("Save_Iter: __zOld = copies of the trial state")
    else:
        r2.fail(fs.qualname, "commit-copy", fs.file, fs.lineno, "Save_Iter", "Save_Iter does not commit a copy of the trial state")
    # who calls Integrate
    callers = []
    for f in repo.all_functions():
        for n in walk_no_nested(f.node):
            if isinstance(n, ast.Call) and isinstance(n.func, ast.Attribute) and n.func.attr == "Integrate" and f is not fint:
                callers.append((f, n))
    for f, n in callers:
        r2.instance(fn=f.qualname)
        okc = (f.cls is sim and f.name == "Construct_local_matrix_system") or f.module.name.startswith(MP) or f.module.name.startswith("EasyFEA.Models.InElastic")
        if okc:
            r2.ok(f"{f.qualname} calls Integrate")
        else:
            r2.fail(f.qualname, "caller", f.file, n.lineno, f.name, "calls Behavior.Integrate outside assembly / MaterialPoint.Run (result queries must read the committed state through Compute_stress)")
    if len(callers) < 2:
        raise AnalysisError(f"R19.2: only {len(callers)} Integrate call sites found")

    # R19.3 bound on every Newton update
    r3 = ctx.rule("R19.3", "admissible updates: the local Newton loop applies __Bound to every update of the unknowns", min_instances=1)
    ff = beh.methods.get("__Flow")
    if ff is None:
        raise AnalysisError("Behavior.__Flow not found")
    loops = [n for n in ast.walk(ff.node) if isinstance(n, (ast.For, ast.While))]
    r3.instance(fn=ff.qualname)
    ok = False
    for lp in loops:
        body = norm_text(lp)
        if "__Bound(" in body and ("np.linalg.solve" in body or "solve(" in body or "__Jacobian(" in body):
            ok = True
    if ok:
        r3.ok("__Flow: the Newton loop body passes the update through __Bound")
    else:
        r3.fail(ff.qualname, "bound", ff.file, ff.lineno, "__Flow", "a Newton update of the local unknowns is not passed through __Bound (plastic multiplier increments could become negative)")

    # R19.4 elastic degeneration
    r4 = ctx.rule("R19.4", "a material without internal variables takes the elastic path: Compute_sigma and the elastic C", min_instances=1)
    f3 = beh.methods["__Integrate_3d"]
    r4.instance(fn=f3.qualname)
    okp = False
    for n in ast.walk(f3.node):
        if isinstance(n, ast.If) and ("layout.n" in norm_text(n.test) or ".n == 0" in norm_text(n.test) or "not self" in norm_text(n.test)):
            t = norm_text(ast.Module(body=n.body, type_ignores=[]))
            if "Compute_sigma" in t and "return" in t:
                okp = True
    if okp:
        r4.ok("__Integrate_3d: n == 0 returns Compute_sigma(...) and the elastic tangent")
    else:
        r4.fail(f3.qualname, "elastic-path", f3.file, f3.lineno, "__Integrate_3d", "no early elastic return for a material without internal variables")
