"""C19 -- history-dependent materials: the effect clause "integration never
modifies the committed state; only saving a converged step advances the
history".  Admissibility, dissipation and tangent consistency are inequalities
/ derivatives over run-time paths and are NOT decided."""

from __future__ import annotations

import ast

from ..flow import CallGraph, self_stores, param_inplace, alias_closure, inplace_sinks, returns_alias
from ..repo import AnalysisError, dotted, norm_text, walk_no_nested
from ..intervals import range_at
from ..alg import Rat

BEH = "EasyFEA.Models.InElastic._behavior.Behavior"
SIM = "EasyFEA.Simulations._inelastic.InElastic"
MP = "EasyFEA.Models.InElastic._materialpoint"


def run(ctx):
    ctx.attempt(committed_state_roundtrip_rule, ctx)
    from ..shared import parameter_threading_rule as _ptr

    ctx.attempt(committed_state_invariance_rule, ctx)
    ctx.attempt(_ptr, ctx, "R19.14", scope=lambda f: f.module.name.startswith(("EasyFEA.Models.InElastic", "EasyFEA.Simulations._inelastic")))
    # 'plane stress leaves no out-of-plane stress': the out-of-plane strain is solved at the internal state the caller holds
    ctx.attempt(_ptr, ctx, "R19.16", scope=lambda f: f.module.name.startswith("EasyFEA.Models.InElastic"), pname="z_e_pg", min_instances=4)
    from .c16 import stress_read_state_rule as _stress_read_state_rule

    ctx.attempt(_stress_read_state_rule, ctx, "R19.17")
    from ..shared import zero_argument_division_rule as _zero_argument_division_rule

    ctx.attempt(_zero_argument_division_rule, ctx, "R19.13", scope=lambda f: f.module.name.startswith(("EasyFEA.Models.InElastic", "EasyFEA.Simulations._inelastic")))
    from ..shared import snapshot_rule as _snapshot_rule

    ctx.attempt(_snapshot_rule, ctx, "R19.12", scope=lambda ci: ci.module.name.startswith(("EasyFEA.Models", "EasyFEA.Simulations")))
    # (R19.11, the multiplier column of __Jacobian compared with the residual rows as opaque polynomials of the SOURCE TEXT, fired on
    # `np.add(zOld, du)`; retired: R19.22 decides every column of J, the multiplier column included, on the interpreted functions.)
    ctx.attempt(flow_step_rule, ctx)
    ctx.attempt(spectral_dispatch_rule, ctx)
    ctx.attempt(plane_stress_linearity_rule, ctx)
    ctx.attempt(local_jacobian_rule, ctx)
    ctx.attempt(free_energy_rule, ctx)
    ctx.attempt(plane_stress_flow_rule, ctx)
    ctx.attempt(plane_stress_kinematic_rule, ctx)
    from . import e2e_rules as _e2e

    ctx.attempt(_e2e.inelastic_rule, ctx, "R19.E1")
    ctx.attempt(reducibility_rule, ctx)
    from ..shared import commit_idempotent_rule as _commit_idempotent_rule

    ctx.attempt(_commit_idempotent_rule, ctx, "R19.10")
    repo = ctx.repo
    ctx.level = "other"
    ctx.explanation = (
        "Decided (effect and who-may-call analysis): everything reachable from Behavior.Integrate inside the InElastic package neither stores to a Behavior attribute "
        "nor writes in place to an alias of the committed-state parameter (interprocedural alias analysis: views via subscripts, asarray/asfearray/reshape; fresh via arithmetic/copy); "
        "the committed state __zOld is written only by construction, lazy zero-initialisation, Save_Iter and Set_Iter, Construct_local_matrix_system writes the trial state only; "
        "Integrate is called only from assembly and MaterialPoint.Run, result queries read through Compute_stress; every local Newton update passes the bound on the multipliers; "
        "the no-internal-variable path returns the elastic stress and C. Constitutive derivative pairs and the scalar spectral return as rational-function identities (R19.7, R19.8); the multiplier "
        "column of the local Jacobian (R19.11); the plane-stress condensation (R19.5); the structure of __Flow - projection last, tangent from the final Jacobian whether or not a point flows (R19.18); state "
        "and dt threading (R19.14-R19.17). NOT decided: the dissipation inequality along a history, convergence of the local Newton iterations, numerical agreement of the two local solvers."
    )
    cg = CallGraph(repo)
    beh = repo.cls(BEH)
    fint = beh.methods["Integrate"]
    pkg_prefix = "EasyFEA.Models.InElastic"
    reach = cg.reachable([fint], stop=lambda f: not f.module.name.startswith(pkg_prefix))
    inpkg = [f for f in reach if f.module.name.startswith(pkg_prefix)]

    r1 = ctx.rule("R19.1", "Integrate is pure: no store to an attribute of the behaviour (or of its yield/hardening/rate objects) and no in-place write to an alias of the committed state zOld_e_pg, in anything it reaches", min_instances=10)
    for f in inpkg:
        r1.instance(fn=f.qualname)
        stores = self_stores(f)
        if f.name == "__init__":
            r1.ok()
            continue
        if stores:
            a, n, kind = stores[0]
            r1.fail(f.qualname, f"self-store:{a}", f.file, n.lineno, f.name, f"reachable from Behavior.Integrate and stores to self.{a} ({kind}): integration would carry hidden state between Newton iterations")
        else:
            r1.ok(f"{f.qualname}: no attribute store")
    # alias analysis of the committed-state parameter
    params = [p for p in fint.params() if p.lower().startswith("zold")]
    if not params:
        raise AnalysisError("Behavior.Integrate has no zOld parameter")
    r1.instance(fn=fint.qualname)
    sinks = param_inplace(cg, fint, set(params), depth=6)
    sinks = [(f, n, d) for f, n, d in sinks if f.module.name.startswith(pkg_prefix)]
    if sinks:
        for f, n, d in sinks[:5]:
            r1.fail(f.qualname, f"inplace:{norm_text(n)[:60]}", f.file, n.lineno, f.name, f"writes in place to an alias of the committed state passed to Integrate ({d}): `{norm_text(n)[:100]}`")
    else:
        r1.ok(f"no in-place write to an alias of {params} in {len(inpkg)} reachable functions")
    ctx.extra["reachable_from_Integrate"] = sorted(f.qualname for f in inpkg)

    # R19.2 commit discipline
    r2 = ctx.rule("R19.2", "commit discipline: __zOld is written only by __init__, the lazy zero-initialisation, Save_Iter and Set_Iter; Construct_local_matrix_system writes the trial state only; Integrate is called only from assembly and MaterialPoint.Run", min_instances=4)
    sim = repo.cls(SIM)
    zold = sim.mangle("__zOld")
    z = sim.mangle("__z")
    writers = {}
    for name, f in sim.methods.items():
        if f.cls is not sim:
            continue
        for a, n, kind in self_stores(f):
            if a in (zold, z):
                writers.setdefault(a, {}).setdefault(f.name, []).append((n, kind))
    r2.instance(fn=SIM)
    allowed_old = {"__init__", "Save_Iter", "Set_Iter", "__Get_state"}
    extra = set(writers.get(zold, {})) - allowed_old
    if not extra and writers.get(zold):
        r2.ok(f"__zOld writers: {sorted(writers[zold])}")
    else:
        for w in sorted(extra):
            n, kind = writers[zold][w][0]
            f = sim.methods[w]
            r2.fail(f.qualname, "commit-writer", f.file, n.lineno, w, f"`{w}` writes the committed state __zOld ({kind}); only Save_Iter / Set_Iter (and construction) may advance the history")
    # the lazy initialisation must only write zeros for a missing key
    g = sim.methods.get("__Get_state")
    if g is not None and "__Get_state" in writers.get(zold, {}):
        r2.instance(fn=g.qualname)
        # interpreted (the statement shape `if key not in d: d[key] = State_zeros(..)` used to be matched; it fired on a
        # try / except KeyError rewrite, refactored/C19-R5): an element type already committed is returned untouched, a
        # missing one receives the material's zero state and nothing else changes
        from types import SimpleNamespace as _NS
        from ..xeval import Interp as _I19, XObj as _X19, XRaise as _XR19

        held = ["committed-A"]
        zero = ["zeros"]
        d0 = {"A": held}
        o = _X19(sim, {sim.mangle("__zOld"): d0, "material": _NS(State_zeros=lambda Ne, nPg: zero), sim.mangle("__z"): {}})
        mkg = lambda et: _NS(elemType=et, Ne=2, Get_gauss=lambda mt=None: _NS(nPg=3))
        try:
            a = _I19(repo).call_function(g, [mkg("A"), "mt"], self_obj=o)
            b = _I19(repo).call_function(g, [mkg("B"), "mt"], self_obj=o)
            d1 = o.attrs.get(sim.mangle("__zOld"))
            ok = a is held and b == zero and isinstance(d1, dict) and d1.get("A") is held and d1.get("B") == zero and set(d1) == {"A", "B"} and held == ["committed-A"]
        except _XR19:
            ok = False
        if ok:
            r2.ok("__Get_state only inserts State_zeros for a missing key")
        else:
            r2.fail(g.qualname, "lazy-init", g.file, g.lineno, "__Get_state", "the lazy initialisation of the committed state does more than insert zeros for a missing element type")
    fc = sim.methods["Construct_local_matrix_system"]
    r2.instance(fn=fc.qualname)
    cw = {a for a, n, k in self_stores(fc)}
    if zold in cw:
        r2.fail(fc.qualname, "assembly-commits", fc.file, fc.lineno, "Construct_local_matrix_system", "assembly writes the committed state: the history would advance inside Newton iterations")
    elif z in cw:
        r2.ok("Construct_local_matrix_system stores the trial state __z only")
    else:
        r2.fail(fc.qualname, "no-trial", fc.file, fc.lineno, "Construct_local_matrix_system", "the trial state returned by Integrate is not kept: Save_Iter would have nothing to commit")
    # (that Save_Iter commits a COPY of the trial state used to be read off the text of the assignment - `.copy()` and
    #  `self.__z` in it; it fired on a loop that fills two local dicts, refactored/C15-R5.  Decided by R19.25: the committed,
    #  the stored and the trial state are equal and are three different arrays.)
    fs = sim.methods["Save_Iter"]
    # trial and committed containers never alias: assembly writes the trial container entry by entry, so a shared dict
    # (or shared arrays) lets a Newton iterate overwrite the committed history
    for name, f in sorted(sim.methods.items()):
        if f.cls is not sim or name != f.node.name:
            continue
        for a, n, kind in self_stores(f):
            if a not in (z, zold) or kind != "assign" or not isinstance(n, ast.Assign):
                continue
            other = zold if a == z else z
            others = {other, other.replace("_InElastic", "")}
            mentions = [x for x in ast.walk(n.value) if isinstance(x, ast.Attribute) and isinstance(x.value, ast.Name) and x.value.id == "self" and x.attr in others]
            if not mentions:
                continue
            r2.instance(fn=f.qualname)
            v = n.value
            fresh = isinstance(v, ast.DictComp) and isinstance(v.value, ast.Call) and ((isinstance(v.value.func, ast.Attribute) and v.value.func.attr == "copy") or (dotted(v.value.func) or "") in ("copy.deepcopy", "np.array", "np.copy"))
            fresh = fresh or (isinstance(v, ast.Call) and (dotted(v.func) or "") == "copy.deepcopy")
            if fresh:
                r2.ok(f"{f.name}: {norm_text(n)[:70]} (fresh container, copied arrays)")
            else:
                r2.fail(f.qualname, f"alias:{f.name}", f.file, n.lineno, f.name, f"`{norm_text(n)[:80]}` makes the trial and the committed state share their container / arrays: Construct_local_matrix_system then writes every Newton iterate into the committed history, which advances without Save_Iter")
    # who calls Integrate
    callers = []
    for f in repo.all_functions():
        for n in walk_no_nested(f.node):
            if isinstance(n, ast.Call) and isinstance(n.func, ast.Attribute) and n.func.attr == "Integrate" and f is not fint:
                callers.append((f, n))
    for f, n in callers:
        r2.instance(fn=f.qualname)
        okc = (f.cls is sim and f.name == "Construct_local_matrix_system") or f.module.name.startswith(MP) or f.module.name.startswith("EasyFEA.Models.InElastic")
        if okc:
            r2.ok(f"{f.qualname} calls Integrate")
        else:
            r2.fail(f.qualname, "caller", f.file, n.lineno, f.name, "calls Behavior.Integrate outside assembly / MaterialPoint.Run (result queries must read the committed state through Compute_stress)")
    if len(callers) < 2:
        raise AnalysisError(f"R19.2: only {len(callers)} Integrate call sites found")

    # R19.3 bound on every Newton update
    # (R19.3 looked for the text `__Bound(` next to `solve(` inside a loop of __Flow and R19.4 for an `if ... n == 0` whose body
    # mentions Compute_sigma: both would fire on an equivalent rewrite - a helper for the Newton step, `if not n`, `n < 1`.
    # R19.3 is retired in favour of R19.18, which interprets __Flow; R19.4 is decided by interpretation below.)
    ctx.attempt(elastic_degeneration_rule, ctx)
    condensation_rule(ctx, beh)
    derivative_rules(ctx)
    convergence_test_rule(ctx)


def condensation_rule(ctx, beh):
    """R19.5: the plane-stress tangent is the Schur complement of the zz row/column of the 3-D algorithmic tangent,
    for a tangent that is NOT assumed symmetric (recall terms of non-associated / kinematic hardening)."""
    from ..alg import Poly, Rat, is_zero
    from ..xeval import Interp, XObj
    from ..xarray import XArray
    from ..femchain import XFe, fe_hook_full

    repo = ctx.repo
    r = ctx.rule("R19.5", "plane-stress condensation: C2d[i,j] = C[I_i,I_j] - C[I_i,zz] C[zz,I_j] / C[zz,zz] on a general (non-symmetric) 6x6 tangent, I = the in-plane Kelvin slots", min_instances=1)
    f = beh.methods.get("__Condense")
    if f is None:
        raise AnalysisError("Behavior.__Condense not found")
    mod = f.module
    I = Interp(repo)
    I.call_hook = fe_hook_full
    idx = [int(x) for x in XArray.from_nested(I.eval_expr(ast.Name(id="IDX_2D", ctx=ast.Load(), lineno=f.lineno, col_offset=0), {}, f.file, mod)).data]
    zz = int(I.eval_expr(ast.Name(id="ZZ", ctx=ast.Load(), lineno=f.lineno, col_offset=0), {}, f.file, mod))
    r.instance(fn=f.qualname)
    if idx != [0, 1, 5] or zz != 2:
        r.fail(f.qualname, "slots", f.file, f.lineno, "__Condense", f"in-plane Kelvin slots {idx} / zz slot {zz}: expected [0, 1, 5] (xx, yy, xy) and 2")
        return
    C = XFe((1, 1, 6, 6), [Poly.var(f"c{i}{j}") for i in range(6) for j in range(6)])
    out = XArray.from_nested(I.call_function(f, [C], self_obj=XObj(beh, {})))
    bad = None
    if out.shape != (1, 1, 3, 3):
        bad = f"result has shape {out.shape}"
    else:
        for a, i in enumerate(idx):
            for b, j in enumerate(idx):
                want = Rat.of(C[0, 0, i, j]) - Rat.of(C[0, 0, i, zz] * C[0, 0, zz, j]) / Rat.of(C[0, 0, zz, zz])
                if not is_zero(Rat.of(out[0, 0, a, b]) - want):
                    bad = f"entry ({a},{b}) = {out[0, 0, a, b]!r}, expected c{i}{j} - c{i}{zz}*c{zz}{j}/c{zz}{zz}"
    if bad:
        r.fail(f.qualname, "schur", f.file, f.lineno, "__Condense", f"the condensed tangent is not the Schur complement of the zz row and column: {bad} (a symmetric 3-D tangent hides this)")
    else:
        r.ok("__Condense == Schur complement of (zz, zz), row and column kept distinct")


# (the former evaluation_point_rule, R19.6, traced the ARGUMENT TEXT of hardening.R / dR back to `zOld + du[..., :n]`; it would fire
# on `np.add(zOld, du[..., :n])`.  The evaluation point is now recorded while __Residual / __Jacobian are interpreted: see
# local_jacobian_rule.)


# ---------------------------------------------------------------------------
# R19.7 / R19.8: derivative consistency of the constitutive pieces and of the scalar return, decided symbolically
# ---------------------------------------------------------------------------


def _callable(I, c):
    from ..repo import FuncInfo

    return (lambda *a: I.call_function(c, list(a))) if isinstance(c, FuncInfo) else c


def derivative_rules(ctx):
    """R19.7: every hand-written derivative the local solvers rely on is the derivative of the function it is paired
    with: hardening (psi -> R -> dR), rate laws (inverse o rate = id, dinverse = inverse'), back-stress
    (X = dpsi/dalpha, modulus = dX/dalpha), yield surfaces (N = df/dsigma, dNdSig = dN/dsigma, df/dR = -1).
    R19.8: the scalar return: dphi = dphi/dtheta, the Newton slope is dr/dtheta, the algorithmic tangent is the exact
    linearisation of the returned stress (implicit-function theorem on the consistency condition)."""
    from types import SimpleNamespace

    from ..femchain import XFe
    from ..symx import SE, fn, full_hook, run_jobs
    from ..xarray import XArray
    from ..xeval import Interp

    repo = ctx.repo
    r7 = ctx.rule("R19.7", "constitutive derivative pairs (for all parameter values, on the open region where the guards hold): R = dpsi/dp, dR = R', inverse(rate(f)) = f, dinverse = inverse', X = dpsi/dalpha, modulus = dX/dalpha, N = df/dsigma, dNdSig = dN/dsigma, df/dR = -1", min_instances=40)
    r8 = ctx.rule("R19.8", "scalar spectral return: dphi is dphi/dtheta, the Newton slope is d(residual)/dtheta for any hardening and rate law, and Tangent is the exact linearisation of the returned stress (implicit-function theorem)", min_instances=4)
    jobs, where = [], {}
    pkg = "EasyFEA.Models.InElastic"

    def new_interp():
        I = Interp(repo, max_steps=5_000_000)
        I.call_hook = full_hook
        return I

    def add(rule, jid, f, **job):
        jobs.append(dict(id=jid, **job))
        where[jid] = (rule, f)
        rule.instance(fn=f.qualname)

    # ---- isotropic hardening
    mod = repo.module(f"{pkg}.IsotropicHardening")
    p = SE.sym("p")
    nfac = 0
    for name, f in sorted(mod.functions.items()):
        if not any(isinstance(n, ast.Call) and (dotted(n.func) or "").endswith("IsotropicHardening") for n in ast.walk(f.node)):
            continue
        I = new_interp()
        t = I.call_function(f, [SE.sym(q) for q in f.params()])
        psi, R, dR = (_callable(I, t.psi)(p), _callable(I, t.R)(p), _callable(I, t.dR)(p))
        add(r7, f"{name}: R = dpsi/dp", f, lhs=SE.of(psi).s, rhs=SE.of(R).s, diff=["p"])
        add(r7, f"{name}: dR = dR/dp", f, lhs=SE.of(R).s, rhs=SE.of(dR).s, diff=["p"])
        nfac += 1
    if nfac < 3:
        raise AnalysisError("fewer than 3 isotropic hardening laws found")
    # ---- rate laws
    mod = repo.module(f"{pkg}.ViscoPlastic")
    x = SE.sym("x")
    for name, f in sorted(mod.functions.items()):
        if not any(isinstance(n, ast.Call) and (dotted(n.func) or "").endswith("RateLaw") for n in ast.walk(f.node)):
            continue
        I = new_interp()
        t = I.call_function(f, [SE.sym(q) for q in f.params()])
        rate, inv, dinv = _callable(I, t.rate), _callable(I, t.inverse), _callable(I, t.dinverse)
        add(r7, f"{name}: inverse(rate(f)) = f", f, lhs=SE.of(inv(rate(x))).s, rhs="x")
        add(r7, f"{name}: dinverse = inverse'", f, lhs=SE.of(inv(x)).s, rhs=SE.of(dinv(x)).s, diff=["x"])
    # ---- kinematic hardening
    mod = repo.module(f"{pkg}.KinematicHardening")
    al = XFe((1, 1, 6), [SE.sym(f"a{i}") for i in range(6)])
    for name, f in sorted(mod.functions.items()):
        if not any(isinstance(n, ast.Call) and (dotted(n.func) or "") == "KinematicHardening" for n in ast.walk(f.node)):
            continue
        I = new_interp()
        t = I.call_function(f, [SE.sym(q) for q in f.params()])
        psi = XArray.from_nested(_callable(I, t.psi)(al)).data[0]
        X = XArray.from_nested(_callable(I, t.X)(al))
        for i in range(6):
            add(r7, f"{name}: X[{i}] = dpsi/dalpha[{i}]", f, lhs=SE.of(psi).s, rhs=SE.of(X.data[i]).s, diff=[f"a{i}"])
        for i, j in ((0, 0), (3, 3), (0, 1), (2, 5)):
            add(r7, f"{name}: modulus = dX[{i}]/dalpha[{j}]", f, lhs=SE.of(X.data[i]).s, rhs=SE.of(t.modulus).s if i == j else "0", diff=[f"a{j}"])
    # ---- yield surfaces
    mod = repo.module(f"{pkg}.Yield")
    sig = XFe((1, 1, 6), [SE.sym(f"s{i}") for i in range(6)])
    Rr = XFe((1, 1), [SE.sym("R")])
    nsurf = 0
    for name, f in sorted(mod.functions.items()):
        if not any(isinstance(n, ast.Return) and isinstance(n.value, ast.Call) and (dotted(n.value.func) or "") == "YieldSurface" for n in ast.walk(f.node)):
            continue
        I = new_interp()
        t = I.call_function(f, [SE.sym(q) for q in f.params()])
        fv = XArray.from_nested(_callable(I, t.f)(sig, Rr))
        Nv = XArray.from_nested(_callable(I, t.N)(sig, Rr))
        dNv = XArray.from_nested(_callable(I, t.dNdSig)(sig))
        if fv.size != 1 or Nv.shape[-1] != 6 or dNv.shape[-2:] != (6, 6):
            r7.instance(fn=f.qualname)
            r7.fail(f.qualname, f"shapes:{name}", f.file, f.lineno, name, f"{name}: f, N, dNdSig have shapes {fv.shape}, {Nv.shape}, {dNv.shape}")
            continue
        for i in range(6):
            add(r7, f"{name}: N[{i}] = df/dsigma[{i}]", f, lhs=fv.data[0].s, rhs=SE.of(Nv.data[i]).s, diff=[f"s{i}"])
        pairs = [(i, j) for i in range(6) for j in range(6)] if ctx.tier == "thorough" else [(0, 0), (0, 1), (1, 2), (2, 2), (3, 3), (0, 3), (5, 5), (4, 5), (5, 1)]
        for i, j in pairs:
            add(r7, f"{name}: dNdSig[{i},{j}] = dN[{i}]/dsigma[{j}]", f, lhs=SE.of(Nv.data[i]).s, rhs=SE.of(dNv.data[i * 6 + j]).s, diff=[f"s{j}"])
        add(r7, f"{name}: df/dR = -1", f, lhs=fv.data[0].s, rhs="-1", diff=["R"])
        nsurf += 1
    if nsurf < 3:
        raise AnalysisError("fewer than 3 yield surfaces found")
    # ---- scalar return
    mod = repo.module(f"{pkg}._spectral")
    fphi, fsolve, ftan = mod.functions["_Phi"], mod.functions["Solve"], mod.functions["Tangent"]
    n = 2
    I = new_interp()
    y3 = XFe((1, 1, 3), [SE.sym(f"y{i}") for i in range(3)])
    lam3 = XArray((3,), [SE.sym(f"l{i}") for i in range(3)])
    th = XFe((1, 1), [SE.sym("th")])
    phi, dphi = I.call_function(fphi, [y3, lam3, th])
    add(r8, "_Phi: dphi = dphi/dtheta", fphi, lhs=SE.of(phi.data[0]).s, rhs=SE.of(dphi.data[0]).s, diff=["th"])
    loops = [s for s in fsolve.node.body if isinstance(s, ast.For)]
    if len(loops) != 1:
        raise AnalysisError("_spectral.Solve: expected one Newton loop")
    loop = loops[0]
    li = fsolve.node.body.index(loop)
    body = []
    for st in loop.body:
        if isinstance(st, ast.If) and any(isinstance(b, ast.Break) for b in ast.walk(st)):
            break
        body.append(st)
    # the Newton step divides the residual by its slope: find the two names by that provenance
    step = [b for st in loop.body for c in ast.walk(st) if isinstance(c, ast.Call) and (dotted(c.func) or "") == "np.where" for b in c.args if isinstance(b, ast.BinOp) and isinstance(b.op, ast.Div) and isinstance(b.left, ast.Name) and isinstance(b.right, ast.Name)]
    if not step:
        raise AnalysisError("_spectral.Solve: Newton step residual / slope not found")
    rname, drname = step[0].left.id, step[0].right.id
    params = fsolve.params()
    theta_name = None
    for st in fsolve.node.body[:li]:
        if isinstance(st, ast.Assign) and isinstance(st.targets[0], ast.Name) and "FeArray.zeros" in norm_text(st.value):
            theta_name = st.targets[0].id
            break
    if theta_name is None:
        raise AnalysisError("_spectral.Solve: initialisation of the scalar unknown not found")
    pre = [s for s in fsolve.node.body[:li] if not (isinstance(s, ast.Expr) and isinstance(s.value, ast.Constant)) and not (isinstance(s, ast.Assign) and isinstance(s.targets[0], ast.Name) and s.targets[0].id == theta_name)]
    post = fsolve.node.body[li + 1:]
    if not isinstance(post[-1], ast.Return):
        raise AnalysisError("_spectral.Solve: trailing return not found")
    T = XArray((n, n), [SE.sym(f"t{i}{j}") for i in range(n) for j in range(n)])
    Ti = XArray((n, n), [SE.sym(f"u{i}{j}") for i in range(n) for j in range(n)])
    lam = XArray((n,), [SE.sym(f"l{i}") for i in range(n)])
    eigen = SimpleNamespace(T=T, Ti=Ti, lam=lam, Cinv=None)
    sg = XFe((1, 1, n), [SE.sym(f"s{i}") for i in range(n)])
    C = XFe((1, 1, n, n), [SE.sym(f"c{min(i, j)}{max(i, j)}") for i in range(n) for j in range(n)])
    hard = SimpleNamespace(R=lambda q: XFe((1, 1), [fn("R", XArray.from_nested(q).data[0])]), dR=lambda q: XFe((1, 1), [fn("dR", XArray.from_nested(q).data[0])]))
    rate = SimpleNamespace(inverse=lambda g: XFe((1, 1), [fn("inv", XArray.from_nested(g).data[0])]), dinverse=lambda g: XFe((1, 1), [fn("dinv", XArray.from_nested(g).data[0])]))
    pairs_f = {"R": "dR", "inv": "dinv"}
    for tag, rt in (("rate-independent", None), ("rate-dependent", rate)):
        env = {q: None for q in params}
        env.update(eigen=eigen, sigTr_e_pg=sg, pOld_e_pg=XFe((1, 1), [SE.sym("p0")]), hardening=hard, sigma_y=SE.sym("sy"), rate=rt, dt=SE.sym("dt"))
        env[theta_name] = th
        rv, drv = I.run_statements(pre + body, dict(env), mod, [rname, drname])
        add(r8, f"Solve ({tag}): Newton slope = d(residual)/dtheta", fsolve, lhs=SE.of(rv.data[0]).s, rhs=SE.of(drv.data[0]).s, diff=["th"], pairs=pairs_f)
        if rt is None:
            continue
        ret = ast.Assign(targets=[ast.Name(id="__ret", ctx=ast.Store())], value=post[-1].value)
        (res,) = I.run_statements(pre + body + post[:-1] + [ret], dict(env), mod, ["__ret"])
        Calg = XArray.from_nested(I.call_function(ftan, [eigen, res, C]))
        if Calg.shape != (1, 1, n, n):
            r8.instance(fn=ftan.qualname)
            r8.fail(ftan.qualname, "shape", ftan.file, ftan.lineno, "Tangent", f"the tangent has shape {Calg.shape}")
            continue
        sv = XArray.from_nested(res.sig)
        r_expr = f"(({SE.of(res.phi.data[0]).s}) - sy - R(p0 + ({SE.of(res.dGamma.data[0]).s})) - inv(({SE.of(res.dGamma.data[0]).s})/dt))"
        for i in range(n):
            for j in range(n):
                terms = [f"(D({sv.data[i].s}, s{k}) + D({sv.data[i].s}, th) * (-(D({r_expr}, s{k})) / (D({r_expr}, th)))) * c{min(k, j)}{max(k, j)}" for k in range(n)]
                add(r8, f"Tangent[{i},{j}] = dsigma[{i}]/deps[{j}]", ftan, lhs=SE.of(Calg.data[i * n + j]).s, rhs=" + ".join(terms), pairs=pairs_f, numeric=(ctx.tier != "thorough"))
    out = run_jobs(jobs, seed=ctx.seed, points=40 if ctx.tier == "thorough" else 12)
    for jid, (rule, f) in where.items():
        o = out[jid]
        if o["ok"]:
            rule.ok(f"{jid}  [{o['method']}]")
        else:
            rule.fail(f.qualname, jid, f.file, f.lineno, f.name, f"{jid} does NOT hold ({o['method']}; witness {o['witness']}): the hand-written derivative is not the derivative of its primitive, so the local Newton matrix / the algorithmic tangent is inconsistent with the residual / the returned stress")


def convergence_test_rule(ctx):
    """R19.9: every convergence test of the local iterations (a `< tolerance` comparison that ends a loop or defines
    the converged mask) bounds the MAGNITUDE of the residual over the whole batch: the absolute value is taken before
    the maximum (or a norm is used), so that points with a residual of either sign keep iterating."""
    repo = ctx.repo
    r = ctx.rule("R19.9", "convergence tests are two-sided over the batch: max(|r|) / norm(r) < tol, never |max(r)| or max(r)", min_instances=3)
    mods = [repo.module("EasyFEA.Models.InElastic._behavior"), repo.module("EasyFEA.Models.InElastic._spectral"), repo.module("EasyFEA.Models.InElastic._materialpoint")]

    def magnitude_first(e):
        """e reduces |.|: max/amax/.max of an expression containing abs / norm, or a norm"""
        if isinstance(e, ast.Call):
            d = dotted(e.func) or ""
            if d.endswith("linalg.norm") or d.split(".")[-1] in ("Norm", "__Norm", "_Behavior__Norm"):
                return True
            is_max = d in ("np.max", "np.amax", "max", "np.nanmax") or (isinstance(e.func, ast.Attribute) and e.func.attr in ("max", "amax") and not d.startswith("np."))
            if is_max:
                inner = e.args[0] if e.args and d in ("np.max", "np.amax", "max", "np.nanmax") else (e.func.value if isinstance(e.func, ast.Attribute) else None)
                return inner is not None and any(isinstance(x, ast.Call) and ((dotted(x.func) or "") in ("np.abs", "np.absolute", "abs", "np.fabs") or (dotted(x.func) or "").endswith("linalg.norm")) for x in ast.walk(inner))
            if d in ("np.abs", "np.absolute", "abs") and e.args:
                # |reduction(...)|: the sign was lost after the reduction -> one-sided unless the inner part is itself two-sided
                return magnitude_first(e.args[0])
        return False

    def reduces(e):
        return any(isinstance(x, ast.Call) and ((dotted(x.func) or "") in ("np.max", "np.amax", "np.min", "np.sum", "np.mean") or (isinstance(x.func, ast.Attribute) and x.func.attr in ("max", "min", "sum", "mean") and not (dotted(x.func) or "").startswith("np."))) for x in ast.walk(e))

    for mod in mods:
        for f in repo.all_functions():
            if f.module is not mod:
                continue
            for n in ast.walk(f.node):
                if not (isinstance(n, ast.Compare) and len(n.ops) == 1 and isinstance(n.ops[0], (ast.Lt, ast.LtE))):
                    continue
                rhs = norm_text(n.comparators[0])
                if "tol" not in rhs.lower():
                    continue
                lhs = n.left
                if not (reduces(lhs) or magnitude_first(lhs)):
                    continue
                r.instance(fn=f.qualname)
                # the reduced quantity is a magnitude when the local definitions bound it below by zero (|r| taken on an earlier
                # line, a norm, a sum of squares ...), whatever the spelling
                # (the sign must be gone BEFORE the reduction: it is the operand of the outermost max / mean / sum that has to be
                # non-negative, not the reduced value - |max(r)| is non-negative and still one-sided)
                def operand(e):
                    while isinstance(e, ast.Call) and (dotted(e.func) or "").split(".")[-1] in ("abs", "absolute", "fabs", "float") and e.args:
                        e = e.args[0]
                    if isinstance(e, ast.Call):
                        d_ = dotted(e.func) or ""
                        if d_.split(".")[-1] in ("max", "amax", "nanmax", "mean", "sum"):
                            if isinstance(e.func, ast.Attribute) and not d_.startswith(("np.", "numpy.")):
                                return e.func.value
                            return e.args[0] if e.args else None
                    return None

                opnd = operand(lhs)
                nonneg = opnd is not None and range_at(f.node, opnd, n)[0] >= 0.0
                # or the same residual is bounded from below by a sibling test of the same `and` chain: -tol < min(r) and max(r) < tol
                chain = next((b for b in ast.walk(f.node) if isinstance(b, ast.BoolOp) and isinstance(b.op, ast.And) and any(v is n for v in b.values)), None)
                lower = False
                if chain is not None:
                    for v in chain.values:
                        if v is n or not (isinstance(v, ast.Compare) and len(v.ops) == 1):
                            continue
                        a_, b_, op_ = v.left, v.comparators[0], v.ops[0]
                        lo_side, hi_side = (a_, b_) if isinstance(op_, (ast.Lt, ast.LtE)) else (b_, a_) if isinstance(op_, (ast.Gt, ast.GtE)) else (None, None)
                        if lo_side is not None and isinstance(lo_side, ast.UnaryOp) and isinstance(lo_side.op, ast.USub) and "tol" in norm_text(lo_side).lower() and any(isinstance(x, ast.Call) and ((dotted(x.func) or "").split(".")[-1] in ("min", "amin", "nanmin")) for x in ast.walk(hi_side)):
                            lower = True
                if magnitude_first(lhs) or nonneg or lower:
                    r.ok(f"{f.qualname}: {norm_text(n)[:70]}")
                else:
                    r.fail(f.qualname, f"one-sided:{f.name}", f.file, n.lineno, f.name, f"`{norm_text(n)[:90]}` tests the signed extreme of the residual, not its magnitude over the batch: points whose residual has the other sign are declared converged and keep an out-of-balance state")


# ---------------------------------------------------------------------------
# R19.11  the multiplier column of the local Jacobian is the derivative of the residual with respect to dGamma
# ---------------------------------------------------------------------------


def _opaque_poly(expr, leafname):
    """arithmetic AST -> Poly whose variables are the non-arithmetic leaves (subscripts, calls, attributes, names)"""
    from ..alg import Poly, to_q

    def go(e):
        if isinstance(e, ast.BinOp) and isinstance(e.op, (ast.Add, ast.Sub, ast.Mult)):
            a, b = go(e.left), go(e.right)
            return a + b if isinstance(e.op, ast.Add) else a - b if isinstance(e.op, ast.Sub) else a * b
        if isinstance(e, ast.BinOp) and isinstance(e.op, ast.Div) and isinstance(e.right, ast.Constant) and isinstance(e.right.value, (int, float)):
            return go(e.left) * Poly.const(1 / to_q(e.right.value))
        if isinstance(e, ast.UnaryOp) and isinstance(e.op, ast.USub):
            return -go(e.operand)
        if isinstance(e, ast.UnaryOp) and isinstance(e.op, ast.UAdd):
            return go(e.operand)
        if isinstance(e, ast.Constant) and isinstance(e.value, (int, float)) and not isinstance(e.value, bool):
            return Poly.const(to_q(e.value))
        return Poly.var(leafname(e))

    return go(expr)


def multiplier_column_rule(ctx):
    from ..alg import Poly
    from ..flow import Locals
    import copy

    repo = ctx.repo
    r = ctx.rule("R19.11", "local Newton: the multiplier column of __Jacobian is d(residual)/d(dGamma) for every row that is polynomial in dGamma (flow rule, accumulated plastic strain, back-strains), with the state read at (committed + increment) on both sides", min_instances=3)
    beh = repo.cls(BEH)
    fR = repo.lookup_method(beh, beh.mangle("__Residual"))
    fJ = repo.lookup_method(beh, beh.mangle("__Jacobian"))
    if fR is None or fJ is None:
        raise AnalysisError("R19.11: __Residual / __Jacobian not found")
    jparams = set(fJ.params())
    # names the residual hands over to the Jacobian (its return values that are parameters there): not expanded
    shared = set()
    for n in ast.walk(fR.node):
        if isinstance(n, ast.Return) and isinstance(n.value, ast.Tuple):
            shared |= {e.id for e in n.value.elts if isinstance(e, ast.Name) and e.id in jparams}

    def roles(f, u_pos):
        """names by role, not by spelling: the unknown-increment parameter, the array the function returns first, and the
        local holding the number of state components (defined as <layout>.n)"""
        params = f.params()
        u_name = params[u_pos]
        ret = [n for n in ast.walk(f.node) if isinstance(n, ast.Return) and isinstance(n.value, ast.Tuple)]
        out_name = ret[0].value.elts[0].id if ret and isinstance(ret[0].value.elts[0], ast.Name) else None
        L0 = Locals(f.node)
        nz = None
        for nm, d in L0.defs.items():
            dd = L0.resolve(d)
            if isinstance(dd, ast.Attribute) and dd.attr == "n":
                nz = nm
        if out_name is None or nz is None:
            raise AnalysisError(f"R19.11: roles of {f.name} not found")
        return u_name, out_name, nz

    uR, rname, nzR = roles(fR, 2)
    uJ, jname, nzJ = roles(fJ, 1)

    def expander(f):
        L = Locals(f.node)
        for nm in list(L.defs):
            if nm in shared:
                del L.defs[nm]
        return L

    LR, LJ = expander(fR), expander(fJ)

    def make(L, u_name, nz_name):
        loopvars = {x.id for n in ast.walk(L.fnode) if isinstance(n, (ast.For, ast.comprehension)) for x in ast.walk(n.target) if isinstance(x, ast.Name)}

        def is_dG(e):
            """u[..., nz] possibly followed by None axes"""
            if isinstance(e, ast.Subscript) and isinstance(e.value, ast.Name) and e.value.id == u_name:
                sl = e.slice
                elts = sl.elts if isinstance(sl, ast.Tuple) else [sl]
                core = [x for x in elts if not (isinstance(x, ast.Constant) and (x.value is None or x.value is Ellipsis))]
                return len(core) == 1 and isinstance(core[0], ast.Name) and core[0].id == nz_name
            return False

        def canon(e):
            """spelling-independent text: the role names are replaced by fixed ones"""
            e = copy.deepcopy(e)
            for x in ast.walk(e):
                if isinstance(x, ast.Name):
                    if x.id == u_name:
                        x.id = "U"
                    elif x.id == nz_name:
                        x.id = "NZ"
                    elif x.id in shared_map:
                        x.id = shared_map[x.id]
                    elif x.id in loopvars:
                        x.id = "IDX"
            return norm_text(ast.fix_missing_locations(e))

        def leafname(e):
            return "dG" if is_dG(e) else canon(e)

        def expand(e):
            saved = L.defs.pop(nz_name, None)
            try:
                return L.expand(e)
            finally:
                if saved is not None:
                    L.defs[nz_name] = saved

        return leafname, expand, canon

    # values handed from the residual to the Jacobian: k-th returned name <-> the Jacobian parameter of the same role
    shared_map = {}
    retR = [n for n in ast.walk(fR.node) if isinstance(n, ast.Return) and isinstance(n.value, ast.Tuple)][0].value.elts
    jp = fJ.params()
    # (r, sig, N, dNdSig) -> __Jacobian(self, u, zOld, N, dNdSig, C, dt): the last two returned values are parameters 3, 4
    if len(retR) >= 4 and len(jp) >= 5:
        for k, pos in ((2, 3), (3, 4)):
            if isinstance(retR[k], ast.Name):
                shared_map[retR[k].id] = f"SHARED{k}"
                shared_map[jp[pos]] = f"SHARED{k}"
                shared.add(retR[k].id)
    # committed-state parameter
    shared_map[fR.params()[3]] = "ZOLD"
    shared_map[fJ.params()[2]] = "ZOLD"
    LR, LJ = expander(fR), expander(fJ)
    leafR, expandR, canonR = make(LR, uR, nzR)
    leafJ, expandJ, canonJ = make(LJ, uJ, nzJ)

    # residual rows
    rows = {}
    for n in ast.walk(fR.node):
        tgt = val = None
        if isinstance(n, ast.Assign) and len(n.targets) == 1:
            tgt, val = n.targets[0], n.value
        elif isinstance(n, ast.AugAssign):
            tgt, val = n.target, n.value
        if tgt is None or not (isinstance(tgt, ast.Subscript) and isinstance(tgt.value, ast.Name) and tgt.value.id == rname):
            continue
        s = tgt.slice
        elts = s.elts if isinstance(s, ast.Tuple) else [s]
        core = [x for x in elts if not (isinstance(x, ast.Constant) and x.value is Ellipsis)]
        if len(core) != 1:
            continue
        key = canonR(expandR(core[0]))
        p = _opaque_poly(expandR(val), leafR)
        if isinstance(n, ast.AugAssign):
            p = -p if isinstance(n.op, ast.Sub) else p
            rows[key] = rows.get(key, Poly()) + p
        else:
            rows[key] = p
    # Jacobian entries of the multiplier column
    cols = {}
    for n in ast.walk(fJ.node):
        if isinstance(n, ast.Assign) and len(n.targets) == 1 and isinstance(n.targets[0], ast.Subscript) and isinstance(n.targets[0].value, ast.Name) and n.targets[0].value.id == jname:
            s = n.targets[0].slice
            elts = s.elts if isinstance(s, ast.Tuple) else [s]
            core = [x for x in elts if not (isinstance(x, ast.Constant) and x.value is Ellipsis)]
            if len(core) == 2 and isinstance(core[1], ast.Name) and core[1].id == nzJ:
                cols[canonJ(expandJ(core[0]))] = (_opaque_poly(expandJ(n.value), leafJ), n)
    if not rows or not cols:
        raise AnalysisError("R19.11: residual rows / Jacobian multiplier column not found")
    for key, p in sorted(rows.items()):
        # skip rows whose dependence on dG goes through an opaque function (rate law): R19.8 covers the scalar return
        nonpoly = any("dG" != v and ("U[..., NZ]" in v) for v in p.vars())
        want = p.diff("dG")
        if key not in cols:
            if want.is_zero() or nonpoly:
                continue
            r.instance(fn=fJ.qualname)
            r.fail(fJ.qualname, f"multiplier-column:missing:{key[-30:]}", fJ.file, fJ.lineno, "Behavior.__Jacobian", f"row `{key}` of the residual depends on dGamma (d/ddGamma = {want!r}) but __Jacobian leaves J[{key}, nz] at zero")
            continue
        got, node = cols[key]
        if nonpoly:
            continue
        r.instance(fn=fJ.qualname)
        if (got - want).is_zero():
            r.ok(f"J[{key[-40:]}, nz] == d r / d dGamma")
        else:
            r.fail(fJ.qualname, f"multiplier-column:{key[-30:]}", fJ.file, node.lineno, "Behavior.__Jacobian", f"J[{key}, nz] = {got!r} but d(residual row)/d(dGamma) = {want!r}: the tangent of the local Newton (and the algorithmic tangent built from it) is not the derivative of the residual once the committed state is not zero")


def committed_state_invariance_rule(ctx):
    """R19.15: 'integration never modifies the committed state': inside a convergence loop (a loop left by `break`) every
    trial integration starts from the SAME committed state: the expression handed to Behavior.Integrate as the old state
    is not rebound anywhere in that loop.  (Rebinding it from the trial result makes the history advance once per
    iteration instead of once per converged step.)"""
    repo = ctx.repo
    r = ctx.rule("R19.15", "in a convergence loop (one left by break) the old state handed to Integrate is loop-invariant: the trial state never overwrites it before convergence", min_instances=1)
    beh = repo.cls("EasyFEA.Models.InElastic._behavior.Behavior")
    integ = beh.methods["Integrate"]
    zpos = integ.params().index("zOld_e_pg") - 1 if "zOld_e_pg" in integ.params() else 1
    for f in sorted(repo.all_functions(), key=lambda f: f.qualname):
        if not f.module.name.startswith(("EasyFEA.Models.InElastic", "EasyFEA.Simulations")):
            continue
        for loop in [n for n in ast.walk(f.node) if isinstance(n, (ast.For, ast.While))]:
            # breaks that leave THIS loop
            def own_breaks(node, top=True):
                for c in ast.iter_child_nodes(node):
                    if isinstance(c, (ast.For, ast.While, ast.FunctionDef, ast.Lambda)):
                        continue
                    if isinstance(c, ast.Break):
                        yield c
                    else:
                        yield from own_breaks(c, False)

            if not any(True for _ in own_breaks(loop)):
                continue
            for n in ast.walk(loop):
                if isinstance(n, ast.Call) and isinstance(n.func, ast.Attribute) and n.func.attr == "Integrate" and len(n.args) > zpos:
                    z = n.args[zpos]
                    r.instance(fn=f.qualname)
                    if not isinstance(z, ast.Name):
                        r.ok(f"{f.qualname}: old state is an expression")
                        continue
                    rebound = [m for m in ast.walk(loop) if isinstance(m, ast.Name) and m.id == z.id and isinstance(m.ctx, ast.Store)]
                    if rebound:
                        r.fail(f.qualname, f"old-state-rebound:{z.id}", f.file, rebound[0].lineno, f"{(f.cls.name + '.') if f.cls else ''}{f.name}", f"`{z.id}`, the committed state handed to Integrate, is rebound inside the convergence loop (line {rebound[0].lineno}): every iteration integrates from the trial state of the previous one, the history advances inside the iterations and the recorded (stress, state) is not a single integration from the last converged step")
                    else:
                        r.ok(f"{f.qualname}: `{z.id}` is not rebound in the convergence loop")


def flow_step_rule(ctx):
    """R19.18: the structure of the local Newton solver Behavior.__Flow, interpreted with recording stand-ins for the residual,
    the Jacobian, the freeze of idle points, the projection __Bound, the convergence test and np.linalg.solve, on a
    material with a yield surface AND a Maxwell branch (2 strain components), for a batch in which no point flows and one in
    which it does, one Newton iteration each:
      (a) 'the plastic multiplier increments are non-negative': the iterate handed to the next residual evaluation IS the
          output of __Bound applied to (u - J^-1 r) -- the projection is the last operation of the update;
      (b) 'the returned algorithmic tangent is the derivative of the returned stress': C_alg = C - C.dudeps[eps_p]
          - g C.dudeps[eps_v0] with dudeps = -solve(J, D) of the FINAL Jacobian, also when no point of the batch flows (a
          viscous branch relaxes on an elastic step: the tangent is not C)."""
    from types import SimpleNamespace

    from ..alg import Poly, is_zero, Q
    from ..xeval import Interp, XObj, XRaise, _NpAttr, Opaque
    from ..xarray import XArray
    from ..femchain import XFe, fe_hook_full

    repo = ctx.repo
    beh = repo.cls(BEH)
    f = beh.methods["__Flow"]
    r = ctx.rule("R19.18", "__Flow: the Newton update ends with the projection __Bound, and the tangent is C - C.dudeps[eps_p] - sum g_i C.dudeps[eps_v_i] from the final Jacobian whether or not a point of the batch flows", min_instances=2)
    ns, nz = 2, 4  # two strain components; state = eps_p (2) + eps_v0 (2); unknowns = state + dGamma
    nu = nz + 1
    slots = {"eps_p": slice(0, 2), "eps_v0": slice(2, 4)}
    g = Poly.var("g")
    for label, fval in (("no point flows", Q(-1)), ("the point flows", Q(1))):
        r.instance(fn=f.qualname)
        C = XFe((1, 1, ns, ns), [Poly.var(f"C{i}{j}") for i in range(ns) for j in range(ns)])
        log = {"residual_u": [], "bound": [], "solve": []}
        conv = iter([False, True, True])

        def residual(eps, u, zOld, C_, dt, log=log, fval=fval):
            log["residual_u"].append(u)
            rr = XFe((1, 1, nu), [Poly.var(f"r{k}_{len(log['residual_u'])}") for k in range(nz)] + [fval])
            return rr, XFe((1, 1, ns), [Poly.var("s0"), Poly.var("s1")]), Opaque("N"), Opaque("dNdSig")

        def jacobian(u, zOld, N, dN, C_, dt, log=log):
            k = len(log["solve"])
            return (XFe((1, 1, nu, nu), [Poly.var(f"J{k}_{a}{b}") for a in range(nu) for b in range(nu)]), XFe((1, 1, nu, ns), [Poly.var(f"D{k}_{a}{b}") for a in range(nu) for b in range(ns)]))

        def bound(u, log=log):
            out = XFe((1, 1, nu), [Poly.var(f"B{k}") for k in range(nu)])
            log["bound"].append((u, out))
            return out

        class Conv:
            _xeval_open = True

            def __init__(self, v):
                self.v = v

            def all(self):
                return self.v

        attrs = {beh.mangle("__layout"): SimpleNamespace(n=nz, slots=slots), beh.mangle("__yield"): Opaque("yield"), beh.mangle("__rate"): None,
                 beh.mangle("__branches"): [SimpleNamespace(g=g)], "_maxIter": 3,
                 beh.mangle("__Residual"): residual, beh.mangle("__Jacobian"): jacobian, beh.mangle("__Freeze"): lambda *a, **k: None,
                 beh.mangle("__Bound"): bound, beh.mangle("__Converged"): lambda r_, act: Conv(next(conv))}
        obj = XObj(beh, attrs)

        def hook(fn, args, kwargs, log=log):
            if isinstance(fn, _NpAttr) and fn.path == "linalg.solve":
                B = XArray.from_nested(args[1])
                k = len(log["solve"])
                out = XFe(B.shape, [Poly.var(f"X{k}_{i}") for i in range(B.size)])
                log["solve"].append((args[0], args[1], out))
                return out
            return fe_hook_full(fn, args, kwargs)

        I = Interp(repo)
        I.call_hook = hook
        eps = XFe((1, 1, 6), [Poly.var(f"e{k}") for k in range(6)])
        zOld = XFe((1, 1, nz), [Poly.var(f"z{k}") for k in range(nz)])
        try:
            sig, C_alg, z, converged = I.call_function(f, [eps, zOld, C, Q(1, 10)], self_obj=obj)
        except XRaise as e:
            r.fail(f.qualname, f"flow:{label}", f.file, f.lineno, "Behavior.__Flow", f"{label}: raises {e}")
            continue
        bad = None
        # (a) projection last
        if not log["bound"]:
            bad = "the Newton update is never passed through __Bound"
        else:
            arg, outB = log["bound"][0]
            nxt = log["residual_u"][-1] if len(log["residual_u"]) > 1 else None
            step = log["solve"][0][2] if log["solve"] else None
            if nxt is None or list(XArray.from_nested(nxt).data) != list(outB.data):
                bad = "the iterate handed to the next residual evaluation is not the output of __Bound (the projection dGamma >= 0 is not the last operation of the update: Newton can converge onto a negative plastic multiplier)"
            elif step is not None and not any("X0_" in str(x) for x in XArray.from_nested(arg).data):
                bad = "__Bound is applied to the previous iterate, not to the Newton update u - J^-1 r (a no-op on an admissible iterate)"
        # (b) tangent
        if bad is None:
            if not log["solve"]:
                bad = "no linear solve for the tangent"
            else:
                J_last, D_last, X = log["solve"][-1]
                if XArray.from_nested(D_last).shape != (1, 1, nu, ns):
                    bad = "no tangent solve follows the Newton loop (dudeps = -solve(J, D) of the final Jacobian is skipped): the returned tangent is not the derivative of the returned stress" + (" -- a Maxwell branch relaxes during an elastic step, d sigma / d eps is not C" if label == "no point flows" else "")
                else:
                    dudeps = [[-X[0, 0, a, b] for b in range(ns)] for a in range(nu)]
                    Ca = XArray.from_nested(C_alg)
                    for i in range(ns):
                        for j in range(ns):
                            want = C[0, 0, i, j]
                            for k in range(ns):
                                want = want - C[0, 0, i, k] * dudeps[slots["eps_p"].start + k][j] - g * C[0, 0, i, k] * dudeps[slots["eps_v0"].start + k][j]
                            if bad is None and not is_zero(Poly.of(Ca[0, 0, i, j]) - Poly.of(want)):
                                bad = f"C_alg[{i}][{j}] = {Ca[0, 0, i, j]!r} is not C - C.dudeps[eps_p] - g C.dudeps[eps_v0] = {want!r}" + (" (the elastic stiffness is returned although the Maxwell branch relaxes during the step: the tangent is not the derivative of the returned stress)" if label == "no point flows" else "")
        if bad:
            r.fail(f.qualname, f"flow:{label}", f.file, f.lineno, "Behavior.__Flow", f"yield surface + one Maxwell branch, {label}: {bad}")
        else:
            r.ok(f"{label}: update == __Bound(u - J^-1 r); tangent from the final (J, D)")


def spectral_dispatch_rule(ctx, rid="R19.19"):
    """'both local solvers agree' / 'the integrated stress lies on or inside the current yield surface': the scalar spectral
    return is an alternative SOLVER for the same local problem.  `Behavior.__Spectral` is interpreted with the callee
    `_spectral.Solve` recorded: every argument must be the quantity of the behaviour the parameter stands for - the trial
    stress C (eps - eps_p), the committed p, the hardening and rate objects, dt, and above all `sigma_y`, the radius of
    the surface the return lands on, which must be the yield stress itself (for a yield stress below AND above 1) - and the
    state returned must be eps_p = eps - C^-1 sigma, p = p_old + dGamma from the solver's result."""
    from types import SimpleNamespace
    from fractions import Fraction as Q

    from ..alg import Poly, is_zero
    from ..xarray import XArray
    from ..xeval import Interp, XObj, Opaque, XRaise, EnumVal
    from ..femchain import XFe, fe_hook_full
    from ..repo import FuncInfo

    repo = ctx.repo
    ci = repo.cls(BEH)
    f = repo.lookup_method(ci, ci.mangle("__Spectral"))
    r = ctx.rule(rid, "spectral return dispatch: _spectral.Solve receives (eigen, C (eps - eps_p), p_old, hardening, sigma_y = the yield stress, rate, dt, tol, maxIter) and the returned state is (eps - C^-1 sigma, p_old + dGamma), for a yield stress below and above 1", min_instances=2)
    solve_f = repo.module("EasyFEA.Models.InElastic._spectral").functions["Solve"]
    pnames = [a.arg for a in solve_f.node.args.args]

    class Slots:
        _xeval_open = True

        def __getitem__(self, k):
            nm = k.name if isinstance(k, EnumVal) else str(k)
            return {"eps_p": slice(0, 6), "p": slice(6, 7)}[nm]

    for sy in (Q(1, 4), Q(4)):
        r.instance(fn=f.qualname)
        eps = XFe((1, 1, 6), [Poly.var(f"e{i}") for i in range(6)])
        zold = XFe((1, 1, 7), [Poly.var(f"z{i}") for i in range(7)])
        C = XFe((1, 1, 6, 6), [Poly.var(f"c{i}{j}") for i in range(6) for j in range(6)])
        Cinv = XArray((6, 6), [Poly.var(f"s{i}{j}") for i in range(6) for j in range(6)])
        sig = XFe((1, 1, 6), [Poly.var(f"sig{i}") for i in range(6)])
        dG = XFe((1, 1), [Poly.var("dG")])
        eigen = SimpleNamespace(Cinv=Cinv)
        hard, rate, dt = Opaque("hardening"), Opaque("rate"), Poly.var("dt")
        rec = {}

        def hook(fn, args, kwargs):
            fi = fn if isinstance(fn, FuncInfo) else getattr(fn, "finfo", None)
            if fi is not None and fi.module.name.endswith("._spectral") and fi.name == "Solve":
                rec.update(dict(zip(pnames, args)))
                rec.update(kwargs)
                return SimpleNamespace(sig=sig, dGamma=dG)
            if fi is not None and fi.module.name.endswith("._spectral") and fi.name == "Tangent":
                return Opaque("C_alg")
            return fe_hook_full(fn, args, kwargs)

        I = Interp(repo)
        I.call_hook = hook
        obj = XObj(ci, {
            ci.mangle("__layout"): SimpleNamespace(slots=Slots(), n=7), ci.mangle("__eigen"): eigen, ci.mangle("__hardening"): hard,
            ci.mangle("__yield"): SimpleNamespace(scale=sy, P=Opaque("P")), ci.mangle("__rate"): rate, "_tol": Poly.var("tol"), "_maxIter": 50,
        })
        try:
            out = I.call_function(f, [eps, zold, C, dt], self_obj=obj)
        except XRaise as e:
            r.fail(f.qualname, f"raises:{sy}", f.file, f.lineno, "Behavior.__Spectral", f"yield stress {sy}: raises {e}")
            continue
        bad = []
        want_tr = [sum((C[0, 0, i, j] * (eps[0, 0, j] - zold[0, 0, j]) for j in range(6)), Poly()) for i in range(6)]
        tr = rec.get("sigTr_e_pg")
        if not (isinstance(tr, XArray) and tr.shape == (1, 1, 6) and all(is_zero(Poly.of(a) - b) for a, b in zip(tr.data, want_tr))):
            bad.append("the trial stress is not C (eps - eps_p)")
        po = rec.get("pOld_e_pg")
        if not (isinstance(po, XArray) and list(po.data) == [zold[0, 0, 6]]):
            bad.append("p_old is not the committed accumulated plastic strain")
        for nm, want in (("eigen", eigen), ("hardening", hard), ("rate", rate)):
            if rec.get(nm) is not want:
                bad.append(f"`{nm}` is not the behaviour's own {nm}")
        s_y = rec.get("sigma_y")
        if not (isinstance(s_y, (int, Q, Poly)) and is_zero(Poly.of(s_y) - sy)):
            bad.append(f"sigma_y - the radius of the surface the return lands on - is {s_y!r} for a yield stress of {sy}: the stress returned by the default solver lies on another surface than the yield surface (and than the one the Newton solver returns to)")
        if not (isinstance(rec.get("dt"), Poly) and is_zero(rec["dt"] - dt)):
            bad.append("dt is not the step handed to the integration")
        if not bad:
            z = XArray.from_nested(out[2])
            want_p = [eps[0, 0, i] - sum((Cinv[i, j] * sig[0, 0, j] for j in range(6)), Poly()) for i in range(6)]
            if z.shape != (1, 1, 7) or not all(is_zero(Poly.of(z[0, 0, i]) - want_p[i]) for i in range(6)) or not is_zero(Poly.of(z[0, 0, 6]) - (zold[0, 0, 6] + Poly.var("dG"))):
                bad.append("the returned state is not (eps - C^-1 sigma, p_old + dGamma)")
            if out[0] is not sig:
                bad.append("the returned stress is not the solver's")
        if bad:
            r.fail(f.qualname, f"dispatch:{'sigma_y' if 'sigma_y' in bad[0] else bad[0][:30]}", f.file, f.lineno, "Behavior.__Spectral", f"yield stress {sy}: " + "; ".join(bad))
        else:
            r.ok(f"yield stress {sy}: arguments and returned state as specified")


def reducibility_rule(ctx, rid="R19.20"):
    """'both local solvers agree': the scalar spectral return replaces the general local Newton only for behaviours it can
    represent.  `__Spectral` writes the state slots it knows (read from its own stores: the names bound from
    `layout.slots[Slot.X]` that index a store); the constructor's own slot table is interpreted for every combination of
    (kinematic hardening, Maxwell branches); whenever `__Is_reducible()` - interpreted on the same configuration - says
    yes, every slot of the layout must be one `__Spectral` writes (a slot it does not write is reset to zero at every
    step: the branch strains / back-strains never evolve)."""
    from types import SimpleNamespace

    from ..xeval import Interp, XObj, Opaque, XRaise, EnumVal
    from ..xarray import XArray

    repo = ctx.repo
    ci = repo.cls(BEH)
    fI = ci.methods["__init__"]
    fR = repo.lookup_method(ci, ci.mangle("__Is_reducible"))
    fS = repo.lookup_method(ci, ci.mangle("__Spectral"))
    r = ctx.rule(rid, "reducibility: for every combination of kinematic components, Maxwell branches, surface kind, stiffness kind and solver choice, __Is_reducible() implies that every state slot the constructor lays out is written by __Spectral", min_instances=16)
    # slots written by __Spectral
    bound = {}
    for n in walk_no_nested(fS.node):
        if isinstance(n, ast.Assign):
            tg = n.targets[0]
            pairs = list(zip(tg.elts, n.value.elts)) if isinstance(tg, ast.Tuple) and isinstance(n.value, ast.Tuple) and len(tg.elts) == len(n.value.elts) else [(tg, n.value)]
            for t, v in pairs:
                if isinstance(t, ast.Name) and isinstance(v, ast.Subscript) and norm_text(v.value).endswith("slots") and isinstance(v.slice, ast.Attribute) and norm_text(v.slice.value) == "Slot":
                    bound[t.id] = v.slice.attr
    written = set()
    for n in walk_no_nested(fS.node):
        if isinstance(n, ast.Assign) and isinstance(n.targets[0], ast.Subscript):
            for x in ast.walk(n.targets[0].slice):
                if isinstance(x, ast.Name) and x.id in bound:
                    written.add(bound[x.id])
    if not written:
        raise AnalysisError(f"{rid}: no slot store found in __Spectral")
    # the constructor's slot table
    stmts = [st for st in fI.node.body if any(isinstance(x, ast.Name) and x.id == "sizes" for x in ast.walk(st)) and not any(isinstance(x, ast.Call) and (dotted(x.func) or "").endswith("StateLayout.From") for x in ast.walk(st))]
    if len(stmts) < 3:
        raise AnalysisError(f"{rid}: the slot table of Behavior.__init__ was not found")
    I = Interp(repo)
    n_red = [0]
    for nk in (0, 1, 2):
        for nb in (0, 1):
            for surface in ("quadratic", "general", None):
                for cnd in (2, 3):
                    for solver in ("auto", "newton"):
                        if surface is None and nk:
                            continue
                        r.instance(fn=fR.qualname)
                        kin = tuple(Opaque(f"k{i}") for i in range(nk))
                        br = tuple(Opaque(f"b{i}") for i in range(nb))
                        ys = None if surface is None else SimpleNamespace(P=Opaque("P") if surface == "quadratic" else None, scale=1)
                        obj = XObj(ci, {ci.mangle("__branches"): br, ci.mangle("__kinematic"): kin, ci.mangle("__yield"): ys, "solver": solver,
                                        "C": XArray((2,) * 0 + ((6, 6) if cnd == 2 else (2, 6, 6)), [0] * (36 if cnd == 2 else 72))})
                        try:
                            (sizes,) = I.run_statements(stmts, {"self": obj, "yieldSurface": ys, "kinematics": kin}, fI.module, ["sizes"], cls=ci)
                            red = I.call_function(fR, [], self_obj=obj)
                        except XRaise as e:
                            r.fail(fR.qualname, f"raises:{nk}{nb}{surface}{cnd}{solver}", fR.file, fR.lineno, "Behavior.__Is_reducible", f"raises {e}")
                            continue
                        keys = [(k.name if isinstance(k, EnumVal) else str(k).split(".")[-1]) for k in sizes]
                        extra = [k for k in keys if k not in written]
                        label = f"{nk} kinematic component(s), {nb} Maxwell branch(es), {surface or 'no'} surface, C.ndim = {cnd}, solver = {solver}"
                        n_red[0] += bool(red)
                        if red and extra:
                            r.fail(fR.qualname, f"reducible-with:{','.join(sorted(set(x.rstrip('0123456789') for x in extra)))}", fR.file, fR.lineno, "Behavior.__Is_reducible", f"{label}: the behaviour is sent to the spectral return although its state has the slot(s) {extra}, which __Spectral (writing {sorted(written)}) resets to zero at every step: the mechanism never evolves and the default solver disagrees with solver='newton'")
                        else:
                            r.ok(f"{label}: reducible = {bool(red)}, slots {keys}")
    if not n_red[0]:
        raise AnalysisError(f"{rid}: no configuration is reducible in the model (the plain quadratic surface must be)")


def plane_stress_linearity_rule(ctx, rid="R19.21"):
    """'a material without internal variables is exactly linear elastic' / 'plane stress leaves no out-of-plane stress':
    the plane-stress completion `Behavior.__Plane_stress_strain` is interpreted in exact arithmetic for an elastic response
    (sig = C eps with a rational isotropic C, the inner integration replaced by that response) at strains of very
    different magnitudes, s (1, 1/2, 1/5) with s = 1, 1e-6, 1e-12: the out-of-plane strain it returns must be the linear
    one, eps_zz = -(C_zx eps_x + C_zy eps_y) / C_zz - an ABSOLUTE stress tolerance tested before the first correction
    leaves eps_zz = 0 (the plane-strain stress, 29 % off) as soon as the strains are small."""
    from types import SimpleNamespace
    from fractions import Fraction as Q

    from ..alg import Poly, is_zero
    from ..xarray import XArray
    from ..xeval import Interp, XObj, Opaque, XRaise
    from ..femchain import XFe, fe_hook_full
    from ..repo import FuncInfo

    repo = ctx.repo
    ci = repo.cls(BEH)
    f = repo.lookup_method(ci, ci.mangle("__Plane_stress_strain"))
    r = ctx.rule(rid, "plane-stress completion on an elastic response: eps_zz == -(C_zx eps_x + C_zy eps_y) / C_zz exactly, for strains of magnitude 1, 1e-6 and 1e-12 (no absolute stress tolerance decides before the first correction)", min_instances=3)
    # isotropic C in Kelvin-Mandel form with lambda = 3, mu = 2 (units of 1e4: a steel-like modulus makes the floor visible)
    lam, mu = Q(30000), Q(20000)
    C = [[Q(0)] * 6 for _ in range(6)]
    for i in range(3):
        for j in range(3):
            C[i][j] = lam + (2 * mu if i == j else 0)
    for i in range(3, 6):
        C[i][i] = 2 * mu
    CX = XArray((6, 6), [C[i][j] for i in range(6) for j in range(6)])
    cattr = {k: repo.class_attr(ci, k)[0] for k in ("_tol", "_planeStress_tol", "_maxIter")}
    for s in (Q(1), Q(1, 10**6), Q(1, 10**12)):
        r.instance(fn=f.qualname)
        eps = [s, s / 2, Q(0), Q(0), Q(0), s / 5]
        eps6 = XFe((1, 1, 6), list(eps))

        def hook(fn, args, kwargs):
            fi = fn if isinstance(fn, FuncInfo) else getattr(fn, "finfo", None)
            if fi is not None and fi.name.endswith("__Integrate_3d"):
                e6 = XArray.from_nested(args[0])
                sig = [sum((C[i][j] * e6[0, 0, j] for j in range(6)), Q(0)) for i in range(6)]
                return (XFe((1, 1, 6), sig), XFe((1, 1, 6, 6), list(CX.data)), None, None)
            return fe_hook_full(fn, args, kwargs)

        I = Interp(repo)
        I.call_hook = hook
        obj = XObj(ci, {ci.mangle("__yield"): None, "C": CX})
        try:
            out = XArray.from_nested(I.call_function(f, [eps6, Opaque("zOld"), Q(0)], self_obj=obj))
        except XRaise as e:
            r.fail(f.qualname, f"plane-stress-linear:{s}", f.file, f.lineno, "Behavior.__Plane_stress_strain", f"strain magnitude {float(s):g}: raises {e}")
            continue
        want = -(C[2][0] * eps[0] + C[2][1] * eps[1]) / C[2][2]
        got = out[0, 0, 2]
        got = got.const_value() if isinstance(got, Poly) and got.is_const() else got
        if is_zero(Poly.of(got) - want) or (isinstance(got, Q) and want != 0 and abs((got - want) / want) < Q(1, 10**9)):
            r.ok(f"strain magnitude {float(s):g}: eps_zz is the linear one")
        else:
            r.fail(f.qualname, "plane-stress-linear", f.file, f.lineno, "Behavior.__Plane_stress_strain", f"elastic response, in-plane strain {float(s):g} * (1, 1/2, 1/5): eps_zz = {float(got) if isinstance(got, (int, Q)) else got!r} instead of {float(want):g}: the convergence test on an absolute stress accepts the starting value eps_zz = 0, the stress returned is the plane-strain one (sig_zz != 0 relative to the stress level, in-plane stress 29 % off): a material without internal variables is not linear elastic at small strains")


def local_jacobian_rule(ctx, rid="R19.22"):
    """'the returned algorithmic tangent is the derivative of the returned stress with respect to the strain': the tangent
    is built from the local Jacobian pair (J, D) = (dr/du, dr/deps) (R19.18); here the pair itself is decided.
    `Behavior.__Residual` and `Behavior.__Jacobian` are interpreted on ONE symbolic point of a material carrying every
    mechanism at once - plastic strain, accumulated plastic strain, one kinematic component with recall, one Maxwell
    branch - with polynomial stand-ins for the constitutive pieces (a quadratic surface f = 1/2 xi.P.xi - R - s_y, so
    N = P xi, dN/dsig = P; linear hardening R = H p; back-stress X = k alpha), a rational isotropic C and symbolic strain,
    state, increment, dt, g, tau, k, recall, H.  Every entry of J must be the polynomial derivative of the residual row
    with respect to the unknown, every entry of D the derivative with respect to the strain component."""
    from types import SimpleNamespace
    from fractions import Fraction as Q

    from ..alg import Poly, is_zero
    from ..xarray import XArray
    from ..xeval import Interp, XObj, XRaise, EnumVal
    from ..femchain import XFe, fe_hook_full

    repo = ctx.repo
    ci = repo.cls(BEH)
    fR = repo.lookup_method(ci, ci.mangle("__Residual"))
    fJ = repo.lookup_method(ci, ci.mangle("__Jacobian"))
    r = ctx.rule(rid, "local Jacobian: every block of __Jacobian is the derivative of the corresponding rows of __Residual with respect to the unknowns (J) and to the strain (D), on a material with plastic strain, isotropic and kinematic hardening and a Maxwell branch together, and on each mechanism alone", min_instances=3)

    class Slots:
        _xeval_open = True

        def __init__(self, table):
            self.table = table

        def _key(self, k):
            k = k.name if isinstance(k, EnumVal) else str(k)
            return k.split(".")[-1]

        def __getitem__(self, k):
            return self.table[self._key(k)]

        def get(self, k, default=None):
            return self.table.get(self._key(k), default)

        def __contains__(self, k):
            return self._key(k) in self.table

    lam, mu = Q(3), Q(2)
    Cm = [[(lam if i < 3 and j < 3 else Q(0)) + (2 * mu if i == j else Q(0)) for j in range(6)] for i in range(6)]
    Pm = [[Q(0)] * 6 for _ in range(6)]  # a symmetric 'quadratic surface' matrix (deviatoric-like, not proportional to C)
    for i in range(3):
        for j in range(3):
            Pm[i][j] = Q(2, 3) if i == j else Q(-1, 3)
    for i in range(3, 6):
        Pm[i][i] = Q(1)
    H, kmod, rec, g, tau, dt, sy = (Poly.var(n) for n in ("H", "k", "c", "g", "tau", "dt", "sy"))

    def matvec(M, v):
        return [sum((M[i][j] * v[j] for j in range(6) if M[i][j] != 0), Poly()) for i in range(6)]

    def fe_vec(v):
        return XFe((1, 1, len(v)), list(v))

    yield_ns = SimpleNamespace(
        N=lambda xi, R: fe_vec(matvec(Pm, [Poly.of(x) for x in XArray.from_nested(xi).data])),
        dNdSig=lambda xi: XFe((1, 1, 6, 6), [Poly.const(Pm[i][j]) for i in range(6) for j in range(6)]),
        f=lambda xi, R: XFe((1, 1), [sum((Poly.of(a) * b for a, b in zip(XArray.from_nested(xi).data, matvec(Pm, [Poly.of(x) for x in XArray.from_nested(xi).data]))), Poly()) * Q(1, 2) - Poly.of(XArray.from_nested(R).data[0]) - sy]),
        scale=1, P=None)
    seen_pts = {}

    def _rec(tag, p):
        seen_pts.setdefault(tag, []).append(Poly.of(XArray.from_nested(p).data[0]))

    hard = SimpleNamespace(R=lambda p: (_rec("R", p), XFe((1, 1), [H * Poly.of(XArray.from_nested(p).data[0])]))[1], dR=lambda p: (_rec("dR", p), XFe((1, 1), [H]))[1])
    r6 = ctx.rule("R19.6", "evaluation point (interpreted): in __Residual and in __Jacobian the isotropic hardening R / dR is evaluated at the UPDATED accumulated plastic strain p_old + dp - both at the same point", min_instances=3)

    def config(kin, br):
        table, n = {"eps_p": slice(0, 6), "p": slice(6, 7)}, 7
        if kin:
            table["alpha0"] = slice(n, n + 6)
            n += 6
        if br:
            table["eps_v0"] = slice(n, n + 6)
            n += 6
        return table, n

    for label, kin, br in (("plasticity + kinematic hardening + Maxwell branch", True, True), ("plasticity + kinematic hardening", True, False), ("plasticity + Maxwell branch", False, True)):
        r.instance(fn=fJ.qualname)
        seen_pts.clear()
        table, nz = config(kin, br)
        nu = nz + 1
        eps = [Poly.var(f"e{i}") for i in range(6)]
        zold = [Poly.var(f"z{i}") for i in range(nz)]
        u = [Poly.var(f"u{i}") for i in range(nu)]
        comp = SimpleNamespace(modulus=kmod, recall=rec, X=lambda a: XFe((1, 1, 6), [kmod * Poly.of(x) for x in XArray.from_nested(a).data]))
        branch = SimpleNamespace(g=g, tau=tau)
        CX = XFe((1, 1, 6, 6), [Poly.const(Cm[i][j]) for i in range(6) for j in range(6)])
        obj = XObj(ci, {ci.mangle("__layout"): SimpleNamespace(slots=Slots(table), n=nz), ci.mangle("__yield"): yield_ns, ci.mangle("__hardening"): hard,
                        ci.mangle("__kinematic"): (comp,) if kin else (), ci.mangle("__branches"): (branch,) if br else (), ci.mangle("__rate"): None,
                        "C": XArray((6, 6), [Cm[i][j] for i in range(6) for j in range(6)]), "_C_e_pg": lambda Ne, nPg: CX})
        I = Interp(repo, max_steps=20_000_000)
        I.call_hook = fe_hook_full
        try:
            res = I.call_function(fR, [fe_vec(eps), fe_vec(u), fe_vec(zold), CX, dt], self_obj=obj)
            rvec = [Rat.of(x) for x in XArray.from_nested(res[0]).data]
            J, D = I.call_function(fJ, [fe_vec(u), fe_vec(zold), res[2], res[3], CX, dt], self_obj=obj)
            J, D = XArray.from_nested(J), XArray.from_nested(D)
        except XRaise as e:
            r.fail(fJ.qualname, f"jacobian:{label}", fJ.file, fJ.lineno, "Behavior.__Jacobian", f"{label}: raises {e}")
            continue
        # R19.6: where the hardening law was evaluated
        r6.instance(fn=fR.qualname)
        want_pt = zold[6] + u[6]
        pts_R, pts_dR = seen_pts.get("R", []), seen_pts.get("dR", [])
        if not pts_R or not pts_dR:
            r6.fail(fR.qualname, f"point:{label}", fR.file, fR.lineno, "__Residual", f"{label}: the hardening law is not evaluated (R: {len(pts_R)} call(s), dR: {len(pts_dR)} call(s))")
        elif any(not is_zero(pt - want_pt) for pt in pts_R + pts_dR):
            inR = any(not is_zero(pt - want_pt) for pt in pts_R)
            wrong = next(pt for pt in (pts_R if inR else pts_dR) if not is_zero(pt - want_pt))
            fn_ = fR if inR else fJ
            r6.fail(fn_.qualname, "point:R" if inR else "point:dR", fn_.file, fn_.lineno, "__Residual" if inR else "__Jacobian", f"{label}: the hardening {'R' if inR else 'dR'} is evaluated at {wrong!r}, the updated accumulated plastic strain is p_old + dp = {want_pt!r}: the law sees the increment (or the old state) instead of the updated value - accumulated hardening is lost / the return lands off the current surface")
        else:
            r6.ok(f"{label}: R and dR evaluated at p_old + dp")
        names = {}
        for nm, sl in table.items():
            for kk in range(sl.start, sl.stop):
                names[kk] = f"{nm}[{kk - sl.start}]"
        names[nz] = "dGamma"
        def ddiff(x, var):
            # d(n / d): the denominators (tau) do not depend on the unknowns nor on the strain
            if var in x.d.vars():
                raise AnalysisError(f"{rid}: a residual denominator depends on {var}")
            return Rat(x.n.diff(var), x.d)

        bad = None
        if len(rvec) != nu or J.shape != (1, 1, nu, nu) or D.shape != (1, 1, nu, 6):
            bad = f"shapes: residual {len(rvec)}, J {J.shape}, D {D.shape} for {nu} unknowns"
        else:
            # the rate term divides by tau: clear it (tau * r is polynomial) by differentiating tau-multiplied rows when needed
            for a in range(nu):
                for b in range(nu):
                    want = ddiff(rvec[a], f"u{b}")
                    got = J[0, 0, a, b]
                    if bad is None and not is_zero(Rat.of(got) - Rat.of(want)):
                        bad = f"J[{names[a]}, {names[b]}] is {got!r}, the derivative of that residual row with respect to that unknown is {want!r}"
                for c in range(6):
                    want = ddiff(rvec[a], f"e{c}")
                    got = D[0, 0, a, c]
                    if bad is None and not is_zero(Rat.of(got) - Rat.of(want)):
                        bad = f"D[{names[a]}, eps[{c}]] is {got!r}, the derivative of that residual row with respect to that strain component is {want!r}"
        if bad:
            r.fail(fJ.qualname, f"jacobian:{label}", fJ.file, fJ.lineno, "Behavior.__Jacobian", f"{label}: {bad}: the Newton matrix is not the derivative of the residual it is solved with - the returned algorithmic tangent is not the derivative of the returned stress")
        else:
            r.ok(f"{label}: J == dr/du ({nu} x {nu}) and D == dr/deps ({nu} x 6) as rational identities")


def free_energy_rule(ctx, rid="R19.23"):
    """'the dissipated work is non-negative': the dissipation inequality is stated with the free energy the behaviour
    declares, D = sigma : d(eps) - d(psi); it is the thermodynamic forces DERIVED from psi that the evolution laws use.
    `Behavior.Compute_psi` is interpreted on one symbolic point (plastic strain, accumulated plastic strain p, one back-strain,
    one Maxwell branch; stored energies 1/2 H p^2 and 1/2 k alpha.alpha) and differentiated as a polynomial:
      d psi / d eps == Compute_sigma,   d psi / d p == R(p) = H p,   d psi / d alpha == Compute_back_stress = k alpha,
      d psi / d eps_p == -Compute_sigma  (the plastic strain is driven by the stress)."""
    from types import SimpleNamespace
    from fractions import Fraction as Q

    from ..alg import Poly, is_zero
    from ..xarray import XArray
    from ..xeval import Interp, XObj, XRaise, EnumVal
    from ..femchain import XFe, fe_hook_full

    repo = ctx.repo
    ci = repo.cls(BEH)
    fP, fS, fX = ci.methods["Compute_psi"], ci.methods["Compute_sigma"], ci.methods["Compute_back_stress"]
    r = ctx.rule(rid, "declared free energy: d psi/d eps == sigma, d psi/d eps_p == -sigma, d psi/d p == R(p), d psi/d alpha == back-stress, as polynomial identities on a point with every mechanism", min_instances=4)

    class Slots:
        _xeval_open = True

        def __init__(self, table):
            self.table = table

        def _key(self, k):
            return (k.name if isinstance(k, EnumVal) else str(k)).split(".")[-1]

        def __getitem__(self, k):
            return self.table[self._key(k)]

        def get(self, k, default=None):
            return self.table.get(self._key(k), default)

        def __contains__(self, k):
            return self._key(k) in self.table

    lam, mu = Q(3), Q(2)
    Cm = [[(lam if i < 3 and j < 3 else Q(0)) + (2 * mu if i == j else Q(0)) for j in range(6)] for i in range(6)]
    H, kmod, g = Poly.var("H"), Poly.var("k"), Poly.var("g")
    table, nz = {"eps_p": slice(0, 6), "p": slice(6, 7), "alpha0": slice(7, 13), "eps_v0": slice(13, 19)}, 19
    eps = [Poly.var(f"e{i}") for i in range(6)]
    z = [Poly.var(f"z{i}") for i in range(nz)]
    fe_vec = lambda v: XFe((1, 1, len(v)), list(v))
    vals = lambda a: [Poly.of(x) for x in XArray.from_nested(a).data]
    hard = SimpleNamespace(psi=lambda p: XFe((1, 1), [H * vals(p)[0] * vals(p)[0] * Q(1, 2)]), R=lambda p: XFe((1, 1), [H * vals(p)[0]]))
    comp = SimpleNamespace(modulus=kmod, psi=lambda a: XFe((1, 1), [sum((x * x for x in vals(a)), Poly()) * kmod * Q(1, 2)]), X=lambda a: fe_vec([kmod * x for x in vals(a)]))
    CX = XFe((1, 1, 6, 6), [Poly.const(Cm[i][j]) for i in range(6) for j in range(6)])
    obj = XObj(ci, {ci.mangle("__layout"): SimpleNamespace(slots=Slots(table), n=nz), ci.mangle("__hardening"): hard, ci.mangle("__kinematic"): (comp,),
                    ci.mangle("__branches"): (SimpleNamespace(g=g, tau=Poly.var("tau")),), "_C_e_pg": lambda Ne, nPg: CX})
    I = Interp(repo, max_steps=20_000_000)
    I.call_hook = fe_hook_full
    try:
        psi = Poly.of(XArray.from_nested(I.call_function(fP, [fe_vec(eps), fe_vec(z)], self_obj=obj)).data[0])
        sig = vals(I.call_function(fS, [fe_vec(eps), fe_vec(z)], self_obj=obj))
        X = vals(I.call_function(fX, [fe_vec(z)], self_obj=obj))
    except XRaise as e:
        r.instance(fn=fP.qualname)
        r.fail(fP.qualname, "free-energy", fP.file, fP.lineno, "Behavior.Compute_psi", f"raises {e}")
        return
    checks = [
        ("d psi / d eps == sigma", [psi.diff(f"e{i}") - sig[i] for i in range(6)]),
        ("d psi / d eps_p == -sigma", [psi.diff(f"z{i}") + sig[i] for i in range(6)]),
        ("d psi / d p == R(p) (stored isotropic hardening evaluated at the accumulated plastic strain)", [psi.diff("z6") - H * z[6]]),
        ("d psi / d alpha == back-stress", [psi.diff(f"z{7 + i}") - X[i] for i in range(6)]),
    ]
    for label, res in checks:
        r.instance(fn=fP.qualname)
        badk = [k for k, x in enumerate(res) if not is_zero(x)]
        if not badk:
            r.ok(label)
        else:
            r.fail(fP.qualname, f"free-energy:{label.split(' ==')[0]}", fP.file, fP.lineno, "Behavior.Compute_psi", f"{label} fails (component {badk[0]}: residual {res[badk[0]]!r}): the declared free energy is not the potential of the forces the evolution laws use - the dissipation sigma : d(eps) - d(psi) evaluated with it can be negative along an admissible path")


class _SlotTable:
    """stand-in of StateLayout.slots (keys are Slot members or their names)"""
    _xeval_open = True

    def __init__(self, table):
        self.table = table

    def _key(self, k):
        from ..xeval import EnumVal
        return (k.name if isinstance(k, EnumVal) else str(k)).split(".")[-1]

    def __getitem__(self, k):
        return self.table[self._key(k)]

    def get(self, k, default=None):
        return self.table.get(self._key(k), default)

    def __contains__(self, k):
        return self._key(k) in self.table

    def items(self):
        return self.table.items()


def plane_stress_flow_rule(ctx, rid="R19.24"):
    """'plane stress leaves no out-of-plane stress': the out-of-plane strain `Compute_strain_6d` returns makes sig_zz of
    the MATERIAL'S OWN RESPONSE vanish - the response of `__Integrate_3d`, which flows and relaxes - not that of the elastic
    closed form.  `Compute_strain_6d` (with the real plane-stress Newton) is interpreted in exact arithmetic with a stand-in
    response sig = C_ep eps whose lateral coupling differs from the elastic C (a flowing material), for every combination of
    (rate law present or not, Maxwell branches or not, dt = 0 or 1/10): sig_zz(C_ep, returned strain) must be zero."""
    from types import SimpleNamespace
    from fractions import Fraction as Q

    from ..alg import Poly, is_zero
    from ..xarray import XArray
    from ..xeval import Interp, XObj, Opaque, XRaise
    from ..femchain import XFe, fe_hook_full
    from ..repo import FuncInfo

    repo = ctx.repo
    ci = repo.cls(BEH)
    f = ci.methods["Compute_strain_6d"]
    r = ctx.rule(rid, "plane-stress completion: sig_zz of the material's own (flowing) response vanishes at the strain Compute_strain_6d returns, with / without a rate law, with / without Maxwell branches, for dt = 0 and dt > 0", min_instances=8)

    def iso(lam, mu):
        return [[(lam if i < 3 and j < 3 else Q(0)) + (2 * mu if i == j else Q(0)) for j in range(6)] for i in range(6)]

    Cel, Cep = iso(Q(3), Q(2)), iso(Q(1), Q(2))
    for has_rate in (False, True):
        for has_br in (False, True):
            for dt in (Q(0), Q(1, 10)):
                r.instance(fn=f.qualname)
                eps2 = XFe((1, 1, 3), [Q(1, 100), Q(-1, 300), Q(1, 500)])

                def resp(Cm, e6):
                    e6 = XArray.from_nested(e6)
                    return XFe((1, 1, 6), [sum((Cm[i][j] * e6[0, 0, j] for j in range(6)), Q(0)) for i in range(6)])

                def hook(fn, args, kwargs):
                    fi = fn if isinstance(fn, FuncInfo) else getattr(fn, "finfo", None)
                    if fi is not None and fi.name.endswith("__Integrate_3d"):
                        return (resp(Cep, args[0]), XFe((1, 1, 6, 6), [Cep[i][j] for i in range(6) for j in range(6)]), None, None)
                    if fi is not None and fi.name == "Compute_sigma" and fi.cls is ci:
                        return resp(Cel, args[0])
                    return fe_hook_full(fn, args, kwargs)

                I = Interp(repo)
                I.call_hook = hook
                obj = XObj(ci, {"dim": 2, "planeStress": True, ci.mangle("__yield"): SimpleNamespace(scale=1, P=None, f=lambda *a, **k: XFe((1, 1), [Q(1)])), ci.mangle("__rate"): Opaque("rate") if has_rate else None,
                                # (the stand-in response flows at every strain: a surface asked directly answers 'outside')
                                ci.mangle("__hardening"): SimpleNamespace(R=lambda p: XFe((1, 1), [Q(0)])), ci.mangle("__kinematic"): (), ci.mangle("__eigen"): None,
                                ci.mangle("__branches"): (SimpleNamespace(g=Q(1, 4), tau=Q(1)),) if has_br else (), ci.mangle("__layout"): SimpleNamespace(n=7, slots=_SlotTable({"eps_p": slice(0, 6), "p": slice(6, 7)})),
                                "C": XArray((6, 6), [Cel[i][j] for i in range(6) for j in range(6)]), "_C_e_pg": lambda Ne, nPg: XFe((1, 1, 6, 6), [Cel[i][j] for i in range(6) for j in range(6)]),
                                "State_zeros": lambda *a, **k: XFe((1, 1, 7), [Q(0)] * 7)})
                tag = f"{'rate law, ' if has_rate else ''}{'Maxwell branch, ' if has_br else ''}dt = {dt}"
                try:
                    e6 = XArray.from_nested(I.call_function(f, [eps2, Opaque("zOld"), dt], self_obj=obj))
                except XRaise as e:
                    r.fail(f.qualname, f"plane-stress-flow:{tag}", f.file, f.lineno, "Behavior.Compute_strain_6d", f"{tag}: raises {e}")
                    continue
                szz = sum((Cep[2][j] * e6[0, 0, j] for j in range(6)), Q(0))
                szz = szz.const_value() if isinstance(szz, Poly) and szz.is_const() else szz
                if isinstance(szz, (int, Q)) and abs(szz) < Q(1, 10**6):
                    r.ok(f"{tag}: sig_zz of the material's response vanishes")
                else:
                    r.fail(f.qualname, f"plane-stress-flow:{'rate' if has_rate else 'norate'}:{'branch' if has_br else 'nobranch'}:dt{dt}", f.file, f.lineno, "Behavior.Compute_strain_6d", f"{tag}: at the returned strain the out-of-plane stress of the material's own response is {float(szz) if isinstance(szz, (int, Q)) else szz!r} (stress scale 1e-2): eps_zz was taken from the elastic closed form although the material flows - plane stress leaves an out-of-plane stress")


def plane_stress_kinematic_rule(ctx, rid="R19.26"):
    """'plane stress leaves no out-of-plane stress' on a material whose surface has MOVED (kinematic hardening carried in the
    committed state): whether the increment is elastic is a question about the RELATIVE stress sig - X, and about the
    material's own response - nothing else may answer it.  `Compute_strain_6d` and the plane-stress Newton are interpreted,
    with the real `Compute_sigma`, `Compute_elastic_strain`, `Compute_back_stress`, on a behaviour whose yield object is the
    linear surface f(xi, R) = xi_xx - 1 - R and whose 3-D response (the stand-in of `__Integrate_3d`) is CONSISTENT with it:
    elastic (C) while f(sig_trial - X, R) <= 0, flowing (C_ep, another lateral coupling) otherwise.  Two committed states:
    the back-stress pulls the surface towards the load (f(sig) <= 0 < f(sig - X): the point flows although the plain stress
    is inside) and away from it (f(sig) > 0 >= f(sig - X): elastic although the plain stress is outside).  At the returned
    strain the out-of-plane stress OF THAT RESPONSE must vanish."""
    from types import SimpleNamespace
    from fractions import Fraction as Q

    from ..xarray import XArray
    from ..xeval import Interp, XObj, Opaque, XRaise, EnumVal
    from ..femchain import XFe, fe_hook_full
    from ..repo import FuncInfo

    repo = ctx.repo
    ci = repo.cls(BEH)
    f = ci.methods["Compute_strain_6d"]
    fSig, fX = ci.methods["Compute_sigma"], ci.methods["Compute_back_stress"]
    r = ctx.rule(rid, "plane-stress completion with a moved surface (committed back-stress): sig_zz of the material's own response - flowing iff the RELATIVE stress leaves the surface - vanishes at the strain Compute_strain_6d returns", min_instances=2)

    class Slots:
        _xeval_open = True

        def __init__(self, table):
            self.table = table

        def _key(self, k):
            return (k.name if isinstance(k, EnumVal) else str(k)).split(".")[-1]

        def __getitem__(self, k):
            return self.table[self._key(k)]

        def get(self, k, default=None):
            return self.table.get(self._key(k), default)

        def __contains__(self, k):
            return self._key(k) in self.table

        def items(self):
            return self.table.items()

        def keys(self):
            return self.table.keys()

    def iso(lam, mu):
        return [[(lam if i < 3 and j < 3 else Q(0)) + (2 * mu if i == j else Q(0)) for j in range(6)] for i in range(6)]

    Cel, Cep = iso(Q(3), Q(2)), iso(Q(1), Q(2))
    table = {"eps_p": slice(0, 6), "p": slice(6, 7), "alpha0": slice(7, 13)}
    for label, axx, exx, flows in (("surface pulled towards the load (f(sig) <= 0 < f(sig - X))", Q(-1, 4), Q(14, 100), True),
                                   ("surface pushed away from the load (f(sig - X) <= 0 < f(sig))", Q(1, 4), Q(21, 100), False)):
        r.instance(fn=f.qualname)
        eps2 = XFe((1, 1, 3), [exx, Q(0), Q(0)])
        zv = [Q(0)] * 13
        zv[7] = axx
        zold = XFe((1, 1, 13), zv)

        def yf(xi, R):
            xi = XArray.from_nested(xi)
            Rv = XArray.from_nested(R) if not isinstance(R, (int, Q)) else None
            return XFe((1, 1), [xi[0, 0, 0] - 1 - (Rv[0, 0] if Rv is not None and Rv.shape == (1, 1) else (R if Rv is None else Rv.data[0]))])

        ys = SimpleNamespace(scale=1, P=None, f=yf)
        hard = SimpleNamespace(R=lambda p: XFe((1, 1), [Q(0)]), dR=lambda p: XFe((1, 1), [Q(0)]), psi=lambda p: XFe((1, 1), [Q(0)]))
        comp = SimpleNamespace(X=lambda a: XFe((1, 1, 6), [2 * x for x in XArray.from_nested(a).data]), recall=Q(0), modulus=Q(2))
        I = Interp(repo)
        obj = XObj(ci, {"dim": 2, "planeStress": True, ci.mangle("__yield"): ys, ci.mangle("__rate"): None, ci.mangle("__hardening"): hard,
                        ci.mangle("__kinematic"): (comp,), ci.mangle("__branches"): (), ci.mangle("__layout"): SimpleNamespace(n=13, slots=Slots(table)),
                        ci.mangle("__eigen"): None,
                        "C": XArray((6, 6), [Cel[i][j] for i in range(6) for j in range(6)]), "_C_e_pg": lambda Ne, nPg: XFe((1, 1, 6, 6), [Cel[i][j] for i in range(6) for j in range(6)]),
                        "State_zeros": lambda *a, **k: XFe((1, 1, 13), [Q(0)] * 13)})
        state = {"inside": False}

        def response(e6):
            """the material's own 3-D response at the committed state `zold` (consistent with the surface)"""
            state["inside"] = True
            try:
                st = XArray.from_nested(I.call_function(fSig, [e6, zold], self_obj=obj))
                X = XArray.from_nested(I.call_function(fX, [zold], self_obj=obj))
            finally:
                state["inside"] = False
            fl = st[0, 0, 0] - X[0, 0, 0] - 1 > 0
            Cm = Cep if fl else Cel
            e = XArray.from_nested(e6)
            return fl, [sum((Cm[i][j] * e[0, 0, j] for j in range(6)), Q(0)) for i in range(6)], Cm

        def hook(fn, args, kwargs):
            fi = fn if isinstance(fn, FuncInfo) else getattr(fn, "finfo", None)
            if fi is not None and fi.name.endswith("__Integrate_3d") and not state["inside"]:
                fl, sv, Cm = response(args[0])
                return (XFe((1, 1, 6), sv), XFe((1, 1, 6, 6), [Cm[i][j] for i in range(6) for j in range(6)]), zold, XArray((1, 1), [True]))
            return fe_hook_full(fn, args, kwargs)

        I.call_hook = hook
        try:
            e6 = I.call_function(f, [eps2, zold, Q(1, 10)], self_obj=obj)
            fl, sv, _ = response(e6)
        except XRaise as e:
            r.fail(f.qualname, f"plane-stress-kinematic:{'flow' if flows else 'elastic'}", f.file, f.lineno, "Behavior.Compute_strain_6d", f"{label}: raises {e}")
            continue
        if fl != flows:
            raise AnalysisError(f"{rid}: the scenario '{label}' does not reach the regime it was written for")
        if abs(sv[2]) < Q(1, 10**6):
            r.ok(f"{label}: sig_zz of the material's response vanishes")
        else:
            r.fail(f.qualname, f"plane-stress-kinematic:{'flow' if flows else 'elastic'}", f.file, f.lineno, "Behavior.Compute_strain_6d", f"{label}: at the returned strain the material's own response has sig_zz = {float(sv[2]):.4g} (stresses of order 1): the out-of-plane strain was decided by a test on the plain stress (or the elastic closed form) although the surface has moved with the committed back-stress")


def elastic_degeneration_rule(ctx, rid="R19.4"):
    """'a material without internal variables is exactly linear elastic': `Behavior.__Integrate_3d` is interpreted on a
    behaviour whose state layout is empty (no yield surface, no branch): the stress it returns is C eps for a symbolic
    strain and a rational C, the tangent is C, the state is handed back unchanged and every point is reported converged."""
    from types import SimpleNamespace
    from fractions import Fraction as Q

    from ..alg import Poly, is_zero
    from ..xarray import XArray
    from ..xeval import Interp, XObj, Opaque, XRaise, EnumVal
    from ..femchain import XFe, fe_hook_full

    repo = ctx.repo
    ci = repo.cls(BEH)
    f = repo.lookup_method(ci, ci.mangle("__Integrate_3d"))
    r = ctx.rule(rid, "a material without internal variables: __Integrate_3d returns (C eps, C, the state unchanged, all converged) for a symbolic strain", min_instances=1)
    r.instance(fn=f.qualname)
    lam, mu = Q(3), Q(2)
    Cm = [[(lam if i < 3 and j < 3 else Q(0)) + (2 * mu if i == j else Q(0)) for j in range(6)] for i in range(6)]
    CX = XFe((1, 1, 6, 6), [Poly.const(Cm[i][j]) for i in range(6) for j in range(6)])
    eps = XFe((1, 1, 6), [Poly.var(f"e{i}") for i in range(6)])

    class Slots(dict):
        _xeval_open = True

        def get(self, k, default=None):
            return default

    zold = XFe((1, 1, 0), [])
    obj = XObj(ci, {ci.mangle("__layout"): SimpleNamespace(n=0, slots=Slots()), ci.mangle("__branches"): (), ci.mangle("__kinematic"): (), ci.mangle("__yield"): None,
                    ci.mangle("__eigen"): None, "_C_e_pg": lambda Ne, nPg: CX, "C": XArray((6, 6), [Cm[i][j] for i in range(6) for j in range(6)])})
    I = Interp(repo)
    I.call_hook = fe_hook_full
    try:
        out = I.call_function(f, [eps, zold, Q(1, 10)], self_obj=obj)
    except XRaise as e:
        r.fail(f.qualname, "elastic-path", f.file, f.lineno, "__Integrate_3d", f"raises {e}")
        return
    sig, Calg, z, conv = out
    sig, Calg = XArray.from_nested(sig), XArray.from_nested(Calg)
    want = [sum((Cm[i][j] * eps[0, 0, j] for j in range(6)), Poly()) for i in range(6)]
    bad = None
    if sig.shape != (1, 1, 6) or any(not is_zero(Poly.of(sig[0, 0, i]) - want[i]) for i in range(6)):
        bad = f"the stress is {[str(x) for x in sig.data][:2]}..., not C eps"
    elif Calg.shape != (1, 1, 6, 6) or any(not is_zero(Poly.of(Calg[0, 0, i, j]) - Cm[i][j]) for i in range(6) for j in range(6)):
        bad = "the tangent is not the elastic C"
    elif z is not zold and not (isinstance(z, XArray) and z.shape == zold.shape):
        bad = "the state handed back is not the (empty) state that was given"
    elif not all(v is True or v == 1 for v in XArray.from_nested(conv).data):
        bad = "not every point is reported converged"
    if bad:
        r.fail(f.qualname, "elastic-path", f.file, f.lineno, "__Integrate_3d", f"material without internal variables: {bad}: it is not exactly linear elastic")
    else:
        r.ok("empty layout: (C eps, C, state unchanged, converged)")


def committed_state_roundtrip_rule(ctx, rid="R19.25"):
    """'the stored history ... brings back exactly the internal variables that were current when iteration i was saved':
    InElastic.Save_Iter and Set_Iter are interpreted on a simulation holding a trial state z = [1, 2] and an older committed
    state [9, 9] (super().Save_Iter / Set_Iter of the base class run too, history in memory): after Save_Iter the committed
    state AND the state stored in the iteration are the trial state, as independent copies; after a further trial state
    [5, 6] and Set_Iter(0) the committed and the trial state are [1, 2] again, and editing one does not reach the other nor
    the history."""
    from ..xeval import Interp, XObj, XRaise, Sink
    from ..xarray import XArray

    repo = ctx.repo
    sim = repo.cls("EasyFEA.Simulations._inelastic.InElastic")
    base = repo.cls("EasyFEA.Simulations._simu._Simu")
    fs, fr = sim.methods["Save_Iter"], sim.methods["Set_Iter"]
    r = ctx.rule(rid, "InElastic.Save_Iter commits the trial state and stores THAT state (independent copies) in the iteration; Set_Iter brings the committed and the trial state back to the stored one", min_instances=2)
    r.instance(fn=fs.qualname)
    z = {"A": XArray((2,), [1, 2])}
    u = XArray((4,), [7, 7, 7, 7])
    sets = []
    o = XObj(sim, {
        sim.mangle("__z"): z, sim.mangle("__zOld"): {"A": XArray((2,), [9, 9])}, "displacement": u,
        base.mangle("__list_results"): [], base.mangle("__indexMesh"): 0, base.mangle("__isNonLinear"): False, "folder": "", base.mangle("__Niter"): 0,
        base.mangle("__Update_mesh"): lambda *a, **k: None, "problemType": "elastic", "_Set_solutions": lambda *a, **k: sets.append(a), "Need_Update": lambda *a, **k: None,
    })
    I = Interp(repo, extra_builtins={"MPI_SIZE": 1, "MPI_RANK": 0, "Tic": lambda *a, **k: Sink()})
    vals = lambda d, k="A": [int(x) for x in d[k].data] if isinstance(d, dict) and k in d else None
    try:
        I.call_function(fs, [], self_obj=o)
    except XRaise as e:
        r.fail(fs.qualname, "raises", fs.file, fs.lineno, "InElastic.Save_Iter", f"raises {e}")
        return
    hist = o.attrs.get(base.mangle("__list_results"))
    entry = hist[0] if hist else None
    zo = o.attrs.get(sim.mangle("__zOld"))
    bad = None
    if vals(zo) != [1, 2]:
        bad = f"after Save_Iter the committed state is {vals(zo)}, the trial state was [1, 2]"
    elif not isinstance(entry, dict) or vals(entry.get("state")) != [1, 2]:
        bad = f"the iteration stores the state {vals(entry.get('state')) if isinstance(entry, dict) else entry!r}; the state committed at this iteration is [1, 2] (the older committed state was [9, 9]): restoring this iteration rolls the history back by one increment"
    elif entry["state"]["A"] is zo["A"] or entry["state"]["A"] is z["A"] or zo["A"] is z["A"]:
        bad = "the stored, the committed and the trial state share one array: a later in-place write reaches the saved history"
    if bad:
        r.fail(fs.qualname, "commit-store", fs.file, fs.lineno, "InElastic.Save_Iter", bad)
        return
    r.ok("Save_Iter: committed = stored = trial state, three independent arrays")
    # a further trial state, then the restore
    r.instance(fn=fr.qualname)
    o.attrs[sim.mangle("__z")] = {"A": XArray((2,), [5, 6])}
    o.attrs["Get_results"] = None
    o.attrs.pop("Get_results")
    try:
        I.call_function(fr, [0], self_obj=o)
    except XRaise as e:
        r.fail(fr.qualname, "raises", fr.file, fr.lineno, "InElastic.Set_Iter", f"raises {e}")
        return
    zo, zt = o.attrs.get(sim.mangle("__zOld")), o.attrs.get(sim.mangle("__z"))
    if vals(zo) != [1, 2] or vals(zt) != [1, 2]:
        r.fail(fr.qualname, "restore", fr.file, fr.lineno, "InElastic.Set_Iter", f"after Set_Iter(0) the committed state is {vals(zo)} and the trial state {vals(zt)}; iteration 0 was saved with [1, 2]")
    elif zo["A"] is zt["A"] or zo["A"] is entry["state"]["A"] or zt["A"] is entry["state"]["A"]:
        r.fail(fr.qualname, "restore-alias", fr.file, fr.lineno, "InElastic.Set_Iter", "after Set_Iter the committed state, the trial state and the stored iteration share an array")
    else:
        r.ok("Set_Iter(0): committed and trial state restored as independent copies")
