"""C19 -- history-dependent materials: the effect clause "integration never
modifies the committed state; only saving a converged step advances the
history".  Admissibility, dissipation and tangent consistency are inequalities
/ derivatives over run-time paths and are NOT decided."""

from __future__ import annotations

import ast

from ..flow import CallGraph, self_stores, param_inplace, alias_closure, inplace_sinks, returns_alias
from ..repo import AnalysisError, dotted, norm_text, walk_no_nested

BEH = "EasyFEA.Models.InElastic._behavior.Behavior"
SIM = "EasyFEA.Simulations._inelastic.InElastic"
MP = "EasyFEA.Models.InElastic._materialpoint"


def run(ctx):
    repo = ctx.repo
    ctx.level = "other"
    ctx.explanation = (
        "Decided (effect and who-may-call analysis): everything reachable from Behavior.Integrate inside the InElastic package neither stores to a Behavior attribute "
        "nor writes in place to an alias of the committed-state parameter (interprocedural alias analysis: views via subscripts, asarray/asfearray/reshape; fresh via arithmetic/copy); "
        "the committed state __zOld is written only by construction, lazy zero-initialisation, Save_Iter and Set_Iter, Construct_local_matrix_system writes the trial state only; "
        "Integrate is called only from assembly and MaterialPoint.Run, result queries read through Compute_stress; every local Newton update passes the bound on the multipliers; "
        "the no-internal-variable path returns the elastic stress and C. NOT decided: admissibility, dissipation inequality, tangent consistency, agreement of the two local solvers."
    )
    cg = CallGraph(repo)
    beh = repo.cls(BEH)
    fint = beh.methods["Integrate"]
    pkg_prefix = "EasyFEA.Models.InElastic"
    reach = cg.reachable([fint], stop=lambda f: not f.module.name.startswith(pkg_prefix))
    inpkg = [f for f in reach if f.module.name.startswith(pkg_prefix)]

    r1 = ctx.rule("R19.1", "Integrate is pure: no store to an attribute of the behaviour (or of its yield/hardening/rate objects) and no in-place write to an alias of the committed state zOld_e_pg, in anything it reaches", min_instances=10)
    for f in inpkg:
        r1.instance(fn=f.qualname)
        stores = self_stores(f)
        if f.name == "__init__":
            r1.ok()
            continue
        if stores:
            a, n, kind = stores[0]
            r1.fail(f.qualname, f"self-store:{a}", f.file, n.lineno, f.name, f"reachable from Behavior.Integrate and stores to self.{a} ({kind}): integration would carry hidden state between Newton iterations")
        else:
            r1.ok(f"{f.qualname}: no attribute store")
    # alias analysis of the committed-state parameter
    params = [p for p in fint.params() if p.lower().startswith("zold")]
    if not params:
        raise AnalysisError("Behavior.Integrate has no zOld parameter")
    r1.instance(fn=fint.qualname)
    sinks = param_inplace(cg, fint, set(params), depth=6)
    sinks = [(f, n, d) for f, n, d in sinks if f.module.name.startswith(pkg_prefix)]
    if sinks:
        for f, n, d in sinks[:5]:
            r1.fail(f.qualname, f"inplace:{norm_text(n)[:60]}", f.file, n.lineno, f.name, f"writes in place to an alias of the committed state passed to Integrate ({d}): `{norm_text(n)[:100]}`")
    else:
        r1.ok(f"no in-place write to an alias of {params} in {len(inpkg)} reachable functions")
    ctx.extra["reachable_from_Integrate"] = sorted(f.qualname for f in inpkg)

    # R19.2 commit discipline
    r2 = ctx.rule("R19.2", "commit discipline: __zOld is written only by __init__, the lazy zero-initialisation, Save_Iter and Set_Iter; Construct_local_matrix_system writes the trial state only; Integrate is called only from assembly and MaterialPoint.Run", min_instances=4)
    sim = repo.cls(SIM)
    zold = sim.mangle("__zOld")
    z = sim.mangle("__z")
    writers = {}
    for name, f in sim.methods.items():
        if f.cls is not sim:
            continue
        for a, n, kind in self_stores(f):
            if a in (zold, z):
                writers.setdefault(a, {}).setdefault(f.name, []).append((n, kind))
    r2.instance(fn=SIM)
    allowed_old = {"__init__", "Save_Iter", "Set_Iter", "__Get_state"}
    extra = set(writers.get(zold, {})) - allowed_old
    if not extra and writers.get(zold):
        r2.ok(f"__zOld writers: {sorted(writers[zold])}")
    else:
        for w in sorted(extra):
            n, kind = writers[zold][w][0]
            f = sim.methods[w]
            r2.fail(f.qualname, "commit-writer", f.file, n.lineno, w, f"`{w}` writes the committed state __zOld ({kind}); only Save_Iter / Set_Iter (and construction) may advance the history")
    # the lazy initialisation must only write zeros for a missing key
    g = sim.methods.get("__Get_state")
    if g is not None and "__Get_state" in writers.get(zold, {}):
        r2.instance(fn=g.qualname)
        ok = all(isinstance(n, ast.Assign) and isinstance(n.value, ast.Call) and (dotted(n.value.func) or "").endswith("State_zeros") for n, k in writers[zold]["__Get_state"])
        guarded = any(isinstance(n, ast.If) and isinstance(n.test, ast.Compare) and isinstance(n.test.ops[0], ast.NotIn) for n in ast.walk(g.node))
        if ok and guarded:
            r2.ok("__Get_state only inserts State_zeros for a missing key")
        else:
            r2.fail(g.qualname, "lazy-init", g.file, g.lineno, "__Get_state", "the lazy initialisation of the committed state does more than insert zeros for a missing element type")
    fc = sim.methods["Construct_local_matrix_system"]
    r2.instance(fn=fc.qualname)
    cw = {a for a, n, k in self_stores(fc)}
    if zold in cw:
        r2.fail(fc.qualname, "assembly-commits", fc.file, fc.lineno, "Construct_local_matrix_system", "assembly writes the committed state: the history would advance inside Newton iterations")
    elif z in cw:
        r2.ok("Construct_local_matrix_system stores the trial state __z only")
    else:
        r2.fail(fc.qualname, "no-trial", fc.file, fc.lineno, "Construct_local_matrix_system", "the trial state returned by Integrate is not kept: Save_Iter would have nothing to commit")
    # Save_Iter commits a copy of the trial state
    fs = sim.methods["Save_Iter"]
    r2.instance(fn=fs.qualname)
    commits = [n for a, n, k in self_stores(fs) if a == zold]
    if commits and all(".copy()" in norm_text(n.value) and (z.replace("_InElastic", "self.") in norm_text(n.value) or "self.__z" in norm_text(n.value)) for n in commits):
        r2.ok("Save_Iter: __zOld = copies of the trial state")
    else:
        r2.fail(fs.qualname, "commit-copy", fs.file, fs.lineno, "Save_Iter", "Save_Iter does not commit a copy of the trial state")
    # who calls Integrate
    callers = []
    for f in repo.all_functions():
        for n in walk_no_nested(f.node):
            if isinstance(n, ast.Call) and isinstance(n.func, ast.Attribute) and n.func.attr == "Integrate" and f is not fint:
                callers.append((f, n))
    for f, n in callers:
        r2.instance(fn=f.qualname)
        okc = (f.cls is sim and f.name == "Construct_local_matrix_system") or f.module.name.startswith(MP) or f.module.name.startswith("EasyFEA.Models.InElastic")
        if okc:
            r2.ok(f"{f.qualname} calls Integrate")
        else:
            r2.fail(f.qualname, "caller", f.file, n.lineno, f.name, "calls Behavior.Integrate outside assembly / MaterialPoint.Run (result queries must read the committed state through Compute_stress)")
    if len(callers) < 2:
        raise AnalysisError(f"R19.2: only {len(callers)} Integrate call sites found")

    # R19.3 bound on every Newton update
    r3 = ctx.rule("R19.3", "admissible updates: the local Newton loop applies __Bound to every update of the unknowns", min_instances=1)
    ff = beh.methods.get("__Flow")
    if ff is None:
        raise AnalysisError("Behavior.__Flow not found")
    loops = [n for n in ast.walk(ff.node) if isinstance(n, (ast.For, ast.While))]
    r3.instance(fn=ff.qualname)
    ok = False
    for lp in loops:
        body = norm_text(lp)
        if "__Bound(" in body and ("np.linalg.solve" in body or "solve(" in body or "__Jacobian(" in body):
            ok = True
    if ok:
        r3.ok("__Flow: the Newton loop body passes the update through __Bound")
    else:
        r3.fail(ff.qualname, "bound", ff.file, ff.lineno, "__Flow", "a Newton update of the local unknowns is not passed through __Bound (plastic multiplier increments could become negative)")

    # R19.4 elastic degeneration
    r4 = ctx.rule("R19.4", "a material without internal variables takes the elastic path: Compute_sigma and the elastic C", min_instances=1)
    f3 = beh.methods["__Integrate_3d"]
    r4.instance(fn=f3.qualname)
    okp = False
    for n in ast.walk(f3.node):
        if isinstance(n, ast.If) and ("layout.n" in norm_text(n.test) or ".n == 0" in norm_text(n.test) or "not self" in norm_text(n.test)):
            t = norm_text(ast.Module(body=n.body, type_ignores=[]))
            if "Compute_sigma" in t and "return" in t:
                okp = True
    if okp:
        r4.ok("__Integrate_3d: n == 0 returns Compute_sigma(...) and the elastic tangent")
    else:
        r4.fail(f3.qualname, "elastic-path", f3.file, f3.lineno, "__Integrate_3d", "no early elastic return for a material without internal variables")
    condensation_rule(ctx, beh)
    evaluation_point_rule(ctx, beh)


def condensation_rule(ctx, beh):
    """R19.5: the plane-stress tangent is the Schur complement of the zz row/column of the 3-D algorithmic tangent,
    for a tangent that is NOT assumed symmetric (recall terms of non-associated / kinematic hardening)."""
    from ..alg import Poly, Rat, is_zero
    from ..xeval import Interp, XObj
    from ..xarray import XArray
    from ..femchain import XFe, fe_hook_full

    repo = ctx.repo
    r = ctx.rule("R19.5", "plane-stress condensation: C2d[i,j] = C[I_i,I_j] - C[I_i,zz] C[zz,I_j] / C[zz,zz] on a general (non-symmetric) 6x6 tangent, I = the in-plane Kelvin slots", min_instances=1)
    f = beh.methods.get("__Condense")
    if f is None:
        raise AnalysisError("Behavior.__Condense not found")
    mod = f.module
    I = Interp(repo)
    I.call_hook = fe_hook_full
    idx = [int(x) for x in XArray.from_nested(I.eval_expr(ast.Name(id="IDX_2D", ctx=ast.Load(), lineno=f.lineno, col_offset=0), {}, f.file, mod)).data]
    zz = int(I.eval_expr(ast.Name(id="ZZ", ctx=ast.Load(), lineno=f.lineno, col_offset=0), {}, f.file, mod))
    r.instance(fn=f.qualname)
    if idx != [0, 1, 5] or zz != 2:
        r.fail(f.qualname, "slots", f.file, f.lineno, "__Condense", f"in-plane Kelvin slots {idx} / zz slot {zz}: expected [0, 1, 5] (xx, yy, xy) and 2")
        return
    C = XFe((1, 1, 6, 6), [Poly.var(f"c{i}{j}") for i in range(6) for j in range(6)])
    out = XArray.from_nested(I.call_function(f, [C], self_obj=XObj(beh, {})))
    bad = None
    if out.shape != (1, 1, 3, 3):
        bad = f"result has shape {out.shape}"
    else:
        for a, i in enumerate(idx):
            for b, j in enumerate(idx):
                want = Rat.of(C[0, 0, i, j]) - Rat.of(C[0, 0, i, zz] * C[0, 0, zz, j]) / Rat.of(C[0, 0, zz, zz])
                if not is_zero(Rat.of(out[0, 0, a, b]) - want):
                    bad = f"entry ({a},{b}) = {out[0, 0, a, b]!r}, expected c{i}{j} - c{i}{zz}*c{zz}{j}/c{zz}{zz}"
    if bad:
        r.fail(f.qualname, "schur", f.file, f.lineno, "__Condense", f"the condensed tangent is not the Schur complement of the zz row and column: {bad} (a symmetric 3-D tangent hides this)")
    else:
        r.ok("__Condense == Schur complement of (zz, zz), row and column kept distinct")


def evaluation_point_rule(ctx, beh):
    """R19.6: in the local residual and Jacobian the hardening laws are evaluated at the updated state value
    zOld + du (never at the bare increment), and both functions evaluate them at the same expression."""
    from ..flow import Locals

    repo = ctx.repo
    r = ctx.rule("R19.6", "evaluation point: every state value handed to the hardening / back-stress / stress functions in __Residual and __Jacobian is a slot of (committed state + increment); R and dR are evaluated at the same point", min_instances=3)
    texts = {}
    for nm in ("__Residual", "__Jacobian"):
        f = beh.methods.get(nm)
        if f is None:
            raise AnalysisError(f"Behavior.{nm} not found")
        loc = Locals(f.node)
        params = [p for p in f.params() if p != "self"]

        def is_state_sum(e):
            # <param> + <param>[..., :n]   (either order)
            if not (isinstance(e, ast.BinOp) and isinstance(e.op, ast.Add)):
                return False
            a, b = e.left, e.right
            for x, y in ((a, b), (b, a)):
                if isinstance(x, ast.Name) and x.id in params and isinstance(y, ast.Subscript) and isinstance(y.value, ast.Name) and y.value.id in params and y.value.id != x.id:
                    return True
            return False

        def base_of(e):
            while isinstance(e, ast.Subscript):
                e = e.value
            return e

        for n in walk_no_nested(f.node):
            if not (isinstance(n, ast.Call) and isinstance(n.func, ast.Attribute) and n.args):
                continue
            tgt = norm_text(n.func.value)
            meth = n.func.attr
            is_hard = "hardening" in tgt and meth in ("R", "dR")
            is_state_fn = tgt == "self" and meth in ("Compute_back_stress", "Compute_sigma", "Compute_elastic_strain")
            if not (is_hard or is_state_fn):
                continue
            arg = n.args[-1] if is_state_fn else n.args[0]
            ex = loc.expand(arg)
            r.instance(fn=f.qualname)
            if is_state_sum(base_of(ex)):
                r.ok(f"{nm}: {tgt}.{meth}(...) evaluated at a slot of zOld + du")
                if is_hard:
                    texts[(nm, meth)] = norm_text(ex)
            else:
                r.fail(f.qualname, f"point:{meth}", f.file, n.lineno, nm, f"`{norm_text(n)[:70]}` is evaluated at `{norm_text(ex)[:90]}`, which is not a slot of (committed state + increment): the law sees the increment (or the old state) instead of the updated value, so accumulated hardening is lost / the return lands off the current surface")
    if ("__Residual", "R") in texts and ("__Jacobian", "dR") in texts:
        fr, fj = beh.methods["__Residual"], beh.methods["__Jacobian"]
        # compare after mapping each function's parameter names to its position-independent role (the caller's argument text)
        r.instance(fn=fj.qualname)

        def canon(fn, text):
            ps = [p for p in fn.params() if p != "self"]
            calls = [n for m in beh.methods.values() if m.cls is beh for n in ast.walk(m.node) if isinstance(n, ast.Call) and isinstance(n.func, ast.Attribute) and n.func.attr in (fn.node.name, "_Behavior" + fn.node.name)]
            if not calls:
                return None
            c = calls[0]
            t = ast.parse(text, mode="eval").body
            m = {p: a for p, a in zip(ps, c.args)}

            class S(ast.NodeTransformer):
                def visit_Name(self, node):
                    return m.get(node.id, node)

            return norm_text(S().visit(t))

        a, b = canon(fr, texts[("__Residual", "R")]), canon(fj, texts[("__Jacobian", "dR")])
        if a is None or b is None or a == b:
            r.ok("R (residual) and dR (Jacobian) are evaluated at the same state value")
        else:
            r.fail(fj.qualname, "point:R-vs-dR", fj.file, fj.lineno, "__Jacobian", f"the residual evaluates the hardening force at `{a[:80]}` but the Jacobian differentiates it at `{b[:80]}`: the local Newton matrix is not the derivative of the residual")
