"""Per-point reference semantics for user-written weak forms (C13, C12).

``PT`` is one tensor at one (element, integration point): plain numpy semantics on a small exact array.  ``USpec``
is a trial / test basis function at that point.  A form written as Python source is evaluated twice:

* by ``sa.xeval`` on the repository's ``Field`` / ``FeArray`` / ``BiLinearForm`` source (implementation), and
* by plain Python ``eval`` on ``USpec`` / ``PT`` objects at every (e, p) (what the form means),

and the integrated element arrays are compared entry by entry.  Nothing here reads the repository.
"""

from __future__ import annotations

from fractions import Fraction

from .alg import Poly, Rat, Q
from .xarray import XArray, einsum as xe, matmul as x_matmul


def _r(x):
    return Rat.of(x) if isinstance(x, Poly) else x


def _arr(x):
    if isinstance(x, PT):
        return x.v
    return x


class PT:
    """a tensor (exact XArray) or scalar at one point"""

    __array_priority__ = 100

    def __init__(self, v):
        if isinstance(v, PT):
            v = v.v
        if isinstance(v, XArray):
            v = XArray(v.shape, [_r(x) for x in v.data])
            if v.ndim == 0:
                v = v.data[0]
        else:
            v = _r(v)
        self.v = v

    @property
    def rank(self):
        return self.v.ndim if isinstance(self.v, XArray) else 0

    def _bin(self, o, f, refl=False):
        if isinstance(o, USpec):
            o = o.value
        b = _arr(o)
        if isinstance(b, XArray):
            b = XArray(b.shape, [_r(x) for x in b.data])
        else:
            b = _r(b)
        a = self.v
        if isinstance(a, XArray):
            return PT(XArray._binop(a, b, f, refl))
        if isinstance(b, XArray):
            return PT(XArray._binop(b, a, f, not refl))
        return PT(f(b, a) if refl else f(a, b))

    def __add__(self, o):
        return self._bin(o, lambda x, y: x + y)

    def __radd__(self, o):
        return self._bin(o, lambda x, y: x + y, True)

    def __sub__(self, o):
        return self._bin(o, lambda x, y: x - y)

    def __rsub__(self, o):
        return self._bin(o, lambda x, y: x - y, True)

    def __mul__(self, o):
        return self._bin(o, lambda x, y: x * y)

    def __rmul__(self, o):
        return self._bin(o, lambda x, y: x * y, True)

    def __truediv__(self, o):
        return self._bin(o, lambda x, y: x / y)

    def __rtruediv__(self, o):
        return self._bin(o, lambda x, y: x / y, True)

    def __neg__(self):
        return self * Q(-1)

    def _contract(self, o, k):
        if isinstance(o, USpec):
            o = o.value
        a, b = self.v, _arr(o)
        if not isinstance(b, XArray):
            raise TypeError("contraction with a scalar")
        b = XArray(b.shape, [_r(x) for x in b.data])
        letters = "abcdefgh"
        ra, rb = a.ndim, b.ndim
        ia = letters[:ra]
        ib = ia[ra - k:] + letters[ra: ra + rb - k]
        out = ia[: ra - k] + ib[k:]
        return PT(xe(f"{ia},{ib}->{out}", a, b))

    def dot(self, o):
        return self._contract(o, 1)

    def ddot(self, o):
        return self._contract(o, 2)

    def __matmul__(self, o):
        if isinstance(o, USpec):
            o = o.value
        b = _arr(o)
        b = XArray(b.shape, [_r(x) for x in b.data])
        return PT(x_matmul(self.v, b))

    def __rmatmul__(self, o):
        a = _arr(o)
        a = XArray(a.shape, [_r(x) for x in a.data])
        return PT(x_matmul(a, self.v))

    @property
    def T(self):
        if self.rank >= 2:
            return PT(self.v.transpose())
        return self


class USpec:
    """basis function (node a, component c) at one point: value N_a, gradient dN_a (x) e_c"""

    def __init__(self, N, dN, dof_n, comp):
        # a scalar field is the 1-vector [N_a]; a vector field is N_a e_c (the shape function carried by its component)
        self.value = PT(XArray((1,), [N])) if dof_n == 1 else PT(XArray((dof_n,), [N if c == comp else Q(0) for c in range(dof_n)]))
        dim = len(dN)
        if dof_n == 1:
            self.grad = PT(XArray((dim,), list(dN)))
        else:
            data = []
            for k in range(dim):
                for c in range(dof_n):
                    data.append(dN[k] if c == comp else Q(0))
            self.grad = PT(XArray((dim, dof_n), data))

    def __call__(self):
        return self.value

    def dot(self, o):
        return self.value.dot(o)

    def ddot(self, o):
        return self.value.ddot(o)

    # what the operators mean: the field's array on the side it was written
    def __add__(self, o):
        return self.value + o

    def __radd__(self, o):
        return o + self.value

    def __sub__(self, o):
        return self.value - o

    def __rsub__(self, o):
        return PT(o) - self.value

    def __mul__(self, o):
        return self.value * o

    def __rmul__(self, o):
        return self.value * o

    def __truediv__(self, o):
        return self.value / o

    def __rtruediv__(self, o):
        return PT(o) / self.value

    def __matmul__(self, o):
        return self.value @ o

    def __rmatmul__(self, o):
        return PT(o) @ self.value


def Sym_Grad(u):
    g = u.grad
    return Q(1, 2) * (g.T + g)


def Trace(m):
    m = PT(m)
    n = m.v.shape[-1]
    tot = 0
    for i in range(n):
        tot = tot + m.v[i, i]
    return PT(tot)


def Transpose(m):
    return PT(m).T
