"""Interpretation of the repository's ``FeArray`` *implementation* (EasyFEA/FEM/_linalg.py) under a model of
numpy's subclass protocols.

``FeV`` is a value whose run-time type is the repository's ``FeArray``.  The model states what *numpy* does
(trusted base, written once, independent of the repository):

* an arithmetic operator with a FeArray operand is the corresponding ufunc, and a ufunc with an operand that
  overrides ``__array_ufunc__`` calls that override: ``FeArray.__array_ufunc__(fe, ufunc, "__call__", *inputs)``;
  ``ufunc.reduce`` (behind ``ndarray.sum/prod/max/min/all/any``) does the same with ``method="reduce"``;
* ``a @ b``: Python calls ``type(a).__matmul__`` -- the repository's own method when ``a`` is a FeArray; for
  ``ndarray @ FeArray`` and for ``ndarray.__matmul__`` reached through ``super()`` it is the gufunc ``np.matmul``
  (signature not None) dispatched through ``__array_ufunc__``;
* a public numpy function (``np.einsum``, ``np.sum``, ``np.swapaxes`` ...) with a FeArray among its arguments calls
  ``FeArray.__array_function__(fe, func, types, args, kwargs)``; ``np.asarray`` / ``np.ndim`` / ``np.shape`` are
  not dispatched (their result does not depend on the type);
* ``ndarray.view(cls)``, indexing, ``ndarray.reshape/transpose/copy`` keep the subclass; ``np.asarray`` and
  ``view(np.ndarray)`` drop it;
* a ufunc called on plain arrays is plain numpy broadcasting.

What the *repository* does inside those overrides (``_align``, ``__wrap``, ``_FeShape``, ``_Base``, ``_Evaluate``,
``T``, ``__matmul__``, ``dot``, ``ddot``, the generated reducers, ``reshape``, ``integrate``, ``asfearray``,
``broadcast``, ``__new__``) is interpreted from the source by ``sa.xeval``.
"""

from __future__ import annotations

import ast
from fractions import Fraction

from .alg import Poly, Q
from .repo import AnalysisError, ClassInfo
from .xarray import XArray, XArrayError, matmul as x_matmul
from .xeval import Interp, XObj, XRaise, Closure, _NpAttr, _Bound, _NP_FUNCS, Uninterpretable, exact

LA = "EasyFEA.FEM._linalg"
NDARRAY = _NpAttr("ndarray")
NOT_DISPATCHED = {"asarray", "array", "asanyarray", "ndim", "shape", "size", "broadcast_shapes", "newaxis", "zeros", "ones", "arange", "eye", "float64"}


def plain(a):
    """drop the subclass"""
    if isinstance(a, FeV):
        return XArray(a.shape, a.data)
    return a


def has_fe(x):
    if isinstance(x, FeV):
        return x
    if isinstance(x, (list, tuple)):
        for y in x:
            r = has_fe(y)
            if r is not None:
                return r
    if isinstance(x, dict):
        for y in x.values():
            r = has_fe(y)
            if r is not None:
                return r
    return None


class UFunc:
    """A numpy ufunc: callable on plain operands only."""

    _xeval_open = True

    def __init__(self, name, fn, signature=None, nin=2):
        self.name, self.fn, self.signature, self.nin = name, fn, signature, nin
        self.nout = 2 if name in ("divmod", "modf", "frexp") else 1
        self.__name__ = name

    def _check_plain(self, args):
        if has_fe(list(args)) is not None:
            raise XRaise("RecursionError", f"np.{self.name} was handed a FeArray operand from inside __array_ufunc__ (the call would come straight back)")

    def __call__(self, *args, **kwargs):
        self._check_plain(args)
        kw = {k: v for k, v in kwargs.items() if v is not None}
        out, where = kw.pop("out", None), kw.pop("where", None)
        if kw:
            raise AnalysisError(f"ufunc keyword arguments {sorted(kw)} are not modelled")
        if out is not None or where is not None:
            # numpy: the operands, the mask and the output broadcast together; where the mask is False the output keeps its value
            self._check_plain([x for x in (out if isinstance(out, tuple) else (out,)) if x is not None] + ([where] if where is not None else []))
            if self.nout != 1 or self.name == "matmul":
                raise AnalysisError("out= / where= of a multi-output or generalised ufunc is not modelled")
            try:
                res = self(*args)
            except XArrayError as e:
                if "broadcast" in str(e):
                    raise XRaise("ValueError", f"operands could not be broadcast together ({e})")
                raise
            o = out[0] if isinstance(out, tuple) else out
            if o is None:
                raise AnalysisError("where= without out= leaves uninitialised entries: not modelled")
            R = res if isinstance(res, XArray) else XArray((), [res])
            if where is None:
                Rb = R.broadcast_to(o.shape)
                for k in range(o.size):
                    o.data[k] = Rb.data[k]
                return o
            W = where if isinstance(where, XArray) else XArray((), [where])
            try:
                sh = XArray._bshape(XArray._bshape(R.shape, W.shape), o.shape)
            except XArrayError as e:
                raise XRaise("ValueError", f"operands could not be broadcast together ({e})")
            if sh != o.shape:
                raise XRaise("ValueError", f"non-broadcastable output operand with shape {o.shape} doesn't match the broadcast shape {sh}")
            try:
                Rb, Wb = R.broadcast_to(sh), W.broadcast_to(sh)
            except XArrayError as e:
                raise XRaise("ValueError", f"operands could not be broadcast together ({e})")
            for k in range(o.size):
                if not isinstance(Wb.data[k], bool):
                    raise AnalysisError("where= mask with undecided entries")
                if Wb.data[k]:
                    o.data[k] = Rb.data[k]
            return o
        if self.name == "divmod":
            a, b = (XArray.from_nested(x) if isinstance(x, (list, tuple)) else x for x in args)
            fl = lambda x, y: (exact(x) // exact(y))
            md = lambda x, y: (exact(x) % exact(y))
            two = []
            for f_ in (fl, md):
                two.append(XArray._binop(a, b, f_) if isinstance(a, XArray) else (XArray._binop(b, a, f_, True) if isinstance(b, XArray) else f_(a, b)))
            return tuple(two)
        if self.name == "matmul":
            return x_matmul(XArray.from_nested(args[0]), XArray.from_nested(args[1]))
        a, b = args
        if isinstance(a, (list, tuple)):
            a = XArray.from_nested(a)
        if isinstance(b, (list, tuple)):
            b = XArray.from_nested(b)
        if isinstance(a, XArray):
            return XArray._binop(a, b, self.fn)
        if isinstance(b, XArray):
            return XArray._binop(b, a, self.fn, True)
        return self.fn(exact(a), exact(b))

    def reduce(self, a, axis=0, keepdims=False, **kwargs):
        self._check_plain([a])
        a = XArray.from_nested(a)
        res = reduce_plain(a, self.fn, axis)
        if keepdims:
            axes = tuple(range(a.ndim)) if axis is None else tuple(int(x) % a.ndim for x in (axis if isinstance(axis, tuple) else (axis,)))
            shape = tuple(1 if i in axes else a.shape[i] for i in range(a.ndim))
            res = XArray(shape, list(res.data) if isinstance(res, XArray) else [res])
        return res

    def __repr__(self):
        return f"<ufunc {self.name}>"


def reduce_plain(a: XArray, fn, axis):
    if axis is None:
        axes = tuple(range(a.ndim))
    elif isinstance(axis, tuple):
        axes = tuple(int(x) % a.ndim for x in axis)
    else:
        axes = (int(axis) % a.ndim,)
    keep = [i for i in range(a.ndim) if i not in axes]
    moved = a.transpose(*(keep + list(axes))) if a.ndim else a
    n = 1
    for i in axes:
        n *= a.shape[i]
    out = []
    for i in range(0, moved.size, n):
        chunk = moved.data[i : i + n]
        tot = chunk[0]
        for x in chunk[1:]:
            tot = fn(tot, x)
        out.append(tot)
    shape = tuple(a.shape[i] for i in keep)
    if not shape:
        return out[0]
    return XArray(shape, out)


class SymCond:
    """an undecided elementwise comparison of symbolic values (kept as data; only a rule that knows the branch may use it)"""

    _xeval_open = True

    def __init__(self, op, a, b):
        self.op, self.a, self.b = op, a, b

    def __bool__(self):
        raise AnalysisError(f"truth value of the undecided comparison {self.a!r} {self.op} {self.b!r}")

    def __repr__(self):
        return f"SymCond({self.a!r} {self.op} {self.b!r})"


def _scmp(op):
    import operator

    f = {">": operator.gt, "<": operator.lt, ">=": operator.ge, "<=": operator.le}[op]

    def cmp(x, y):
        x, y = exact(x), exact(y)
        cx = x.const_value() if isinstance(x, Poly) and x.is_const() else x
        cy = y.const_value() if isinstance(y, Poly) and y.is_const() else y
        if isinstance(cx, Poly) or isinstance(cy, Poly):
            return SymCond(op, x, y)
        return bool(f(cx, cy))

    return cmp


_UF = {
    "greater": _scmp(">"),
    "less": _scmp("<"),
    "greater_equal": _scmp(">="),
    "less_equal": _scmp("<="),
    "add": lambda x, y: x + y,
    "subtract": lambda x, y: x - y,
    "multiply": lambda x, y: x * y,
    "true_divide": lambda x, y: x / y,
    "power": lambda x, y: x**y,
    "maximum": lambda x, y: x if x >= y else y,
    "minimum": lambda x, y: x if x <= y else y,
}
_REDUCER_UFUNC = {"sum": "add", "prod": "multiply", "max": "maximum", "min": "minimum"}


class FeV(XArray):
    """A value of the repository's FeArray type (implementation under analysis)."""

    __slots__ = ()
    _is_fearray_model = True
    model = None  # the active Model

    @staticmethod
    def of(a):
        a = XArray.from_nested(a)
        return FeV(a.shape, a.data)

    # numpy keeps the subclass through indexing / reshape / transpose / copy
    def __getitem__(self, key):
        r = XArray.__getitem__(self, key)
        return FeV(r.shape, r.data) if isinstance(r, XArray) else r

    def reshape(self, *shape):
        r = XArray.reshape(self, *shape)
        return FeV(r.shape, r.data)

    def transpose(self, *axes):
        r = XArray.transpose(self, *axes)
        return FeV(r.shape, r.data)

    def copy(self):
        return FeV(self.shape, list(self.data))

    # operators: every one is a ufunc call dispatched to the override
    def _binop(self, o, f, reflected=False, name=None):
        raise AnalysisError("FeV arithmetic must go through the ufunc protocol")

    def _uf(self, name, o, reflected):
        ins = (o, self) if reflected else (self, o)
        return FeV.model.ufunc_call(name, ins)

    def __add__(self, o):
        return self._uf("add", o, False)

    def __radd__(self, o):
        return self._uf("add", o, True)

    def __sub__(self, o):
        return self._uf("subtract", o, False)

    def __rsub__(self, o):
        return self._uf("subtract", o, True)

    def __mul__(self, o):
        return self._uf("multiply", o, False)

    def __rmul__(self, o):
        return self._uf("multiply", o, True)

    def __truediv__(self, o):
        return self._uf("true_divide", o, False)

    def __rtruediv__(self, o):
        return self._uf("true_divide", o, True)

    def __pow__(self, o):
        return self._uf("power", o, False)

    def __neg__(self):
        return self._uf("multiply", Q(-1), True)

    def __gt__(self, o):
        return self._uf("greater", o, False)

    def __lt__(self, o):
        return self._uf("less", o, False)

    def __ge__(self, o):
        return self._uf("greater_equal", o, False)

    def __le__(self, o):
        return self._uf("less_equal", o, False)

    def __matmul__(self, o):
        return FeV.model.call_method(self, "__matmul__", [o])

    def __rmatmul__(self, o):
        # ndarray @ FeArray: ndarray.__matmul__ -> np.matmul -> the override of the FeArray operand
        if isinstance(o, XObj):
            return NotImplemented
        # python gives the reflected method of a subclass priority over ndarray.__matmul__ when the subclass overrides it
        own = FeV.model.cls.methods.get("__rmatmul__")
        if own is not None:
            return FeV.model.I.call_function(own, [o if isinstance(o, XArray) else XArray.from_nested(o)], {}, self_obj=self)
        return FeV.model.ufunc_call("matmul", (XArray.from_nested(o), self))

    def __repr__(self):
        return f"FeV{self.shape}"


class Model:
    """Interpreter of the repository's FeArray class under the protocol model above."""

    def __init__(self, repo, max_steps=20_000_000):
        self.repo = repo
        self.mod = repo.module(LA)
        self.cls: ClassInfo = repo.cls(f"{LA}.FeArray")
        self.I = Interp(repo, extra_builtins={"type": self.type_of, "getattr": self.getattr_, "locals": lambda: {}}, max_steps=max_steps)
        self.I.attr_hook = self.attr_hook
        self.I.call_hook = self.call_hook
        self.I.super_hook = self.super_hook
        self.user_call_hook = None
        FeV.model = self
        self.wrapped = self._wrapped_reducers()

    # -- class structure --------------------------------------------------
    def _wrapped_reducers(self):
        for st in self.cls.node.body:
            if isinstance(st, ast.For) and isinstance(st.iter, ast.Tuple) and all(isinstance(e, ast.Constant) for e in st.iter.elts):
                for sub in ast.walk(st):
                    if isinstance(sub, ast.Call) and isinstance(sub.func, ast.Name) and sub.func.id in self.cls.methods:
                        return {e.value: sub.func.id for e in st.iter.elts}
        return {}

    def method(self, name):
        if name.startswith("__") and not name.endswith("__"):
            name = self.cls.mangle(name)
        return self.repo.lookup_method(self.cls, name)

    def call_method(self, fe, name, args, kwargs=None):
        f = self.method(name)
        if f is None:
            raise AnalysisError(f"FeArray.{name} not found")
        if f.is_static():
            return self.I.call_function(f, list(args), kwargs or {})
        return self.I.call_function(f, list(args), kwargs or {}, self_obj=fe)

    def static(self, name, *args, **kwargs):
        return self.I.call_function(self.method(name), list(args), kwargs)

    def func(self, name, *args, **kwargs):
        return self.I.call_function(self.repo.func(f"{LA}.{name}"), list(args), kwargs)

    # -- numpy protocol model -----------------------------------------------
    def ufunc_call(self, name, inputs, method="__call__", **kwargs):
        fe = has_fe(list(inputs))
        if fe is None:
            raise AnalysisError("ufunc dispatch without a FeArray operand")
        uf = UFunc(name, _UF.get(name), signature="(n?,k),(k,m?)->(n?,m?)" if name == "matmul" else None)
        f = self.method("__array_ufunc__")
        return self.I.call_function(f, [uf, method] + list(inputs), kwargs, self_obj=fe)

    def function_call(self, path, args, kwargs):
        fe = has_fe([list(args), kwargs])
        f = self.method("__array_function__")
        return self.I.call_function(f, [_NpAttr(path), (self.cls,), tuple(args), dict(kwargs)], {}, self_obj=fe)

    def nd_method(self, name):
        """np.ndarray.<name> as an unbound method (used by the generated reducers and by super())"""

        def m(selfv, *args, **kwargs):
            if name in _REDUCER_UFUNC:
                axis = kwargs.get("axis", args[0] if args else None)
                if isinstance(selfv, FeV):
                    return self.ufunc_call(_REDUCER_UFUNC[name], (selfv,), method="reduce", axis=axis)
                return reduce_plain(XArray.from_nested(selfv), _UF[_REDUCER_UFUNC[name]], axis)
            if name == "mean":
                axis = kwargs.get("axis", args[0] if args else None)
                tot = m_sum(selfv, axis=axis)
                a = XArray.from_nested(plain(selfv))
                axes = tuple(range(a.ndim)) if axis is None else (axis if isinstance(axis, tuple) else (axis,))
                n = 1
                for i in axes:
                    n *= a.shape[int(i) % a.ndim]
                return tot * Q(1, n)
            if name == "var":
                # numpy/_core/_methods.py::_var, the part that matters for a subclass: the mean is taken with keepdims through
                # umr_sum (= np.add.reduce, dispatched), divided in place, SUBTRACTED FROM THE ARRAY AS IT WAS GIVEN (a subclass
                # instance: the subtraction is dispatched to its __array_ufunc__), squared in place and summed again
                axis = kwargs.get("axis", args[0] if args else None)
                a0 = XArray.from_nested(plain(selfv))
                axes = tuple(range(a0.ndim)) if axis is None else (axis if isinstance(axis, tuple) else (axis,))
                n = 1
                for i in axes:
                    n *= a0.shape[int(i) % a0.ndim]
                isfe = isinstance(selfv, FeV)
                arrmean = self.ufunc_call("add", (selfv,), method="reduce", axis=axis, keepdims=True) if isfe else UFunc("add", _UF["add"]).reduce(selfv, axis=axis, keepdims=True)
                arrmean = arrmean * Q(1, n) if not isinstance(arrmean, FeV) else FeV(arrmean.shape, [x * Q(1, n) for x in arrmean.data])
                x = self.ufunc_call("subtract", (selfv, arrmean)) if (isfe or isinstance(arrmean, FeV)) else XArray._binop(XArray.from_nested(selfv), arrmean, _UF["subtract"])
                xx = type(x)(x.shape, [v * v for v in x.data]) if isinstance(x, XArray) else x * x
                tot = self.ufunc_call("add", (xx,), method="reduce", axis=axis) if isinstance(xx, FeV) else UFunc("add", _UF["add"]).reduce(xx, axis=axis)
                return tot * Q(1, n)
            if name in ("all", "any") and not args and not kwargs:
                vals = list(XArray.from_nested(plain(selfv)).data)
                if not all(isinstance(v, bool) for v in vals):
                    from .xeval import exact as _exact

                    vals = [(v if isinstance(v, bool) else not (_exact(v) == 0)) for v in vals]
                return all(vals) if name == "all" else any(vals)
            if name == "ravel":
                a = selfv
                r = XArray.ravel(a)
                return FeV(r.shape, r.data) if isinstance(a, FeV) else r
            if name == "reshape":
                return selfv.reshape(*args)
            if name == "__matmul__":
                if isinstance(selfv, FeV) or isinstance(args[0], FeV):
                    return self.ufunc_call("matmul", (selfv, args[0]))
                return x_matmul(selfv, args[0])
            raise AnalysisError(f"np.ndarray.{name} is not modelled")

        m_sum = None

        def _sum(selfv, axis=None):
            if isinstance(selfv, FeV):
                return self.ufunc_call("add", (selfv,), method="reduce", axis=axis)
            return reduce_plain(XArray.from_nested(selfv), _UF["add"], axis)

        m_sum = _sum
        return m

    # -- hooks ----------------------------------------------------------------
    def type_of(self, x):
        if isinstance(x, FeV):
            return self.cls
        if isinstance(x, XArray):
            return NDARRAY
        if isinstance(x, XObj):
            return x.cls
        return type(x)

    def getattr_(self, o, n, d=None):
        if isinstance(o, _NpAttr) and o.path == "ndarray":
            return self.nd_method(n)
        if isinstance(o, UFunc):
            return getattr(o, n)
        if isinstance(o, XObj):
            if n in o.attrs:
                return o.attrs[n]
            f = self.repo.lookup_method(o.cls, n)
            if f is not None:
                # a property / method of the modelled object: as in o.n
                if f.is_property():
                    return self.I.call_function(f, [], self_obj=o)
                return _Bound(self.I, f, None if f.is_static() else o)
            ce, owner = self.repo.class_attr(o.cls, n)
            if ce is not None:
                return self.I.eval_expr(ce, {}, owner.file, owner.module)
            return d
        if isinstance(o, FeV):
            try:
                r = self.attr_hook(o, n)
            except AnalysisError:
                return d
            return d if r is NotImplemented else r
        if isinstance(o, XArray):
            return getattr(o, n, d) if n in ("ndim", "shape", "size") else d
        return getattr(o, n, d)

    def attr_hook(self, obj, attr):
        if isinstance(obj, FeV):
            if attr in self.wrapped:
                maker = self.method(self.wrapped[attr])
                red = self.I.call_function(maker, [attr])
                return lambda *a, **k: red(obj, *a, **k)
            f = self.method(attr)
            if f is not None:
                if f.is_property():
                    return self.I.call_function(f, [], self_obj=obj)
                if f.is_static():
                    return _Bound(self.I, f, None)
                return _Bound(self.I, f, obj)
            if attr == "view":
                return lambda cls=None: self.view(obj, cls)
            if attr in ("shape", "ndim", "size", "flags", "dtype"):
                return getattr(obj, attr)
            if attr in ("transpose", "copy"):
                return getattr(obj, attr)
            if attr == "astype":
                return lambda *a, **k: obj
            if attr in ("swapaxes", "squeeze", "flatten", "repeat", "take", "clip", "round", "conj", "conjugate", "tolist", "item", "fill", "nonzero", "argmax", "argmin", "cumsum", "dot"):
                # ndarray methods that are not ufunc / function dispatched: numpy runs them on the data and returns an array of
                # the same subclass (views and copies of a subclass keep the subclass); scalars / lists / index tuples stay plain
                fn = _NP_FUNCS.get(attr if attr not in ("conjugate",) else "conj")

                def _m(*a, _obj=obj, _attr=attr, _fn=fn, **k):
                    if _attr == "tolist":
                        return XArray.tolist(_obj)
                    if _attr == "item":
                        return _obj.data[0] if not a else XArray.__getitem__(_obj, tuple(a) if len(a) > 1 else a[0])
                    if _attr == "flatten":
                        res = XArray.ravel(_obj)
                    elif _attr == "fill":
                        _obj.data[:] = [a[0]] * len(_obj.data)
                        return None
                    elif _fn is None:
                        raise AnalysisError(f"FeArray attribute {_attr} is not modelled")
                    else:
                        res = _fn(plain(_obj), *a, **k)
                    return FeV(res.shape, res.data) if isinstance(res, XArray) and _attr not in ("nonzero", "argmax", "argmin") else res

                return _m
            raise AnalysisError(f"FeArray attribute {attr} is not modelled")
        if isinstance(obj, XArray) and attr == "view":
            return lambda cls=None: self.view(obj, cls)
        if isinstance(obj, UFunc):
            return getattr(obj, attr)
        return NotImplemented

    def view(self, a, cls):
        # a view shares its storage with the array it was taken from (writes through either are seen by both)
        if isinstance(cls, ClassInfo) and cls is self.cls:
            v = FeV(a.shape, a.data)
        elif cls is None or (isinstance(cls, _NpAttr) and cls.path == "ndarray"):
            v = XArray(a.shape, a.data)
        else:
            raise AnalysisError(f"view({cls!r}) is not modelled")
        v.data = a.data
        v.dtype = a.dtype
        return v

    def call_hook(self, fn, args, kwargs):
        if self.user_call_hook is not None:
            r = self.user_call_hook(fn, args, kwargs)
            if r is not NotImplemented:
                return r
        if isinstance(fn, ClassInfo) and fn is self.cls:
            new = self.method("__new__")
            return self.I.call_function(new, [self.cls] + list(args), kwargs)
        if isinstance(fn, _NpAttr):
            path = fn.path
            if path == "ndarray":
                return NotImplemented
            if has_fe([list(args), kwargs]) is not None:
                if path in ("asarray", "array", "asanyarray"):
                    return plain(args[0]) if isinstance(args[0], FeV) else XArray.from_nested([plain(x) for x in args[0]])
                if path == "matmul" or (path in _UF and path not in ("sum",)):
                    # a ufunc called by name (np.matmul(a, b), np.multiply(a, b)): dispatched through __array_ufunc__
                    return self.ufunc_call(path, tuple(args), **kwargs)
                if path not in NOT_DISPATCHED:
                    return self.function_call(path, args, kwargs)
                args = [plain(a) for a in args]
                return NotImplemented if False else _NP_FUNCS[path](*args, **kwargs)
            if path == "broadcast_to":
                a = XArray.from_nested(args[0]) if not isinstance(args[0], XArray) else args[0]
                return plain(a).broadcast_to(tuple(int(x) for x in args[1]))
        return NotImplemented

    def super_hook(self, cls, selfobj, name, args, kwargs):
        if cls is not self.cls:
            return NotImplemented
        if name == "__array_function__":
            func, types, a, kw = args
            path = func.path
            f = _NP_FUNCS.get(path)
            if f is None and path not in ("sum", "mean", "max", "min", "prod", "average", "clip", "trace"):
                raise Uninterpretable(f"numpy function np.{path} is not modelled")
            kw = {k: v for k, v in kw.items() if k not in ("optimize",)}
            if has_fe([list(a), kw]) is not None:
                raise XRaise("RecursionError", f"np.{path} still receives a FeArray after the arguments were stripped")
            try:
                if path == "trace":
                    arr = XArray.from_nested(a[0])
                    ax1 = int(kw.get("axis1", a[2] if len(a) > 2 else 0)) % arr.ndim
                    ax2 = int(kw.get("axis2", a[3] if len(a) > 3 else 1)) % arr.ndim
                    rest = [i for i in range(arr.ndim) if i not in (ax1, ax2)]
                    moved = arr.transpose(*([ax1, ax2] + rest))
                    n = min(moved.shape[0], moved.shape[1])
                    tot = None
                    for i in range(n):
                        term = XArray.__getitem__(moved, (i, i))
                        tot = term if tot is None else tot + term
                    return tot
                if path == "average":
                    arr = XArray.from_nested(a[0])
                    ax = kw.get("axis", a[1] if len(a) > 1 else None)
                    w = kw.get("weights", a[2] if len(a) > 2 else None)
                    if w is None:
                        return self.nd_method("mean")(arr, axis=ax)
                    w = XArray.from_nested(w)
                    num = reduce_plain(XArray._binop(arr, w, lambda x, y: x * y), _UF["add"], ax)
                    den = reduce_plain(w.broadcast_to(arr.shape) if w.shape != arr.shape else w, _UF["add"], ax)
                    return num / den if not isinstance(num, XArray) else XArray._binop(num, den, lambda x, y: x / y)
                if path == "clip":
                    arr = XArray.from_nested(a[0])
                    lo = kw.get("a_min", kw.get("min", a[1] if len(a) > 1 else None))
                    hi = kw.get("a_max", kw.get("max", a[2] if len(a) > 2 else None))
                    res = arr
                    if lo is not None:
                        res = XArray._binop(res, lo, _UF["maximum"])
                    if hi is not None:
                        res = XArray._binop(res, hi, _UF["minimum"])
                    return res
                if path in ("sum", "mean", "max", "min", "prod"):
                    ax = kw.get("axis", a[1] if len(a) > 1 else None)
                    arr = XArray.from_nested(a[0])
                    if path == "mean":
                        return self.nd_method("mean")(arr, axis=ax)
                    return reduce_plain(arr, _UF[_REDUCER_UFUNC[path]], ax)
                return f(*a, **kw)
            except (XArrayError, TypeError, ValueError, IndexError) as e:
                raise Uninterpretable(f"np.{path} failed in the shim: {type(e).__name__}: {e}")
        return self.nd_method(name)(selfobj, *args, **kwargs)
