"""Exact model of EasyFEA/FEM/_gauss.py read from the source."""

from __future__ import annotations

import ast
import re
from fractions import Fraction

from .alg import MQ, Q, Poly, to_q, integral_monomial, monomials_upto
from .repo import Repo, AnalysisError, AnchorMissing, dotted
from .xeval import Interp, XRaise, EnumVal, Uninterpretable
from .xarray import XArray, Lbl
from .elems import ELEMTYPE, MATRIXTYPE, GAUSS, topology, VARS

SHAPE_FUNCS = {"TRI": "_Triangle", "QUAD": "_Quadrangle", "TETRA": "_Tetrahedron", "HEXA": "_Hexahedron", "PRISM": "_Prism"}
SHAPE_DIM = {"SEG": 1, "TRI": 2, "QUAD": 2, "TETRA": 3, "HEXA": 3, "PRISM": 3}
REF_MEASURE = {"SEG": Q(2), "TRI": Q(1, 2), "QUAD": Q(4), "TETRA": Q(1, 6), "HEXA": Q(8), "PRISM": Q(1)}


def num(x):
    if isinstance(x, MQ):
        return x
    if isinstance(x, Poly):
        return x.const_value()
    return to_q(x)


class Rule:
    def __init__(self, shape, n, pts, w, approx, func, docorders=None):
        self.shape, self.n, self.pts, self.w = shape, n, pts, w
        self.approx = approx  # list of approximate literals used
        self.func = func
        self._cache = {}

    @property
    def dim(self):
        return SHAPE_DIM[self.shape]

    def quad_monomial(self, exps):
        if exps in self._cache:
            return self._cache[exps]
        tot = Q(0)
        mag = Q(0)
        for p, w in zip(self.pts, self.w):
            t = w
            for x, e in zip(p, exps):
                t = t * x**e
            tot = tot + t
            mag = mag + (abs(t) if not isinstance(t, MQ) else abs(t).approx(30))
        self._cache[exps] = (tot, mag)
        return tot, mag

    TOL = Q(5, 10**14)

    def exact_on(self, exps):
        """(ok, error): tolerance 0 for rational/surd rules, 5e-14 relative to
        sum|w_i m(x_i)| for rules typed as 15-digit decimals."""
        got, mag = self.quad_monomial(exps)
        want = integral_monomial(self.shape, list(exps))
        d = got - want
        if isinstance(d, MQ):
            if d.is_zero():
                return True, Q(0)
            dv = abs(d.approx(40))
        else:
            if d == 0:
                return True, Q(0)
            dv = abs(d)
        if self.approx and dv <= self.TOL * (mag + abs(want)):
            return True, dv
        return False, dv

    def degree(self, maxdeg=12):
        """largest d such that every monomial of total degree <= d is
        integrated exactly; also the first failing monomial."""
        d = -1
        for deg in range(0, maxdeg + 1):
            for ex in monomials_upto(self.dim, deg):
                if sum(ex) != deg:
                    continue
                ok, err = self.exact_on(ex)
                if not ok:
                    return d, ex, err
            d = deg
        return d, None, None

    def exact_on_poly(self, p: Poly, varnames):
        """every monomial of p (in varnames) is integrated exactly"""
        for m in p.t:
            dm = dict(m)
            ex = tuple(dm.get(v, 0) for v in varnames)
            ok, err = self.exact_on(ex)
            if not ok:
                return False, ex, err
        return True, None, None


class GaussLib:
    def __init__(self, repo: Repo):
        self.repo = repo
        self.I = Interp(repo)
        self.cls = repo.cls(GAUSS)
        self.et = repo.cls(ELEMTYPE)
        self.mt = repo.cls(MATRIXTYPE)
        self.et_members = repo.enum_members(ELEMTYPE)
        self.mt_members = repo.enum_members(MATRIXTYPE)
        self._rules = {}
        # np.polynomial.legendre.leggauss -> labelled placeholders
        from . import xeval

        def leggauss(n):
            n = int(n)
            return (XArray((n,), [Lbl("gl_x", n, i) for i in range(n)]), XArray((n,), [Lbl("gl_w", n, i) for i in range(n)]))

        xeval._NP_FUNCS["polynomial.legendre.leggauss"] = leggauss

    # ------------------------------------------------------------------
    def available(self, shape):
        """point counts compared with nPg in the if/elif chain of the table
        function, and those announced by the docstring."""
        f = self.repo.method(GAUSS, SHAPE_FUNCS[shape])
        arg = f.params()[0]
        ns = []
        for n in ast.walk(f.node):
            if isinstance(n, ast.Compare) and isinstance(n.left, ast.Name) and n.left.id == arg:
                for c in n.comparators:
                    if isinstance(c, ast.Constant) and isinstance(c.value, int):
                        ns.append(c.value)
        doc = ast.get_docstring(f.node) or ""
        return sorted(set(ns)), doc, f

    def doc_orders(self, shape):
        ns, doc, f = self.available(shape)
        out = {}
        m = re.search(r"available\s*\[([0-9,\s]+)\]", doc)
        if not m:
            return None
        av = [int(x) for x in m.group(1).split(",")]
        orders = {}
        for mm in re.finditer(r"order\s*([A-Za-z&\s]*)=\s*\[([0-9,\s]+)\]", doc):
            lab = mm.group(1).strip() or "all"
            vals = [int(x) for x in mm.group(2).split(",")]
            if len(vals) != len(av):
                return None
            orders[lab] = dict(zip(av, vals))
        return av, orders

    def rule(self, shape, n) -> Rule:
        key = (shape, n)
        if key in self._rules:
            return self._rules[key]
        f = self.repo.method(GAUSS, SHAPE_FUNCS[shape])
        self.I.approx_literals = []
        try:
            res = self.I.call_function(f, [n])
        except XRaise as e:
            self._rules[key] = None
            return None
        approx = list(self.I.approx_literals)
        *coords, w = res
        coords = [XArray.from_nested(c).ravel().data for c in coords]
        w = XArray.from_nested(w).ravel().data
        if any(len(c) != len(w) for c in coords):
            raise AnalysisError(f"{f.qualname}({n}): coordinate and weight lists differ in length")
        if len(w) != n:
            raise AnalysisError(f"{f.qualname}({n}) returns {len(w)} points")
        pts = [tuple(num(c[i]) for c in coords) for i in range(len(w))]
        r = Rule(shape, n, pts, [num(x) for x in w], approx, f)
        self._rules[key] = r
        return r

    # ------------------------------------------------------------------
    def factory(self, elem: str, mtype: str):
        """('rule', shape, nPg) | ('gl', nPg) | ('raise', exc, msg)"""
        f = self.repo.method(GAUSS, "Gauss_factory")
        e = EnumVal(self.et, elem, self.et_members[elem])
        m = EnumVal(self.mt, mtype, self.mt_members[mtype])
        try:
            coord, w = self.I.call_function(f, [e, m])
        except XRaise as x:
            return ("raise", x.exc_name, x.msg)
        coord = XArray.from_nested(coord)
        n = coord.shape[0]
        if isinstance(coord.data[0], Lbl):
            return ("gl", coord.data[0].v[1], coord, w)
        return ("rule", topology(elem), n, coord, w)

    def factory_npg(self, elem: str, n: int):
        f = self.repo.method(GAUSS, "_Gauss_factory_nPg")
        e = EnumVal(self.et, elem, self.et_members[elem])
        try:
            coord, w = self.I.call_function(f, [e, n])
        except XRaise as x:
            return ("raise", x.exc_name, x.msg)
        coord = XArray.from_nested(coord)
        if isinstance(coord.data[0], Lbl):
            return ("gl", coord.data[0].v[1], coord, w)
        return ("rule", topology(elem), coord.shape[0], coord, w)


def inside(shape, p):
    """exact test that point p lies in the closed reference element"""
    z = Q(0)

    def ge(a, b):
        d = a - b
        if isinstance(d, MQ):
            return d.sign() >= 0
        return d >= 0

    if shape == "SEG":
        return ge(p[0], -1) and ge(1, p[0])
    if shape == "QUAD":
        return all(ge(c, -1) and ge(1, c) for c in p)
    if shape == "HEXA":
        return all(ge(c, -1) and ge(1, c) for c in p)
    if shape == "TRI":
        return ge(p[0], z) and ge(p[1], z) and ge(1, p[0] + p[1])
    if shape == "TETRA":
        return all(ge(c, z) for c in p) and ge(1, p[0] + p[1] + p[2])
    if shape == "PRISM":
        return ge(p[0], z) and ge(p[1], z) and ge(1, p[0] + p[1]) and ge(p[2], -1) and ge(1, p[2])
    raise AnalysisError(shape)
