
import sys as _sys

if hasattr(_sys, "set_int_max_str_digits"):
    _sys.set_int_max_str_digits(0)  # exact rationals of long interpreted computations have more than 4300 digits
