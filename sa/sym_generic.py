"""Runs under the tooling interpreter (python3-vt, sympy).  Reads identity jobs
(JSON on stdin) whose expressions were extracted from the AST of the analysed
source by the exact interpreter (sa/symx.py) and decides each one:

    job = {"id": ..., "lhs": <expr>, "rhs": <expr>, "diff": [var, ...] | null,
           "pairs": {"R": "dR", ...}}        # abstract function -> name of its derivative

decides   d(lhs)/d(var...) - rhs == 0   (or lhs - rhs == 0 without "diff").
sympy is a term-rewriting engine here (diff with the chain rule over the abstract
functions, together, expand, simplify); an identity that does not reach the
normal form 0 is evaluated with 50-digit arithmetic at random rational points
(abstract functions replaced by fixed smooth functions consistent with their
declared derivatives): non-zero there is a definite violation."""

import json
import random
import sys

import sympy as sp
from sympy import Function, Rational, Symbol


def make_functions(pairs):
    """abstract functions with declared derivatives (chains allowed: R -> dR -> d2R)"""
    loc = {}
    concrete = {}
    names = set(pairs) | set(pairs.values())

    def concrete_expr(name, x):
        # a fixed smooth positive function per name; derivative names get the derivative of their primitive
        base = {n for n in names if n not in pairs.values()}
        chain = []
        n = name
        inv = {v: k for k, v in pairs.items()}
        depth = 0
        while n in inv:
            n = inv[n]
            depth += 1
        k = (sum(ord(c) for c in n) % 5) + 2
        u = Symbol("_u")
        f = sp.exp(u / k) + u**2 / (k + 1) + sp.sin(u) / 3
        for _ in range(depth):
            f = sp.diff(f, u)
        return f.subs(u, x)

    for n in names:
        def mk(n):
            d = pairs.get(n)

            class F(Function):
                @classmethod
                def eval(cls, *a):
                    return None

                def fdiff(self, argindex=1):
                    if d is None:
                        return sp.Derivative(self, self.args[argindex - 1])
                    return loc[d](*self.args)

            F.__name__ = n
            return F

        loc[n] = mk(n)
        concrete[n] = (lambda n: (lambda *a: concrete_expr(n, a[0])))(n)
    return loc, concrete


def main():
    data = json.load(sys.stdin)
    rnd = random.Random(data.get("seed", 0))
    npts = data.get("points", 30)
    out = []
    for job in data["jobs"]:
        pairs = job.get("pairs", {})
        floc, concrete = make_functions(pairs)
        loc = {"Rational": Rational, "exp": sp.exp, "log": sp.log, "sqrt": sp.sqrt, "Abs": sp.Abs, "D": lambda e, v: sp.diff(e, v)}
        loc.update(floc)
        try:
            import re

            for ident in set(re.findall(r"[A-Za-z_][A-Za-z_0-9]*", job["lhs"] + " " + job["rhs"])):
                if ident not in loc:
                    loc[ident] = Symbol(ident, positive=True)
            lhs = sp.sympify(job["lhs"], locals=loc)
            rhs = sp.sympify(job["rhs"], locals=loc)
            e = lhs
            for v in job.get("diff") or []:
                e = sp.diff(e, Symbol(v, positive=True))
            e = e - rhs
            e = e.doit()
            method = "normal form"
            if job.get("numeric"):
                z = None
            else:
                try:
                    z = sp.simplify(sp.expand(sp.numer(sp.together(e))))
                except Exception:
                    z = e
            ok, witness = (z == 0), None
            if not ok:
                method = "randomised 50-digit evaluation"
                en = e
                for n, f in concrete.items():
                    en = en.replace(loc[n], f)
                en = en.doit()
                free = sorted(en.free_symbols, key=str)
                worst = 0
                ok = True
                for _ in range(npts):
                    env = {s: Rational(rnd.randint(30, 250), 100) for s in free}
                    val = sp.N(en.subs(env), 50)
                    ref = 1
                    if abs(val) > sp.Float(10) ** -30 * max(1, abs(ref)):
                        ok = False
                        witness = {str(k): str(v) for k, v in env.items()}
                        witness["residual"] = str(sp.N(val, 8))
                        break
            out.append({"id": job["id"], "ok": bool(ok), "method": method, "witness": witness})
        except Exception as x:  # noqa: BLE001
            out.append({"id": job["id"], "ok": None, "method": "error", "witness": f"{type(x).__name__}: {x}"})
    json.dump({"results": out}, sys.stdout)


if __name__ == "__main__":
    main()
