"""E1 -- resolved program model of /repo/EasyFEA (pure ``ast``).

Parses every ``*.py`` under <root>/EasyFEA, builds module / class / function
tables, linearised MRO, method lookup with Python private-name mangling,
``super()`` resolution, decorator and property tables, enum member tables and a
package-internal call graph.  Anchors are addressed by qualified name; a missing
anchor raises ``AnchorMissing`` (reported as ANALYSIS-ERROR, exit 2).
"""

from __future__ import annotations

import ast
import hashlib
import os
from dataclasses import dataclass, field
from typing import Iterable, Optional


class AnalysisError(Exception):
    """The analysis cannot be carried out (missing anchor, construct outside
    the interpreter grammar, ...): never a verdict."""


class AnchorMissing(AnalysisError):
    pass


@dataclass(eq=False)
class FuncInfo:
    qualname: str  # EasyFEA.FEM._gauss.Gauss._Triangle
    module: "ModuleInfo"
    cls: Optional["ClassInfo"]
    node: ast.FunctionDef
    decorators: list = field(default_factory=list)  # dotted names

    @property
    def name(self):
        return self.node.name

    @property
    def file(self):
        return self.module.relpath

    @property
    def lineno(self):
        return self.node.lineno

    def is_property(self):
        return "property" in self.decorators or self.is_cached_property()

    def is_cached_property(self):
        return any(d.split(".")[-1] == "cached_property" for d in self.decorators)

    def is_setter(self):
        return any(d.endswith(".setter") for d in self.decorators)

    def is_static(self):
        return "staticmethod" in self.decorators

    def is_classmethod(self):
        return "classmethod" in self.decorators

    def is_cached(self):
        return any(d.split(".")[-1] == "cache_computed_values" for d in self.decorators)

    def params(self):
        a = self.node.args
        return [x.arg for x in a.posonlyargs + a.args + a.kwonlyargs]


@dataclass(eq=False)
class ClassInfo:
    qualname: str
    name: str
    module: "ModuleInfo"
    node: ast.ClassDef
    base_exprs: list  # dotted names as written
    bases: list = field(default_factory=list)  # resolved ClassInfo (package-internal)
    methods: dict = field(default_factory=dict)  # name -> FuncInfo (getter for properties)
    setters: dict = field(default_factory=dict)  # name -> FuncInfo
    class_attrs: dict = field(default_factory=dict)  # name -> ast.expr (class-level assigns)
    nested: dict = field(default_factory=dict)  # nested classes
    mro: list = field(default_factory=list)

    @property
    def file(self):
        return self.module.relpath

    def mangle(self, attr: str) -> str:
        if attr.startswith("__") and not attr.endswith("__"):
            return "_" + self.name.lstrip("_") + attr
        return attr

    def is_enum(self):
        return any(b.split(".")[-1] in ("Enum", "IntEnum", "StrEnum") for b in self.base_exprs)


@dataclass(eq=False)
class ModuleInfo:
    name: str  # EasyFEA.FEM._gauss
    path: str
    relpath: str  # EasyFEA/FEM/_gauss.py
    tree: ast.Module
    source: str
    sha256: str
    imports: dict = field(default_factory=dict)  # local name -> dotted target
    classes: dict = field(default_factory=dict)
    functions: dict = field(default_factory=dict)
    assigns: dict = field(default_factory=dict)  # module-level name -> ast.expr
    is_pkg: bool = False


def dotted(node) -> Optional[str]:
    """'a.b.c' for Name/Attribute chains, else None."""
    parts = []
    while isinstance(node, ast.Attribute):
        parts.append(node.attr)
        node = node.value
    if isinstance(node, ast.Name):
        parts.append(node.id)
        return ".".join(reversed(parts))
    if isinstance(node, ast.Call):
        d = dotted(node.func)
        if d:
            parts.append(d + "()")
            return ".".join(reversed(parts))
    return None


def norm_text(node) -> str:
    """Normalised statement / expression text (no positions, no comments)."""
    try:
        return ast.unparse(node)
    except Exception:  # pragma: no cover
        return ast.dump(node)


class Repo:
    PKG = "EasyFEA"

    def __init__(self, root: str):
        self.root = os.path.abspath(root)
        self.pkgdir = os.path.join(self.root, self.PKG)
        if not os.path.isdir(self.pkgdir):
            raise AnalysisError(f"package directory not found: {self.pkgdir}")
        self.modules: dict[str, ModuleInfo] = {}
        self.classes: dict[str, ClassInfo] = {}  # by qualname
        self.functions: dict[str, FuncInfo] = {}  # by qualname
        self.classes_by_name: dict[str, list] = {}
        self.consulted: set[str] = set()
        self.accessed: set[str] = set()  # qualified names of the functions whose AST a checker fetched
        self._parse_all()
        self._resolve_imports()
        self._resolve_classes()
        self._cg = None

    # ------------------------------------------------------------------
    def _parse_all(self):
        for dp, dn, fn in os.walk(self.pkgdir):
            dn[:] = sorted(d for d in dn if d != "__pycache__")
            for f in sorted(fn):
                if not f.endswith(".py"):
                    continue
                path = os.path.join(dp, f)
                rel = os.path.relpath(path, self.root)
                with open(path, "rb") as fh:
                    raw = fh.read()
                src = raw.decode("utf-8")
                try:
                    tree = ast.parse(src, filename=rel)
                except SyntaxError as e:
                    raise AnalysisError(f"cannot parse {rel}: {e}")
                modname = rel[:-3].replace(os.sep, ".")
                is_pkg = False
                if modname.endswith(".__init__"):
                    modname = modname[: -len(".__init__")]
                    is_pkg = True
                mi = ModuleInfo(modname, path, rel, tree, src, hashlib.sha256(raw).hexdigest(), is_pkg=is_pkg)
                self.modules[modname] = mi
                self._index_module(mi)

    def _index_module(self, mi: ModuleInfo):
        for st in mi.tree.body:
            self._index_stmt(mi, st)

    def _index_stmt(self, mi, st):
        if isinstance(st, (ast.FunctionDef, ast.AsyncFunctionDef)):
            fi = FuncInfo(f"{mi.name}.{st.name}", mi, None, st, self._decos(st))
            mi.functions[st.name] = fi
            self.functions[fi.qualname] = fi
        elif isinstance(st, ast.ClassDef):
            self._index_class(mi, st)
        elif isinstance(st, ast.Assign):
            for t in st.targets:
                if isinstance(t, ast.Name):
                    mi.assigns[t.id] = st.value
        elif isinstance(st, ast.AnnAssign) and isinstance(st.target, ast.Name) and st.value is not None:
            mi.assigns[st.target.id] = st.value
        elif isinstance(st, (ast.If, ast.Try)):
            # e.g. `if TYPE_CHECKING:` / try-import blocks: index imports and defs inside
            for sub in ast.iter_child_nodes(st):
                if isinstance(sub, ast.stmt):
                    self._index_stmt(mi, sub)
                elif isinstance(sub, ast.ExceptHandler):
                    for s2 in sub.body:
                        self._index_stmt(mi, s2)

    @staticmethod
    def _decos(node):
        out = []
        for d in node.decorator_list:
            if isinstance(d, ast.Call):
                d = d.func
            n = dotted(d)
            if n:
                out.append(n)
        return out

    def _index_class(self, mi, node: ast.ClassDef, outer=None):
        prefix = outer.qualname if outer is not None else mi.name
        ci = ClassInfo(f"{prefix}.{node.name}", node.name, mi, node, [dotted(b) or "?" for b in node.bases])
        if outer is not None:
            outer.nested[node.name] = ci
        else:
            mi.classes[node.name] = ci
        self.classes[ci.qualname] = ci
        self.classes_by_name.setdefault(node.name, []).append(ci)
        for st in node.body:
            if isinstance(st, (ast.FunctionDef, ast.AsyncFunctionDef)):
                fi = FuncInfo(f"{ci.qualname}.{st.name}", mi, ci, st, self._decos(st))
                if fi.is_setter():
                    ci.setters[st.name] = fi
                    self.functions[fi.qualname + ".setter"] = fi
                elif any(d.endswith(".deleter") for d in fi.decorators):
                    pass
                else:
                    ci.methods[st.name] = fi
                    if ci.mangle(st.name) != st.name:
                        ci.methods[ci.mangle(st.name)] = fi
                    self.functions[fi.qualname] = fi
            elif isinstance(st, ast.ClassDef):
                self._index_class(mi, st, outer=ci)
            elif isinstance(st, ast.Assign):
                for t in st.targets:
                    if isinstance(t, ast.Name):
                        ci.class_attrs[t.id] = st.value
            elif isinstance(st, ast.AnnAssign) and isinstance(st.target, ast.Name) and st.value is not None:
                ci.class_attrs[st.target.id] = st.value

    # ------------------------------------------------------------------
    def _resolve_imports(self):
        for mi in self.modules.values():
            for node in ast.walk(mi.tree):
                if isinstance(node, ast.Import):
                    for a in node.names:
                        mi.imports[a.asname or a.name.split(".")[0]] = a.name if a.asname else a.name.split(".")[0]
                elif isinstance(node, ast.ImportFrom):
                    if node.level:
                        base = mi.name.split(".")
                        if not mi.is_pkg:
                            base = base[:-1]
                        if node.level > 1:
                            base = base[: -(node.level - 1)]
                        tgt = ".".join(base + ([node.module] if node.module else []))
                    else:
                        tgt = node.module or ""
                    for a in node.names:
                        mi.imports[a.asname or a.name] = f"{tgt}.{a.name}" if tgt else a.name

    def resolve_name(self, mi: ModuleInfo, name: str, _depth=0):
        """Resolve a dotted name used in module ``mi`` to a ClassInfo /
        FuncInfo / ModuleInfo of the package, or None."""
        if _depth > 8:
            return None
        head, _, rest = name.partition(".")
        obj = None
        if head in mi.classes:
            obj = mi.classes[head]
        elif head in mi.functions:
            obj = mi.functions[head]
        elif head in mi.imports:
            obj = self._resolve_abs(mi.imports[head], _depth + 1)
        if obj is None:
            return None
        while rest:
            head, _, rest = rest.partition(".")
            if isinstance(obj, ModuleInfo):
                if head in obj.classes:
                    obj = obj.classes[head]
                elif head in obj.functions:
                    obj = obj.functions[head]
                elif head in obj.imports:
                    obj = self._resolve_abs(obj.imports[head], _depth + 1)
                elif f"{obj.name}.{head}" in self.modules:
                    obj = self.modules[f"{obj.name}.{head}"]
                else:
                    return None
            elif isinstance(obj, ClassInfo):
                f = self.lookup_method(obj, head)
                if f is not None:
                    obj = f
                elif head in self.class_attr_names(obj):
                    return ("classattr", obj, head)
                else:
                    return None
            else:
                return None
            if obj is None:
                return None
        return obj

    def _resolve_abs(self, target: str, _depth=0):
        if _depth > 8:
            return None
        if target in self.modules:
            return self.modules[target]
        mod, _, name = target.rpartition(".")
        if mod in self.modules:
            m = self.modules[mod]
            if name in m.classes:
                return m.classes[name]
            if name in m.functions:
                return m.functions[name]
            if name in m.imports:
                return self._resolve_abs(m.imports[name], _depth + 1)
            if f"{mod}.{name}" in self.modules:
                return self.modules[f"{mod}.{name}"]
        return None

    def _resolve_classes(self):
        for ci in self.classes.values():
            for b in ci.base_exprs:
                r = self.resolve_name(ci.module, b)
                if isinstance(r, ClassInfo):
                    ci.bases.append(r)
        for ci in self.classes.values():
            ci.mro = self._c3(ci)

    def _c3(self, ci, seen=()):
        if ci in seen:
            return [ci]
        seqs = [self._c3(b, seen + (ci,)) for b in ci.bases] + [list(ci.bases)]
        res = [ci]
        seqs = [s for s in seqs if s]
        while seqs:
            for s in seqs:
                cand = s[0]
                if not any(cand in t[1:] for t in seqs):
                    break
            else:
                cand = seqs[0][0]
            res.append(cand)
            seqs = [[c for c in s if c is not cand] for s in seqs]
            seqs = [s for s in seqs if s]
        return res

    # ------------------------------------------------------------------
    # lookups
    def module(self, name) -> ModuleInfo:
        if name not in self.modules:
            raise AnchorMissing(f"module {name} not found")
        self.consulted.add(self.modules[name].relpath)
        return self.modules[name]

    def cls(self, qualname) -> ClassInfo:
        if qualname not in self.classes:
            raise AnchorMissing(f"class {qualname} not found")
        self.consulted.add(self.classes[qualname].file)
        return self.classes[qualname]

    def func(self, qualname) -> FuncInfo:
        if qualname not in self.functions:
            raise AnchorMissing(f"function {qualname} not found")
        self.consulted.add(self.functions[qualname].file)
        self.accessed.add(self.functions[qualname].qualname)
        return self.functions[qualname]

    def has_func(self, qualname):
        return qualname in self.functions

    def method(self, cls_qualname, name, mangle_from=None) -> FuncInfo:
        ci = self.cls(cls_qualname)
        if mangle_from is None:
            mangle_from = ci
        f = self.lookup_method(ci, name)
        if f is None:
            raise AnchorMissing(f"method {cls_qualname}.{name} not found")
        self.consulted.add(f.file)
        self.accessed.add(f.qualname)
        return f

    def lookup_method(self, ci: ClassInfo, name: str, start_after: ClassInfo = None) -> Optional[FuncInfo]:
        mro = ci.mro
        if start_after is not None:
            if start_after in mro:
                mro = mro[mro.index(start_after) + 1 :]
            else:
                mro = start_after.mro[1:]
        for c in mro:
            if name in c.methods:
                self.accessed.add(c.methods[name].qualname)
                return c.methods[name]
        return None

    def lookup_setter(self, ci: ClassInfo, name: str) -> Optional[FuncInfo]:
        for c in ci.mro:
            if name in c.setters:
                return c.setters[name]
        return None

    def class_attr_names(self, ci):
        s = set()
        for c in ci.mro:
            s |= set(c.class_attrs)
        return s

    def class_attr(self, ci, name):
        for c in ci.mro:
            if name in c.class_attrs:
                return c.class_attrs[name], c
        return None, None

    def nested_class(self, ci, name):
        for c in ci.mro:
            if name in c.nested:
                return c.nested[name]
        return None

    def subclasses(self, ci: ClassInfo, strict=True):
        out = []
        for c in self.classes.values():
            if ci in c.mro and (c is not ci or not strict):
                out.append(c)
        return sorted(out, key=lambda c: c.qualname)

    def enum_members(self, qualname) -> dict:
        """name -> python value (literal) for a simple Enum class."""
        ci = self.cls(qualname)
        out = {}
        for st in ci.node.body:
            if isinstance(st, ast.Assign) and len(st.targets) == 1 and isinstance(st.targets[0], ast.Name):
                try:
                    out[st.targets[0].id] = ast.literal_eval(st.value)
                except Exception:
                    if isinstance(st.value, ast.Call) and dotted(st.value.func) == "auto":
                        out[st.targets[0].id] = len(out) + 1
        return out

    # ------------------------------------------------------------------
    def all_functions(self) -> Iterable[FuncInfo]:
        seen = set()
        for f in self.functions.values():
            if id(f) not in seen:
                seen.add(id(f))
                yield f

    def digest(self, relpaths=None) -> dict:
        rel = sorted(relpaths if relpaths is not None else self.consulted)
        by = {m.relpath: m.sha256 for m in self.modules.values()}
        return {r: by[r] for r in rel if r in by}

    def counts(self):
        nf = len({id(f) for f in self.functions.values()})
        return {"modules": len(self.modules), "classes": len(self.classes), "functions": nf}

    # ------------------------------------------------------------------
    # receiver typing helpers (light-weight, by construction of the repo)
    def self_attr_call_targets(self, ci: ClassInfo, attr: str):
        """Resolve ``self.<attr>`` for class ci to method / property."""
        name = ci.mangle(attr)
        f = self.lookup_method(ci, name)
        if f is None and name != attr:
            f = self.lookup_method(ci, attr)
        return f

    def methods_named(self, name: str):
        """All methods with this (mangled or not) name, across classes."""
        out = []
        for c in self.classes.values():
            if name in c.methods:
                out.append(c.methods[name])
        return out


def walk_no_nested(node):
    """ast.walk that does not descend into nested function / class / lambda
    definitions (the node itself is yielded even if it is a def)."""
    todo = list(ast.iter_child_nodes(node))
    yield node
    while todo:
        n = todo.pop()
        yield n
        if isinstance(n, (ast.FunctionDef, ast.AsyncFunctionDef, ast.ClassDef, ast.Lambda)):
            continue
        todo.extend(ast.iter_child_nodes(n))


def find_calls(node, pred=None):
    out = []
    for n in ast.walk(node):
        if isinstance(n, ast.Call) and (pred is None or pred(n)):
            out.append(n)
    return out


def call_name(call: ast.Call) -> str:
    return dotted(call.func) or ""
