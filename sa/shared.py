"""Rules shared by several properties (each property that uses one lists it in its claims)."""

from __future__ import annotations

import ast

from .flow import must_pass, self_stores
from .repo import AnalysisError, dotted, norm_text, walk_no_nested

NOTIFIERS = {"_InitMatrix", "_Notify", "Need_Update", "clear_cached_computed_values"}
APPROX = {"allclose", "isclose", "array_equal", "array_equiv", "allclose_", "assert_allclose"}


def _only_diagnostics(body):
    """a block that only raises / asserts / prints / warns"""
    for st in body:
        if isinstance(st, (ast.Raise, ast.Assert, ast.Pass)):
            continue
        if isinstance(st, ast.Expr) and isinstance(st.value, ast.Call):
            d = (dotted(st.value.func) or "").split(".")[-1]
            if d in ("print", "warn", "MyPrintError", "MyPrint", "MyCoutPrint", "warning", "error", "info"):
                continue
        if isinstance(st, ast.Expr) and isinstance(st.value, ast.Constant):
            continue
        return False
    return True


def setter_discipline_rule(ctx, rid, class_filter=None, min_instances=8):
    """A property setter is a mutator of the one-step induction: whatever value is assigned, the backing attribute is
    stored and every invalidation / notification the setter performs is reached, on every path that completes (paths
    that raise are rejections of the input).  A conditional store or a conditional notification ("the value did not
    change enough") leaves derived state of the old value alive."""
    repo = ctx.repo
    r = ctx.rule(rid, "setters store the new value and reach each of their invalidation / notification calls on every completing path (no value-dependent skip)", min_instances=min_instances)
    for ci in sorted(repo.classes.values(), key=lambda c: c.qualname):
        if class_filter is not None and not class_filter(ci):
            continue
        for name, f in sorted(ci.setters.items()):
            body = f.node.body
            stores = self_stores(f)
            attrs = sorted({a for a, _, kind in stores})
            calls = sorted({(dotted(c.func) or "").split(".")[-1] for c in ast.walk(f.node) if isinstance(c, ast.Call)} & NOTIFIERS)
            if not attrs and not calls:
                continue
            r.instance(fn=f.qualname + ".setter")

            def is_store(st, attr):
                for n in ast.walk(st) if not isinstance(st, (ast.If, ast.For, ast.While, ast.With, ast.Try)) else []:
                    if isinstance(n, ast.Attribute) and isinstance(n.value, ast.Name) and n.value.id == "self" and isinstance(n.ctx, ast.Store):
                        full = ci.mangle(n.attr)
                        if full == attr or n.attr == attr:
                            return True
                    if isinstance(n, ast.Call) and isinstance(n.func, ast.Attribute) and isinstance(n.func.value, ast.Attribute) and isinstance(n.func.value.value, ast.Name) and n.func.value.value.id == "self":
                        a = n.func.value.attr
                        full = ci.mangle(a)
                        if full == attr and n.func.attr in ("append", "extend", "update", "add", "insert", "clear"):
                            return True
                    if isinstance(n, ast.Subscript) and isinstance(n.ctx, ast.Store) and isinstance(n.value, ast.Attribute) and isinstance(n.value.value, ast.Name) and n.value.value.id == "self":
                        a = n.value.attr
                        full = ci.mangle(a)
                        if full == attr:
                            return True
                return False

            def is_call(st, nm):
                if isinstance(st, (ast.If, ast.For, ast.While, ast.With, ast.Try)):
                    return False
                return any(isinstance(c, ast.Call) and (dotted(c.func) or "").split(".")[-1] == nm for c in ast.walk(st))

            # a guard on the NEW value alone (type / membership tests: `isinstance(mesh, Mesh)`, `value in solvers`) is input
            # validation: the rule is stated for accepted inputs. A guard that looks at the object's current state
            # (directly or through a local computed from it) is a value-dependent skip.
            tainted = set()
            changed = True
            while changed:
                changed = False
                for n in ast.walk(f.node):
                    if isinstance(n, ast.Assign):
                        reads_state = any(isinstance(x, ast.Attribute) and isinstance(x.value, ast.Name) and x.value.id == "self" for x in ast.walk(n.value)) or any(isinstance(x, ast.Name) and x.id in tainted for x in ast.walk(n.value))
                        if reads_state:
                            for t in n.targets:
                                for x in ast.walk(t):
                                    if isinstance(x, ast.Name) and x.id not in tainted:
                                        tainted.add(x.id)
                                        changed = True

            def transparent(test, tainted=tainted):
                for x in ast.walk(test):
                    if isinstance(x, ast.Attribute) and isinstance(x.value, ast.Name) and x.value.id == "self":
                        return False
                    if isinstance(x, ast.Name) and x.id in tainted:
                        return False
                return True
            problems = []
            for a in attrs:
                if not must_pass(_strip_diagnostics(body), lambda st, a=a: is_store(st, a), transparent):
                    problems.append(("store:" + a.split("__")[-1], f"`self.{a.split('__')[-1] if '__' in a else a}` is not stored on every completing path"))
            for c in calls:
                if not must_pass(_strip_diagnostics(body), lambda st, c=c: is_call(st, c), transparent):
                    problems.append(("notify:" + c, f"`{c}()` is not reached on every completing path"))
            if problems:
                for key, msg in problems:
                    r.fail(f.qualname + ".setter", key, f.file, f.lineno, f"{ci.name}.{name}.setter", f"{msg}: assigning `{name}` can leave the old value or derived state of the old value in place")
            else:
                r.ok(f"{ci.name}.{name}.setter: stores {attrs} / notifies {calls} on every path")


def _strip_diagnostics(body):
    """drop `if cond: raise/print...` blocks (input rejection) so that they do not count as skipping paths"""
    out = []
    for st in body:
        if isinstance(st, ast.If) and _only_diagnostics(st.body) and any(isinstance(x, (ast.Raise, ast.Assert)) for x in st.body) and not st.orelse:
            continue
        out.append(st)
    return out


def approx_guard_rule(ctx, rid, module_names):
    """Exactness clauses ("to round-off", "identical to a fresh object") cannot survive a branch taken on an approximate
    comparison of the data: within the tolerance the cheaper branch is taken although the data differ.  In the listed
    modules, np.allclose / np.isclose (and friends) may appear in assertions and in input rejections only."""
    repo = ctx.repo
    r = ctx.rule(rid, "no control flow on approximate comparisons (np.allclose / np.isclose ...) of data in the numerical kernels and mutators: they may only feed assertions and input rejections", min_instances=20)
    for mn in module_names:
        mi = repo.module(mn)
        funcs = [f for f in repo.all_functions() if f.module is mi]
        for f in funcs:
            r.instance(fn=f.qualname)
            parents = {}
            for p in ast.walk(f.node):
                for c in ast.iter_child_nodes(p):
                    parents[c] = p
            bad = []
            for n in walk_no_nested(f.node):
                if isinstance(n, ast.Call) and (dotted(n.func) or "").split(".")[-1] in APPROX:
                    # climb to the statement
                    q = n
                    tainted_names = set()
                    while q in parents and not isinstance(q, ast.stmt):
                        q = parents[q]
                    if isinstance(q, ast.Assert):
                        continue
                    if isinstance(q, ast.If) and _only_diagnostics(q.body) and not q.orelse:
                        continue
                    if isinstance(q, (ast.If, ast.While)) or any(isinstance(x, ast.IfExp) for x in ast.walk(q)):
                        bad.append((n, q))
                        continue
                    if isinstance(q, ast.Assign):
                        tainted_names |= {t.id for t in q.targets if isinstance(t, ast.Name)}
                    # a flag assigned from the comparison and tested later
                    for m in walk_no_nested(f.node):
                        if isinstance(m, (ast.If, ast.While, ast.IfExp)) and any(isinstance(x, ast.Name) and x.id in tainted_names for x in ast.walk(m.test)):
                            if isinstance(m, ast.If) and _only_diagnostics(m.body) and not m.orelse:
                                continue
                            bad.append((n, m))
            if bad:
                n, q = bad[0]
                r.fail(f.qualname, f"approx-guard:{(dotted(n.func) or '').split('.')[-1]}", f.file, n.lineno, f.name, f"`{norm_text(n)[:80]}` decides a branch / a returned value: data within the tolerance but not equal take the other computation (exactness to round-off is lost; a small change of the data is ignored)")
            else:
                r.ok()
