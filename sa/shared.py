"""Rules shared by several properties (each property that uses one lists it in its claims)."""

from __future__ import annotations

import ast

from .flow import must_pass, self_stores, self_reads
from .repo import AnalysisError, dotted, norm_text, walk_no_nested

NOTIFIERS = {"_InitMatrix", "_Notify", "Need_Update", "clear_cached_computed_values"}
APPROX = {"allclose", "isclose", "allclose_", "assert_allclose"}  # tolerance comparisons only: np.array_equal / array_equiv are exact


def _only_diagnostics(body):
    """a block that only raises / asserts / prints / warns"""
    for st in body:
        if isinstance(st, (ast.Raise, ast.Assert, ast.Pass)):
            continue
        if isinstance(st, ast.Expr) and isinstance(st.value, ast.Call):
            d = (dotted(st.value.func) or "").split(".")[-1]
            if d in ("print", "warn", "MyPrintError", "MyPrint", "MyCoutPrint", "warning", "error", "info"):
                continue
        if isinstance(st, ast.Expr) and isinstance(st.value, ast.Constant):
            continue
        return False
    return True


def setter_discipline_rule(ctx, rid, class_filter=None, min_instances=8):
    """A property setter is a mutator of the one-step induction: whatever value is assigned, the backing attribute is
    stored and every invalidation / notification the setter performs is reached, on every path that completes (paths
    that raise are rejections of the input).  A conditional store or a conditional notification ("the value did not
    change enough") leaves derived state of the old value alive."""
    repo = ctx.repo
    r = ctx.rule(rid, "setters store the new value and reach each of their invalidation / notification calls on every completing path (no value-dependent skip)", min_instances=min_instances)
    for ci in sorted(repo.classes.values(), key=lambda c: c.qualname):
        if class_filter is not None and not class_filter(ci):
            continue
        for name, f in sorted(ci.setters.items()):
            body = f.node.body
            stores = self_stores(f)
            # the backing attributes: direct stores and the container updates `is_store` recognises; bookkeeping on
            # the instance dictionary (`self.__dict__.pop(...)`) and removals are not stores of the new value
            _upd = ("append", "extend", "update", "add", "insert", "clear")
            attrs = sorted({a for a, _, kind in stores if not (a.startswith("__") and a.endswith("__")) and (not kind.startswith("mutating-call:") or kind.split(":", 1)[1] in _upd)})
            calls = sorted({(dotted(c.func) or "").split(".")[-1] for c in ast.walk(f.node) if isinstance(c, ast.Call)} & NOTIFIERS)
            if not attrs and not calls:
                continue
            r.instance(fn=f.qualname + ".setter")

            def is_store(st, attr):
                for n in ast.walk(st) if not isinstance(st, (ast.If, ast.For, ast.While, ast.With, ast.Try)) else []:
                    if isinstance(n, ast.Attribute) and isinstance(n.value, ast.Name) and n.value.id == "self" and isinstance(n.ctx, ast.Store):
                        full = ci.mangle(n.attr)
                        if full == attr or n.attr == attr:
                            return True
                    if isinstance(n, ast.Call) and isinstance(n.func, ast.Attribute) and isinstance(n.func.value, ast.Attribute) and isinstance(n.func.value.value, ast.Name) and n.func.value.value.id == "self":
                        a = n.func.value.attr
                        full = ci.mangle(a)
                        if full == attr and n.func.attr in ("append", "extend", "update", "add", "insert", "clear"):
                            return True
                    if isinstance(n, ast.Subscript) and isinstance(n.ctx, ast.Store) and isinstance(n.value, ast.Attribute) and isinstance(n.value.value, ast.Name) and n.value.value.id == "self":
                        a = n.value.attr
                        full = ci.mangle(a)
                        if full == attr:
                            return True
                return False

            def is_call(st, nm):
                if isinstance(st, (ast.If, ast.For, ast.While, ast.With, ast.Try)):
                    return False
                return any(isinstance(c, ast.Call) and (dotted(c.func) or "").split(".")[-1] == nm for c in ast.walk(st))

            # a guard on the NEW value alone (type / membership tests: `isinstance(mesh, Mesh)`, `value in solvers`) is input
            # validation: the rule is stated for accepted inputs. A guard that looks at the object's current state
            # (directly or through a local computed from it) is a value-dependent skip.
            tainted = set()
            changed = True
            while changed:
                changed = False
                for n in ast.walk(f.node):
                    if isinstance(n, ast.Assign):
                        reads_state = any(isinstance(x, ast.Attribute) and isinstance(x.value, ast.Name) and x.value.id == "self" for x in ast.walk(n.value)) or any(isinstance(x, ast.Name) and x.id in tainted for x in ast.walk(n.value))
                        if reads_state:
                            for t in n.targets:
                                for x in ast.walk(t):
                                    if isinstance(x, ast.Name) and x.id not in tainted:
                                        tainted.add(x.id)
                                        changed = True

            def transparent(test, tainted=tainted):
                for x in ast.walk(test):
                    if isinstance(x, ast.Attribute) and isinstance(x.value, ast.Name) and x.value.id == "self":
                        return False
                    if isinstance(x, ast.Name) and x.id in tainted:
                        return False
                return True
            problems = []
            for a in attrs:
                if not must_pass(_strip_diagnostics(body), lambda st, a=a: is_store(st, a), transparent):
                    problems.append(("store:" + a.split("__")[-1], f"`self.{a.split('__')[-1] if '__' in a else a}` is not stored on every completing path"))
            for c in calls:
                if not must_pass(_strip_diagnostics(body), lambda st, c=c: is_call(st, c), transparent):
                    problems.append(("notify:" + c, f"`{c}()` is not reached on every completing path"))
            if problems:
                for key, msg in problems:
                    r.fail(f.qualname + ".setter", key, f.file, f.lineno, f"{ci.name}.{name}.setter", f"{msg}: assigning `{name}` can leave the old value or derived state of the old value in place")
            else:
                r.ok(f"{ci.name}.{name}.setter: stores {attrs} / notifies {calls} on every path")


def _strip_diagnostics(body):
    """drop `if cond: raise/print...` blocks (input rejection) so that they do not count as skipping paths"""
    out = []
    for st in body:
        if isinstance(st, ast.If) and _only_diagnostics(st.body) and any(isinstance(x, (ast.Raise, ast.Assert)) for x in st.body) and not st.orelse:
            continue
        out.append(st)
    return out


def approx_guard_rule(ctx, rid, module_names):
    """Exactness clauses ("to round-off", "identical to a fresh object") cannot survive a branch taken on an approximate
    comparison of the data: within the tolerance the cheaper branch is taken although the data differ.  In the listed
    modules, np.allclose / np.isclose (and friends) may appear in assertions and in input rejections only."""
    repo = ctx.repo
    r = ctx.rule(rid, "no control flow on approximate comparisons (np.allclose / np.isclose ...) of data in the numerical kernels and mutators: they may only feed assertions and input rejections", min_instances=20)
    for mn in module_names:
        mi = repo.module(mn)
        funcs = [f for f in repo.all_functions() if f.module is mi]
        for f in funcs:
            r.instance(fn=f.qualname)
            parents = {}
            for p in ast.walk(f.node):
                for c in ast.iter_child_nodes(p):
                    parents[c] = p
            bad = []
            for n in walk_no_nested(f.node):
                if isinstance(n, ast.Call) and (dotted(n.func) or "").split(".")[-1] in APPROX:
                    # climb to the statement
                    q = n
                    tainted_names = set()
                    while q in parents and not isinstance(q, ast.stmt):
                        q = parents[q]
                    if isinstance(q, ast.Assert):
                        continue
                    if isinstance(q, ast.If) and _only_diagnostics(q.body) and not q.orelse:
                        continue
                    if isinstance(q, (ast.If, ast.While)) or any(isinstance(x, ast.IfExp) for x in ast.walk(q)):
                        bad.append((n, q))
                        continue
                    if isinstance(q, ast.Assign):
                        tainted_names |= {t.id for t in q.targets if isinstance(t, ast.Name)}
                    # a flag assigned from the comparison and tested later
                    for m in walk_no_nested(f.node):
                        if isinstance(m, (ast.If, ast.While, ast.IfExp)) and any(isinstance(x, ast.Name) and x.id in tainted_names for x in ast.walk(m.test)):
                            if isinstance(m, ast.If) and _only_diagnostics(m.body) and not m.orelse:
                                continue
                            bad.append((n, m))
            if bad:
                n, q = bad[0]
                r.fail(f.qualname, f"approx-guard:{(dotted(n.func) or '').split('.')[-1]}", f.file, n.lineno, f.name, f"`{norm_text(n)[:80]}` decides a branch / a returned value: data within the tolerance but not equal take the other computation (exactness to round-off is lost; a small change of the data is ignored)")
            else:
                r.ok()


# ---------------------------------------------------------------------------
# hand-rolled memos: guarded compute-and-store into an attribute of self
# ---------------------------------------------------------------------------


def _self_attrs(node, ci, whole_only=False):
    """mangled names of the self attributes read in `node`.  whole_only: an attribute whose read is immediately narrowed
    (self.a[0], self.a.b) does not count -- a key built from a part of an attribute does not cover the attribute."""
    out = set()
    parents = {}
    for p in ast.walk(node):
        for c in ast.iter_child_nodes(p):
            parents[c] = p
    for n in ast.walk(node):
        if isinstance(n, ast.Attribute) and isinstance(n.value, ast.Name) and n.value.id == "self" and isinstance(n.ctx, ast.Load):
            if whole_only:
                p = parents.get(n)
                if isinstance(p, ast.Subscript) and p.value is n:
                    continue
                if isinstance(p, ast.Attribute) and p.value is n:
                    continue
                if isinstance(p, ast.Call) and p.func is n:
                    pp = parents.get(p)
                    if isinstance(pp, ast.Subscript) and pp.value is p:
                        continue
            out.add(ci.mangle(n.attr))
    return out


def memo_rule(ctx, rid, cg=None, scope=None, min_instances=3):
    """A hand-rolled memo is a guarded compute-and-store:  `if <test on self.A>: self.A[...] = <expr>`  (lazy attribute,
    dictionary keyed by some expression, last-value slot).  One-step premise of the history property: every attribute of
    self that <expr> is computed from is (i) part of the key the guard tests, or (ii) never stored after construction, or
    (iii) every method that stores it also stores / resets A.  A violation is reported with its witness: the method
    that changes an input of the memo without resetting it (compute, call that method, read again: stale)."""
    from .flow import CallGraph, Locals

    repo = ctx.repo
    cg = cg or CallGraph(repo)
    r = ctx.rule(rid, "hand-rolled memos (guarded compute-and-store into an attribute): every input of the stored value is in the tested key, immutable after construction, or reset by each method that changes it", min_instances=min_instances)
    store_index = {}  # class -> {attr: [FuncInfo storing it outside __init__]}

    def storing_methods(ci, attr):
        key = ci.qualname
        if key not in store_index:
            idx = {}
            classes = {c for c in ci.mro if not c.qualname.startswith("builtins")} | set(repo.subclasses(ci))
            for c in classes:
                for g in list(c.methods.values()) + list(c.setters.values()):
                    if g.cls is not c:
                        continue
                    for a, n, kind in self_stores(g):
                        idx.setdefault(a, []).append((g, n, kind))
            store_index[key] = idx
        return store_index[key].get(attr, [])

    def is_pure(g):
        """an accessor: stores nothing through self (its result is a function of what it reads)"""
        return not self_stores(g)

    def local_closure(fnode, exprs):
        """the expressions plus the defining expressions of every local they mention (all definitions of a local
        that is assigned several times, the iterables of loop variables)"""
        defs = {}
        for n in ast.walk(fnode):
            if isinstance(n, ast.Assign):
                for t in n.targets:
                    for x in ast.walk(t):
                        if isinstance(x, ast.Name) and isinstance(x.ctx, ast.Store):
                            defs.setdefault(x.id, []).append(n.value)
            elif isinstance(n, (ast.AnnAssign, ast.AugAssign)) and isinstance(n.target, ast.Name) and n.value is not None:
                defs.setdefault(n.target.id, []).append(n.value)
            elif isinstance(n, (ast.For, ast.comprehension)):
                for x in ast.walk(n.target):
                    if isinstance(x, ast.Name) and isinstance(x.ctx, ast.Store):
                        defs.setdefault(x.id, []).append(n.iter)
        out, seen, todo = [], set(), list(exprs)
        while todo:
            e = todo.pop()
            out.append(e)
            for x in ast.walk(e):
                if isinstance(x, ast.Name) and isinstance(x.ctx, ast.Load) and x.id in defs and x.id not in seen:
                    seen.add(x.id)
                    todo.extend(defs[x.id])
        return out

    def transitive_reads(ci, exprs, f):
        """self attributes the expressions depend on: direct reads plus what the PURE self-methods they call read
        (a method that stores state is an input of its own, governed by its own protocol)"""
        reads = set()
        todo = []
        for e in local_closure(f.node, exprs):
            reads |= _self_attrs(e, ci)
            for n in ast.walk(e):
                if isinstance(n, ast.Attribute) and isinstance(n.value, ast.Name) and n.value.id == "self":
                    todo.extend(g for g in cg.resolve_self_attr(f.cls, n.attr, include_overrides=False) if is_pure(g))
        seen = set()
        while todo:
            g = todo.pop()
            if id(g) in seen or g.cls is None:
                continue
            seen.add(id(g))
            # value flow only: what the returned value is computed from.  Calls whose result is discarded (self._Update(),
            # self.Need_Update(False), notifications) act through state; the stores they make are mutators checked on
            # their own.
            value_nodes = []
            for st in ast.walk(g.node):
                if isinstance(st, ast.Expr):
                    continue
                if isinstance(st, (ast.Return, ast.Assign, ast.AnnAssign, ast.AugAssign)) and getattr(st, "value", None) is not None:
                    value_nodes.append(st.value)
                elif isinstance(st, (ast.If, ast.While)):
                    # a branch matters for the value when it returns / binds something; `if dirty: self._Update()` does not
                    if any(isinstance(x, (ast.Return, ast.Assign, ast.AnnAssign, ast.AugAssign)) for b in (st.body, st.orelse) for y in b for x in ast.walk(y)):
                        value_nodes.append(st.test)
            for vn in value_nodes:
                reads |= _self_attrs(vn, g.cls)
                for n in ast.walk(vn):
                    if isinstance(n, ast.Attribute) and isinstance(n.value, ast.Name) and n.value.id == "self":
                        todo.extend(h for h in cg.resolve_self_attr(g.cls, n.attr, include_overrides=False) if is_pure(h))
        return reads

    def resets(g, attr, depth=3, _seen=None):
        """does g (or a self-method it calls) store the whole attribute `attr` / clear it?"""
        _seen = _seen or set()
        if id(g) in _seen or depth < 0:
            return False
        _seen.add(id(g))
        for a, n, kind in self_stores(g):
            if a == attr and (kind in ("assign", "delete") or kind.startswith("mutating-call:clear")):
                return True
        for n in ast.walk(g.node):
            if isinstance(n, ast.Call) and isinstance(n.func, ast.Attribute) and isinstance(n.func.value, ast.Name) and n.func.value.id == "self" and g.cls is not None:
                for h in cg.resolve_self_attr(g.cls, n.func.attr, include_overrides=False):
                    if resets(h, attr, depth - 1, _seen):
                        return True
            if isinstance(n, ast.Assign) and g.cls is not None:
                for t in n.targets:
                    if isinstance(t, ast.Attribute) and isinstance(t.value, ast.Name) and t.value.id == "self":
                        s = repo.lookup_setter(g.cls, t.attr)
                        if s is not None and resets(s, attr, depth - 1, _seen):
                            return True
        return False

    for f in repo.all_functions():
        ci = f.cls
        if ci is None or (scope is not None and not scope(f)):
            continue
        L = None
        for n in ast.walk(f.node):
            if not isinstance(n, ast.If):
                continue
            tested = _self_attrs(n.test, ci)
            if not tested:
                continue
            cand = [st for blk in (n.body, n.orelse) for st in blk]
            # `if <test on self.A>: return <self.A...>` with the store of self.A elsewhere in the function
            if any(isinstance(x, ast.Return) and x.value is not None and (_self_attrs(x.value, ci) & tested) for b in (n.body,) for y in b for x in ast.walk(y)):
                cand += [st for st in ast.walk(f.node) if isinstance(st, (ast.Assign, ast.AnnAssign)) and st not in cand]
            for blk in (cand,):
                for st in blk:
                    if not isinstance(st, (ast.Assign, ast.AnnAssign)):
                        continue
                    targets = st.targets if isinstance(st, ast.Assign) else [st.target]
                    for t in targets:
                        base, keyexpr = t, None
                        if isinstance(t, ast.Subscript):
                            base, keyexpr = t.value, t.slice
                        if not (isinstance(base, ast.Attribute) and isinstance(base.value, ast.Name) and base.value.id == "self"):
                            continue
                        A = ci.mangle(base.attr)
                        if A not in tested or st.value is None:
                            continue
                        if L is None:
                            L = Locals(f.node)
                        rhs = L.expand(st.value)
                        if not any(isinstance(x, (ast.Call, ast.Attribute, ast.BinOp, ast.Subscript)) for x in ast.walk(rhs)):
                            continue  # a flag / constant: nothing memoised
                        if norm_text(ast.fix_missing_locations(rhs)) in norm_text(ast.fix_missing_locations(L.expand(n.test))):
                            continue  # `if x != self.a: self.a = x`: the stored value is the tested key itself
                        conj = isinstance(n.test, ast.BoolOp) and isinstance(n.test.op, ast.And)
                        guard_attrs = sorted(tested) if not conj else [A]
                        # the key: everything in the guard and in the subscript except the memo attribute itself
                        key_exprs = [L.expand(n.test)] + ([L.expand(keyexpr)] if keyexpr is not None else [])
                        D = transitive_reads(ci, [rhs], f) - {A}
                        K = set()
                        for ke in key_exprs:
                            for e in local_closure(f.node, [ke]):
                                whole = _self_attrs(e, ci, whole_only=True)
                                K |= whole
                                # a property read un-narrowed covers what its pure getter reads
                                for a in whole:
                                    for g in cg.resolve_self_attr(f.cls, a, include_overrides=False):
                                        if g.is_property() and is_pure(g):
                                            K |= transitive_reads(g.cls, [x.value for x in ast.walk(g.node) if isinstance(x, ast.Return) and x.value is not None], g)
                        r.instance(fn=f.qualname)
                        witness = None
                        for d in sorted(D - K):
                            for g, node, kind in storing_methods(ci, d):
                                if g.name == "__init__" or g is f:
                                    continue
                                # a lazy initialisation of d itself is not a mutator
                                if any(isinstance(p, ast.If) and node in ast.walk(p) and d in _self_attrs(p.test, g.cls) for p in ast.walk(g.node)):
                                    continue
                                if not any(resets(g, ga) for ga in guard_attrs):
                                    witness = (d, g, node)
                                    break
                            if witness:
                                break
                        if witness:
                            d, g, node = witness
                            r.fail(f.qualname, f"stale-memo:{A.split('__')[-1]}<-{d.split('__')[-1]}", f.file, st.lineno, f"{ci.name}.{f.name}",
                                   f"`self.{base.attr}` memoises a value computed from self.{d.split('__')[-1]} which is not part of the tested key; {g.cls.name}.{g.name} (line {node.lineno}) stores self.{d.split('__')[-1]} without resetting the memo: after that call the memo returns the value of the old {d.split('__')[-1]}")
                        else:
                            r.ok(f"{ci.name}.{f.name}: memo self.{base.attr} covered (inputs {sorted(x.split('__')[-1] for x in D)[:6]})")


def cached_param_rule(ctx, rid, cg=None, min_instances=20):
    """The memo of @cache_computed_values / lru_cache is keyed by the argument VALUES (hash / equality).  An argument that
    is used as an object -- one of its attributes is read, or a method is called on it, in the body or in a self-method
    it is handed to -- is keyed by identity while the memoised value depends on its state: after the object changes
    (beam section axes, material parameter ...) the memo returns the value of its old state."""
    from .flow import CallGraph

    repo = ctx.repo
    cg = cg or CallGraph(repo)
    r = ctx.rule(rid, "memoised methods take value arguments only: no attribute of an argument is read (the key is the argument's identity, the value would depend on its mutable state)", min_instances=min_instances)

    def object_uses(f, p, depth=2, _seen=None):
        _seen = _seen or set()
        if (id(f), p) in _seen or depth < 0:
            return None
        _seen.add((id(f), p))
        for n in ast.walk(f.node):
            if isinstance(n, ast.Attribute) and isinstance(n.value, ast.Name) and n.value.id == p and isinstance(n.ctx, ast.Load):
                return (f, n)
        for n in ast.walk(f.node):
            if isinstance(n, ast.Call) and isinstance(n.func, ast.Attribute) and isinstance(n.func.value, ast.Name) and n.func.value.id == "self" and f.cls is not None:
                for k, a in enumerate(n.args):
                    if isinstance(a, ast.Name) and a.id == p:
                        for g in cg.resolve_self_attr(f.cls, n.func.attr, include_overrides=False):
                            ps = [x for x in g.params() if x not in ("self", "cls")]
                            if k < len(ps):
                                u = object_uses(g, ps[k], depth - 1, _seen)
                                if u is not None:
                                    return u
        return None

    for f in repo.all_functions():
        if not (f.is_cached() or any(d.split(".")[-1] in ("lru_cache", "cache") for d in f.decorators)):
            continue
        r.instance(fn=f.qualname)
        bad = None
        for p in f.params():
            if p in ("self", "cls"):
                continue
            u = object_uses(f, p)
            if u is not None:
                bad = (p, u)
                break
        if bad:
            p, (g, n) = bad
            r.fail(f.qualname, f"object-argument:{p}", f.file, f.lineno, f"{f.cls.name + '.' if f.cls else ''}{f.name}", f"memoised per argument `{p}` (identity) but `{norm_text(n)}` is read from it{' in ' + g.name if g is not f else ''}: after `{p}` changes state the memo returns the value computed from its old state")
        else:
            r.ok()


# ---------------------------------------------------------------------------
# state shared between instances / written through aliases
# ---------------------------------------------------------------------------

ARRAY_MAKERS = {"array", "asarray", "zeros", "ones", "empty", "full", "zeros_like", "ones_like", "empty_like", "arange", "linspace", "eye", "concatenate", "stack", "einsum", "copy", "asfearray", "broadcast"}


def _is_private_state(e):
    return isinstance(e, ast.Attribute) and isinstance(e.value, ast.Name) and e.value.id == "self" and e.attr.startswith("__") and not e.attr.endswith("__")


def _state_view(e, aliases, root=_is_private_state):
    from . import flow

    if root(e):
        return True
    if isinstance(e, ast.Name):
        return e.id in aliases
    if isinstance(e, ast.Subscript):
        return _state_view(e.value, aliases, root)
    if isinstance(e, ast.Attribute):
        return e.attr in flow.VIEW_METHODS and _state_view(e.value, aliases, root)
    if isinstance(e, ast.Call):
        d = dotted(e.func) or ""
        if d in flow.VIEW_CALLS and e.args:
            return _state_view(e.args[0], aliases, root)
        if isinstance(e.func, ast.Attribute) and e.func.attr in flow.VIEW_METHODS:
            return _state_view(e.func.value, aliases, root)
        if isinstance(e.func, ast.Attribute) and e.func.attr in ("get", "setdefault") and root(e.func.value):
            return True  # an entry of a state container
    if isinstance(e, ast.IfExp):
        return _state_view(e.body, aliases, root) or _state_view(e.orelse, aliases, root)
    return False


def _alias_names(fnode, root):
    aliases, changed = set(), True
    while changed:
        changed = False
        for n in ast.walk(fnode):
            if isinstance(n, ast.Assign):
                for t in n.targets:
                    if isinstance(t, ast.Name) and t.id not in aliases and _state_view(n.value, aliases, root):
                        aliases.add(t.id)
                        changed = True
                    elif isinstance(t, (ast.Tuple, ast.List)) and _state_view(n.value, aliases, root):
                        for x in t.elts:
                            if isinstance(x, ast.Name) and x.id not in aliases:
                                aliases.add(x.id)
                                changed = True
    return aliases


def _alias_sinks(fnode, aliases, root):
    from . import flow

    out = []
    for n in ast.walk(fnode):
        if isinstance(n, ast.AugAssign):
            t = n.target
            if isinstance(t, ast.Name) and t.id in aliases:
                out.append((n, f"`{norm_text(n)[:60]}` (in place for arrays)"))
            elif isinstance(t, ast.Subscript) and isinstance(t.value, ast.Name) and t.value.id in aliases:
                out.append((n, f"`{norm_text(n)[:60]}`"))
        elif isinstance(n, ast.Assign):
            for t in n.targets:
                if isinstance(t, ast.Subscript) and (isinstance(t.value, ast.Name) and t.value.id in aliases or (isinstance(t.value, ast.Subscript) and _state_view(t.value, aliases, lambda e: False))):
                    out.append((n, f"`{norm_text(t)[:50]} = ...`"))
        elif isinstance(n, ast.Call):
            d = dotted(n.func) or ""
            for k in n.keywords:
                if k.arg == "out" and _state_view(k.value, aliases, root):
                    out.append((n, f"out= of {d}"))
            if d in flow.INPLACE_NP and n.args and _state_view(n.args[0], aliases, root):
                out.append((n, f"{d}(...)"))
            if isinstance(n.func, ast.Attribute) and n.func.attr in ("fill", "sort", "resize", "itemset", "partition", "put") and _state_view(n.func.value, aliases, root):
                out.append((n, f".{n.func.attr}()"))
    return out


def state_alias_rule(ctx, rid, scope, min_instances=50):
    """Stored state (private attributes) is replaced, never edited through a local name: `x = self.__a` followed by
    `x += ...` / `x[i] = ...` writes the object's state in place from whatever function does it (a query such as
    Get_normals_e_pg(displacementMatrix) would move the mesh).  Whole-entry stores `self.__d[key] = value` directly on the
    attribute are the mutators' idiom and are not concerned."""
    repo = ctx.repo
    r = ctx.rule(rid, "no in-place write through a local alias of a private attribute (state is read through copying accessors or replaced as a whole)", min_instances=min_instances)
    for f in repo.all_functions():
        if f.cls is None or not scope(f):
            continue
        r.instance(fn=f.qualname)
        aliases = _alias_names(f.node, _is_private_state)
        sinks = _alias_sinks(f.node, aliases, _is_private_state) if aliases else []
        if sinks:
            n, d = sinks[0]
            r.fail(f.qualname, "state-alias-write", f.file, n.lineno, f"{f.cls.name}.{f.name}", f"{d} writes through `{sorted(aliases)[0]}`, a local alias of the object's private state: the stored array is modified in place (no invalidation, cumulative over calls)")
        else:
            r.ok()


def shared_container_rule(ctx, rid, scope, min_instances=50):
    """A container stored on the CLASS is shared by every instance.  A method that fills it (memo keyed by shape / type
    ...) and hands an array entry out -- bound to instance state, returned, or written into -- without a copy makes
    separate objects (trial and test field, two quadrature objects) share one buffer."""
    repo = ctx.repo
    r = ctx.rule(rid, "arrays kept in a class-level container are not handed out to instances without a copy (no buffer shared between instances)", min_instances=min_instances)

    def array_typed(f, expr, depth=2):
        """evidence that the expression is an ndarray: built by a numpy / FeArray constructor, directly, through a local, or by a callee's return"""
        todo, seen = [expr], set()
        defs = {}
        for n in ast.walk(f.node):
            if isinstance(n, ast.Assign):
                for t in n.targets:
                    for x in ast.walk(t):
                        if isinstance(x, ast.Name) and isinstance(x.ctx, ast.Store):
                            defs.setdefault(x.id, []).append(n.value)
        while todo:
            e = todo.pop()
            for x in ast.walk(e):
                if isinstance(x, ast.Call):
                    d = dotted(x.func) or ""
                    if d.split(".")[-1] in ARRAY_MAKERS and (d.startswith("np.") or d.startswith("FeArray.")):
                        return True
                    if depth > 0:
                        r0 = repo.resolve_name(f.module, d) if d else None
                        cands = []
                        if r0 is not None and hasattr(r0, "node") and isinstance(r0.node, ast.FunctionDef):
                            cands = [r0]
                        elif isinstance(x.func, ast.Attribute) and f.cls is not None:
                            g = repo.lookup_method(f.cls, x.func.attr)
                            if g is not None:
                                cands = [g]
                        for g in cands:
                            for ret in ast.walk(g.node):
                                if isinstance(ret, ast.Return) and ret.value is not None and array_typed(g, ret.value, depth - 1):
                                    return True
                if isinstance(x, ast.Name) and x.id in defs and x.id not in seen:
                    seen.add(x.id)
                    todo.extend(defs[x.id])
        return False

    for f in repo.all_functions():
        ci = f.cls
        if ci is None or not scope(f):
            continue
        r.instance(fn=f.qualname)
        names = {ci.name, "cls", "type(self)", "self.__class__"}

        def is_class_container(e, names=names):
            return isinstance(e, ast.Attribute) and (dotted(e.value) or "") in names and not isinstance(e.ctx, ast.Store)

        # does the method fill a class-level container with an array?
        fills = []
        for n in ast.walk(f.node):
            if isinstance(n, ast.Assign):
                for t in n.targets:
                    if isinstance(t, ast.Subscript) and isinstance(t.value, ast.Attribute) and (dotted(t.value.value) or "") in names:
                        if array_typed(f, n.value):
                            fills.append((n, t.value.attr))
            elif isinstance(n, ast.Call) and isinstance(n.func, ast.Attribute) and n.func.attr in ("setdefault", "append", "update") and isinstance(n.func.value, ast.Attribute) and (dotted(n.func.value.value) or "") in names:
                if any(array_typed(f, a) for a in n.args):
                    fills.append((n, n.func.value.attr))
        if not fills:
            r.ok()
            continue
        root = lambda e: isinstance(e, ast.Subscript) and is_class_container(e.value) or (isinstance(e, ast.Call) and isinstance(e.func, ast.Attribute) and e.func.attr in ("get", "setdefault") and is_class_container(e.func.value))
        aliases = _alias_names(f.node, root)
        # the freshly built value stored in the container is an alias of the entry too
        for n, _ in fills:
            if isinstance(n, ast.Assign) and isinstance(n.value, ast.Name):
                aliases.add(n.value.id)
        escapes = []
        for n in ast.walk(f.node):
            if isinstance(n, ast.Return) and n.value is not None and _state_view(n.value, aliases, root):
                escapes.append((n, "returned"))
            elif isinstance(n, ast.Assign):
                for t in n.targets:
                    tl = t.elts if isinstance(t, (ast.Tuple, ast.List)) else [t]
                    if any(isinstance(x, ast.Attribute) and isinstance(x.value, ast.Name) and x.value.id == "self" for x in tl) and _state_view(n.value, aliases, root):
                        escapes.append((n, "bound to instance state"))
        escapes += [(n, "written in place: " + d) for n, d in _alias_sinks(f.node, aliases, root)]
        if escapes:
            n, how = escapes[0]
            r.fail(f.qualname, f"class-level-buffer:{fills[0][1].lstrip('_')}", f.file, n.lineno, f"{ci.name}.{f.name}", f"an array kept in the class-level container `{ci.name}.{fills[0][1]}` is {how} without a copy: every instance (e.g. the trial field and its copy the test field; every Gauss object of one element type) shares that buffer, a write through one of them changes the others")
        else:
            r.ok()


SCALAR_ATTRS = {"shape", "size", "ndim", "dtype", "nnz", "format"}


def copy_out_rule(ctx, rid, method_names, base_cls, min_instances=2):
    """The matrices / vectors a simulation stores are handed out as whole copies: every occurrence of stored state in a
    returned expression is `<state>.copy()` (or a scalar attribute such as .shape).  A partial copy -- private values,
    shared index arrays -- lets a structural edit of the returned object rewrite the stored pattern."""
    from .flow import Locals

    repo = ctx.repo
    r = ctx.rule(rid, "stored matrices are returned as whole copies: each occurrence of stored state in a returned expression is `<state>.copy()` (or a scalar attribute)", min_instances=min_instances)
    base = repo.cls(base_cls)
    for ci in [base] + repo.subclasses(base):
        for mname in method_names:
            f = ci.methods.get(mname)
            if f is None or f.cls is not ci:
                continue
            r.instance(fn=f.qualname)
            L = Locals(f.node)
            bad = None
            for ret in ast.walk(f.node):
                if not isinstance(ret, ast.Return) or ret.value is None:
                    continue
                e = L.expand(ret.value)
                ast.fix_missing_locations(e)
                parents = {}
                for p in ast.walk(e):
                    for c in ast.iter_child_nodes(p):
                        parents[c] = p
                # comprehension variables ranging over state are state roots
                loopvars = set()
                for n in ast.walk(e):
                    if isinstance(n, ast.comprehension) and any(_is_private_state(x) for x in ast.walk(n.iter)):
                        loopvars |= {x.id for x in ast.walk(n.target) if isinstance(x, ast.Name)}
                for n in ast.walk(e):
                    is_root = _is_private_state(n) or (isinstance(n, ast.Name) and n.id in loopvars and isinstance(n.ctx, ast.Load))
                    if not is_root:
                        continue
                    p = parents.get(n)
                    if isinstance(p, ast.comprehension) or (isinstance(p, (ast.Tuple, ast.List)) and isinstance(parents.get(p), ast.comprehension)):
                        continue  # the iterable itself
                    if isinstance(p, ast.Attribute) and p.value is n:
                        if p.attr in SCALAR_ATTRS:
                            continue
                        pp = parents.get(p)
                        if p.attr == "copy" and isinstance(pp, ast.Call) and pp.func is p:
                            continue
                    bad = (ret, n, p)
                    break
                if bad:
                    break
            if bad:
                ret, n, p = bad
                r.fail(f.qualname, "partial-copy", f.file, ret.lineno, f"{ci.name}.{mname}", f"stored state `{norm_text(n)}` reaches the returned value as `{norm_text(p)[:60] if p is not None else norm_text(n)}` (not a whole `.copy()`): the caller's object shares arrays with the stored matrix / the cached sparsity pattern")
            else:
                r.ok(f"{ci.name}.{mname}: whole copies")


def group_loop_rule(ctx, rid, scope, min_instances=5):
    """Meshes may hold several element groups of the main dimension (QUAD4 + TRI3, PRISM boundary = TRI + QUAD).  A loop
    over the groups that leaves early -- `break`, or `return <value>` from inside the body -- handles the first group(s)
    only: points lying in a later group are not located, its elements are not assembled / integrated / moved."""
    repo = ctx.repo
    r = ctx.rule(rid, "loops over the element groups of a mesh visit every group (no break, no value returned from inside the loop)", min_instances=min_instances)

    def early_exits(body):
        out = []
        for st in body:
            if isinstance(st, ast.Break):
                out.append(st)
            elif isinstance(st, ast.Return):
                if st.value is not None and not (isinstance(st.value, ast.Constant) and st.value.value is None):
                    out.append(st)
            elif isinstance(st, (ast.For, ast.While)):
                # a break inside belongs to the inner loop; a return still leaves the function
                out += [x for x in early_exits(st.body) + early_exits(st.orelse) if isinstance(x, ast.Return)]
            elif isinstance(st, ast.If):
                out += early_exits(st.body) + early_exits(st.orelse)
            elif isinstance(st, (ast.With, ast.Try)):
                out += early_exits(st.body)
                for h in getattr(st, "handlers", []):
                    out += early_exits(h.body)
                out += early_exits(getattr(st, "orelse", [])) + early_exits(getattr(st, "finalbody", []))
        return out

    for f in repo.all_functions():
        if not scope(f):
            continue
        for n in ast.walk(f.node):
            if isinstance(n, ast.For) and any(k in norm_text(n.iter) for k in ("Get_list_groupElem", "dict_groupElem", "list_groupElem")):
                r.instance(fn=f.qualname)
                ex = early_exits(n.body)
                if ex:
                    x = ex[0]
                    r.fail(f.qualname, f"group-loop-exit:{type(x).__name__.lower()}", f.file, x.lineno, f.name, f"`{norm_text(x)[:50]}` leaves the loop over `{norm_text(n.iter)[:50]}` before every element group was visited: on a mesh mixing element types the later groups are skipped")
                else:
                    r.ok()


def group_loop_leak_rule(ctx, rid, scope, min_instances=5):
    """A value built per element group inside `for groupElem in <groups>` and used AFTER the loop is the last group's
    value only: a treatment applied to it there (thickness rescale, storage, conversion) reaches one group of a mixed
    mesh."""
    repo = ctx.repo
    r = ctx.rule(rid, "no per-group value is used after the loop over the element groups (a treatment placed after the loop reaches the last group only)", min_instances=min_instances)
    for f in repo.all_functions():
        if not scope(f):
            continue

        def scan(stmts):
            for i, st in enumerate(stmts):
                if isinstance(st, ast.For) and any(k in norm_text(st.iter) for k in ("Get_list_groupElem", "dict_groupElem", "list_groupElem")):
                    r.instance(fn=f.qualname)
                    inside = {x.id for b in st.body for x in ast.walk(b) if isinstance(x, ast.Name) and isinstance(x.ctx, ast.Store)}
                    inside |= {x.id for x in ast.walk(st.target) if isinstance(x, ast.Name)}
                    before = {x.id for s in stmts[:i] for x in ast.walk(s) if isinstance(x, ast.Name) and isinstance(x.ctx, ast.Store)}
                    before |= {a.arg for a in f.node.args.args + f.node.args.kwonlyargs}
                    live = inside - before
                    leak = None
                    for s2 in stmts[i + 1:]:
                        if not live:
                            break
                        reads = {x.id for x in ast.walk(s2) if isinstance(x, ast.Name) and isinstance(x.ctx, ast.Load)}
                        reads |= {x.target.id for x in ast.walk(s2) if isinstance(x, ast.AugAssign) and isinstance(x.target, ast.Name)}
                        hit = live & reads
                        if hit:
                            leak = (sorted(hit)[0], s2)
                            break
                        stores = {x.id for x in ast.walk(s2) if isinstance(x, ast.Name) and isinstance(x.ctx, ast.Store)}
                        live -= stores
                    if leak:
                        nm, s2 = leak
                        r.fail(f.qualname, f"per-group-value-after-loop:{nm}", f.file, s2.lineno, f.name, f"`{nm}` is built inside the loop over `{norm_text(st.iter)[:40]}` and used after it in `{norm_text(s2)[:60]}`: only the last element group is concerned")
                    else:
                        r.ok()
                for attr in ("body", "orelse", "finalbody"):
                    sub = getattr(st, attr, None)
                    if isinstance(sub, list) and sub and isinstance(sub[0], ast.stmt):
                        scan(sub)

        scan(f.node.body)


def flag_pair_rule(ctx, rid, scope, min_instances=1):
    """A mode flag raised for the duration of a call (`self.X = True ... self.X = False`) is lowered on every path that
    completes: an early return between the two leaves the object in the temporary mode for every later call."""
    repo = ctx.repo
    r = ctx.rule(rid, "a flag raised for the duration of a call is lowered again on every completing path", min_instances=min_instances)
    for f in repo.all_functions():
        if f.cls is None or not scope(f):
            continue
        body = f.node.body
        firsts = {}
        for i, st in enumerate(body):
            if isinstance(st, ast.Assign) and len(st.targets) == 1 and isinstance(st.value, ast.Constant) and isinstance(st.value.value, bool):
                t = st.targets[0]
                if isinstance(t, ast.Attribute) and isinstance(t.value, ast.Name) and t.value.id == "self":
                    firsts.setdefault(t.attr, []).append((i, st.value.value))
        for attr, occ in firsts.items():
            if len(occ) < 1:
                continue
            i0, v0 = occ[0]
            # a later store of the opposite constant anywhere after the first one
            def is_reset(st, attr=attr, v0=v0):
                if isinstance(st, (ast.If, ast.For, ast.While, ast.With, ast.Try)):
                    return False
                return any(isinstance(x, ast.Assign) and isinstance(x.value, ast.Constant) and x.value.value is (not v0) and any(isinstance(t, ast.Attribute) and isinstance(t.value, ast.Name) and t.value.id == "self" and t.attr == attr for t in x.targets) for x in ast.walk(st))

            rest = body[i0 + 1:]
            if not any(is_reset(x) for st in rest for x in ast.walk(st) if isinstance(x, ast.stmt)):
                continue  # not a raise / lower pair in this function
            r.instance(fn=f.qualname)
            if must_pass(rest, is_reset):
                r.ok(f"{f.cls.name}.{f.name}: self.{attr} = {v0} ... = {not v0} on every path")
            else:
                r.fail(f.qualname, f"flag-not-lowered:{attr.lstrip('_')}", f.file, body[i0].lineno, f"{f.cls.name}.{f.name}", f"`self.{attr} = {v0}` is set for the duration of the call but a path returns before `self.{attr} = {not v0}`: the object stays in the temporary mode, every later use (and every copy) behaves as if the call were still running")


def commit_idempotent_rule(ctx, rid, min_instances=2):
    """Save_Iter commits trial state into history state (`self.__old = self.__new`).  Saving twice without a solve in
    between (a checkpoint) must leave the history where the first save put it: a commit statement never overwrites an
    attribute that another commit of the same override reads (no swap / rotation of buffers)."""
    repo = ctx.repo
    r = ctx.rule(rid, "Save_Iter overrides are idempotent commits: no attribute written by the commit is also read by it (no buffer swap): a second save without a solve changes nothing", min_instances=min_instances)
    simu = repo.cls("EasyFEA.Simulations._simu._Simu")
    for ci in repo.subclasses(simu):
        f = ci.methods.get("Save_Iter")
        if f is None or f.cls is not ci:
            continue
        written, read = {}, {}
        for n in ast.walk(f.node):
            if isinstance(n, (ast.Assign, ast.AugAssign)):
                targets = n.targets if isinstance(n, ast.Assign) else [n.target]
                flat = []
                for t in targets:
                    flat += list(t.elts) if isinstance(t, (ast.Tuple, ast.List)) else [t]
                ws = [t.attr for t in flat if isinstance(t, ast.Attribute) and isinstance(t.value, ast.Name) and t.value.id == "self"]
                if not ws:
                    continue
                for w in ws:
                    written[w] = n
                for x in ast.walk(n.value):
                    if isinstance(x, ast.Attribute) and isinstance(x.value, ast.Name) and x.value.id == "self" and isinstance(x.ctx, ast.Load):
                        read.setdefault(x.attr, n)
                if isinstance(n, ast.AugAssign):
                    for w in ws:
                        read.setdefault(w, n)
        if not written:
            continue
        r.instance(fn=f.qualname)
        both = sorted(set(written) & set(read))
        if both:
            a = both[0]
            r.fail(f.qualname, f"non-idempotent-commit:{a.lstrip('_')}", f.file, written[a].lineno, f"{ci.name}.Save_Iter", f"`self.{a}` is both written and read by the commit (`{norm_text(written[a])[:80]}`): a second Save_Iter without a solve in between does not leave the history unchanged (buffers are swapped back: the committed history returns to the previous step's)")
        else:
            r.ok(f"{ci.name}.Save_Iter commits {sorted(written)} from {sorted(read)}")


def snapshot_rule(ctx, rid, cg=None, scope=None, min_instances=0):
    """A value computed in __init__ from the state of a collaborator that stays attached to the object (a model built
    on an elastic law, a simulation built on a model) is a snapshot: when the collaborator's parameters change later the
    object's other accessors follow (they read the collaborator live) but the snapshot does not, unless the object
    rebuilds it (it is stored again somewhere) -- the two halves of the object then describe different materials."""
    from .flow import CallGraph, Locals

    repo = ctx.repo
    cg = cg or CallGraph(repo)
    r = ctx.rule(rid, "no value derived in __init__ from the parameters of an attached, mutable collaborator is kept without a rebuild path (the object's live accessors and the snapshot would disagree after a parameter change)", min_instances=min_instances)
    pcls = repo.cls("EasyFEA.Utilities._params._Parameter")

    def descriptors(ci):
        out = set()
        for c in [ci] + repo.subclasses(ci):
            for k in c.mro:
                for nm, expr in k.class_attrs.items():
                    if isinstance(expr, ast.Call):
                        pc = repo.resolve_name(k.module, dotted(expr.func) or "")
                        if pc is not None and pcls in getattr(pc, "mro", []):
                            out.add(nm)
        return out

    def reads_params(pclass, member, desc, depth=6):
        """does pclass.<member> (property or method, overrides included) transitively read one of the descriptors?"""
        seen, todo = set(), list(cg.resolve_self_attr(pclass, member, include_overrides=True))
        while todo and depth:
            g = todo.pop()
            if id(g) in seen or g.cls is None:
                continue
            seen.add(id(g))
            for n in ast.walk(g.node):
                if isinstance(n, ast.Attribute) and isinstance(n.value, ast.Name) and n.value.id == "self":
                    if n.attr in desc:
                        return n.attr
                    todo.extend(cg.resolve_self_attr(g.cls, n.attr, include_overrides=True))
        return None

    for ci in sorted(repo.classes.values(), key=lambda c: c.qualname):
        if scope is not None and not scope(ci):
            continue
        init = ci.methods.get("__init__")
        if init is None or init.cls is not ci:
            continue
        L = Locals(init.node)
        params = {a.arg: a.annotation for a in init.node.args.args + init.node.args.kwonlyargs}
        stored_params = {}
        for n in ast.walk(init.node):
            if isinstance(n, ast.Assign) and isinstance(n.value, ast.Name) and n.value.id in params:
                for t in n.targets:
                    if isinstance(t, ast.Attribute) and isinstance(t.value, ast.Name) and t.value.id == "self":
                        stored_params[n.value.id] = t.attr
        if not stored_params:
            continue
        for n in ast.walk(init.node):
            if not (isinstance(n, ast.Assign) and len(n.targets) == 1):
                continue
            t = n.targets[0]
            if not (isinstance(t, ast.Attribute) and isinstance(t.value, ast.Name) and t.value.id == "self"):
                continue
            rhs = L.expand(n.value)
            for x in ast.walk(rhs):
                if not (isinstance(x, ast.Attribute) and isinstance(x.value, ast.Name) and x.value.id in stored_params):
                    continue
                p = x.value.id
                ann = params.get(p)
                pclass = repo.resolve_name(ci.module, dotted(ann) or "") if ann is not None and dotted(ann) else None
                if not hasattr(pclass, "mro"):
                    continue
                desc = descriptors(pclass)
                if not desc:
                    continue
                via = x.attr if x.attr in desc else (reads_params(pclass, x.attr, desc - {"dim", "thickness"}) or reads_params(pclass, x.attr, desc))
                if via is None:
                    continue
                r.instance(fn=init.qualname)
                A = ci.mangle(t.attr)
                rebuilt = False
                for c in [ci] + repo.subclasses(ci):
                    for g in list(c.methods.values()) + list(c.setters.values()):
                        if g.name == "__init__":
                            continue
                        if any(a == A for a, _, _ in self_stores(g)):
                            rebuilt = True
                if rebuilt:
                    r.ok(f"{ci.name}.{t.attr}: derived from {p}.{x.attr}, rebuilt outside __init__")
                else:
                    r.fail(init.qualname, f"snapshot:{t.attr.lstrip('_')}<-{p}.{x.attr}", init.file, n.lineno, f"{ci.name}.__init__", f"`self.{t.attr}` is computed once from `{p}.{x.attr}` (which depends on the parameter `{via}` of {pclass.name}) and never rebuilt, while `{p}` stays attached as `self.{stored_params[p]}` and is read live elsewhere: after `{p}.{via} = ...` the object mixes the new law with the snapshot of the old one")
                break


def zero_argument_division_rule(ctx, rid, scope, pname="dt", min_instances=1):
    """A call site that passes the literal 0 for a time-step parameter declares "no time elapses" (a pure read of the
    state).  Constant propagation along the call graph: that zero must not reach a division by the parameter on a path
    that is not guarded by a test of it -- 0/0 there turns a result query into NaN / a convergence failure."""
    from .flow import CallGraph

    repo = ctx.repo
    cg = CallGraph(repo)
    r = ctx.rule(rid, f"a literal 0 passed as `{pname}` (a read at frozen time) never reaches an unguarded division by `{pname}`", min_instances=min_instances)

    def bind(call, g, f):
        """parameter names of g bound to an expression of the call -> {param: expr}"""
        ps = g.params()
        off = 1 if (g.cls is not None and not g.is_static() and ps and ps[0] in ("self", "cls") and not (isinstance(call.func, ast.Attribute) and isinstance(call.func.value, ast.Name) and call.func.value.id == g.cls.name)) else 0
        out = {}
        for i, a in enumerate(call.args):
            if i + off < len(ps):
                out[ps[i + off]] = a
        for k in call.keywords:
            if k.arg in ps:
                out[k.arg] = k.value
        # defaults that are literal zero count as passed zeros when the argument is omitted
        return out

    def is_zero_lit(e):
        return isinstance(e, ast.Constant) and isinstance(e.value, (int, float)) and not isinstance(e.value, bool) and e.value == 0

    def divisions(g, p, path, seen, out, depth=6):
        if (id(g), p) in seen or depth < 0:
            return
        seen.add((id(g), p))
        parents = {}
        for q in ast.walk(g.node):
            for c in ast.iter_child_nodes(q):
                parents[c] = q
        for n in ast.walk(g.node):
            if isinstance(n, ast.BinOp) and isinstance(n.op, ast.Div) and any(isinstance(x, ast.Name) and x.id == p for x in ast.walk(n.right)):
                guarded = False
                q = n
                while q in parents:
                    q = parents[q]
                    if isinstance(q, (ast.If, ast.IfExp)) and any(isinstance(x, ast.Name) and x.id == p for x in ast.walk(q.test)):
                        guarded = True
                if not guarded:
                    out.append((g, n, list(path)))
            if isinstance(n, ast.Call):
                for h in cg.resolve_call(g, n):
                    b = bind(n, h, g)
                    for hp, e in b.items():
                        if isinstance(e, ast.Name) and e.id == p:
                            divisions(h, hp, path + [g.qualname.split(".")[-1]], seen, out, depth - 1)

    for f in repo.all_functions():
        if not scope(f):
            continue
        for n in ast.walk(f.node):
            if not isinstance(n, ast.Call):
                continue
            for g in cg.resolve_call(f, n):
                b = bind(n, g, f)
                if pname in b and is_zero_lit(b[pname]):
                    r.instance(fn=f.qualname)
                    out = []
                    divisions(g, pname, [f.qualname.split(".")[-1]], set(), out)
                    if out:
                        h, node, path = out[0]
                        r.fail(f.qualname, f"zero-{pname}-division:{h.qualname.split('.')[-1]}", f.file, n.lineno, f.name, f"`{norm_text(n)[:60]}` passes {pname} = 0; along {' -> '.join(path + [h.qualname.split('.')[-1]])} it reaches `{norm_text(node)[:50]}` ({h.file}:{node.lineno}) with no test of {pname}: 0/0 = NaN when that branch is active (e.g. a rate law on the spectral path)")
                    else:
                        r.ok(f"{f.qualname}: {pname}=0 reaches no unguarded division")


def decorator_memo_rule(ctx, rid, class_filter, min_instances=1):
    """Methods memoised by the cache decorator (key: method name and arguments) on classes selected by `class_filter`:
    every attribute of self the memoised value is computed from (directly, or through the self-methods / properties it
    calls) is either never stored after construction, or each method / setter that stores it clears the memo
    (clear_cached_computed_values).  Witness of a violation: the storing method -- compute, call it, read again."""
    from .flow import CallGraph, self_stores, self_reads

    repo = ctx.repo
    cg = CallGraph(repo)
    r = ctx.rule(rid, "decorator-memoised methods: every self attribute the memoised value depends on is immutable after construction, or each method that stores it clears the memo", min_instances=min_instances)
    for ci in sorted(repo.classes.values(), key=lambda c: c.qualname):
        if not class_filter(ci):
            continue
        cached = [f for f in {id(f): f for c in ci.mro for f in c.methods.values() if f.cls is c and f.is_cached()}.values()]
        if not cached:
            continue
        # stores after construction, by attribute, over the class, its bases and its subclasses
        classes = [c for c in ci.mro if not c.qualname.startswith("builtins")]
        storers = {}
        for c in classes:
            for g in list(c.methods.values()) + list(c.setters.values()):
                if g.cls is not c or g.name in ("__init__", "__new__", "__setstate__"):
                    continue
                for a, n, kind in self_stores(g):
                    storers.setdefault(a, []).append(g)
        for f in sorted(cached, key=lambda f: f.qualname):
            r.instance(fn=f.qualname)
            # transitive reads through self
            reads, seen, todo = set(), set(), [f]
            while todo:
                g = todo.pop()
                if id(g) in seen:
                    continue
                seen.add(id(g))
                for a in self_reads(g):
                    reads.add(a)
                for h in cg.callees(g):
                    if h.cls is not None and h.cls in ci.mro:
                        todo.append(h)
            bad = None
            for a in sorted(reads):
                for g in storers.get(a, []):
                    clears = any(isinstance(n, ast.Call) and (dotted(n.func) or "").split(".")[-1] == "clear_cached_computed_values" for h in cg.reachable([g], limit=50) for n in ast.walk(h.node))
                    if not clears:
                        bad = (a, g)
                        break
                if bad:
                    break
            if bad:
                a, g = bad
                kind = "setter" if g.is_setter() else "method"
                short = a.split("__")[-1] if "__" in a else a
                r.fail(g.qualname + (".setter" if g.is_setter() else ""), f"stale-memo:{short}", g.file, g.lineno, f"{g.cls.name}.{g.name}", f"the {kind} {g.cls.name}.{g.name} stores self.{short} without clearing the memo of the decorator-memoised methods computed from it (e.g. {f.cls.name}.{f.name}, keyed by its arguments only): compute, assign, read again -> the value of the old state")
            else:
                r.ok(f"{f.qualname}: inputs immutable or memo cleared by their mutators")


def notify_last_rule(ctx, rid, min_instances=4):
    """Observers are told of a change once the change is complete: in every function that calls `self._Notify(...)`, no
    statement that can run after the notification stores state through self (directly, through a method of self, or
    through super()).  An observer that reads the object inside its callback -- the first 'next read' -- otherwise sees
    the flags / values of the old state."""
    from .flow import CallGraph, self_stores

    repo = ctx.repo
    cg = CallGraph(repo)
    r = ctx.rule(rid, "notification comes last: nothing that runs after self._Notify(...) in the notifying function stores state through self", min_instances=min_instances)

    def stores_state(st, f):
        for n in ast.walk(st):
            if isinstance(n, ast.Attribute) and isinstance(n.value, ast.Name) and n.value.id == "self" and isinstance(n.ctx, (ast.Store, ast.Del)):
                return f"stores self.{n.attr}"
            if isinstance(n, ast.Call):
                if (dotted(n.func) or "").split(".")[-1] == "_Notify":
                    continue
                for g in cg.resolve_call(f, n):
                    if g.cls is not None and f.cls is not None and (g.cls in f.cls.mro or f.cls in g.cls.mro):
                        for h in cg.reachable([g], limit=30):
                            if h.cls is not None and (h.cls in f.cls.mro or f.cls in h.cls.mro) and any(kind for a, _, kind in self_stores(h)):
                                return f"calls {g.cls.name}.{g.name}, which stores state"
        return None

    def has_notify(st):
        return any(isinstance(n, ast.Call) and (dotted(n.func) or "") == "self._Notify" for n in ast.walk(st))

    def after(body, f):
        """first state-storing statement that can run after a notification in this block (recursively)"""
        seen = False
        for st in body:
            if seen:
                why = stores_state(st, f)
                if why:
                    return st, why
            if isinstance(st, (ast.If, ast.For, ast.While, ast.With, ast.Try)):
                for blk in [getattr(st, "body", []), getattr(st, "orelse", []), getattr(st, "finalbody", [])] + [h.body for h in getattr(st, "handlers", [])]:
                    res = after(blk, f)
                    if res:
                        return res
            if has_notify(st):
                seen = True
        return None

    for f in sorted(repo.all_functions(), key=lambda f: f.qualname):
        if f.cls is None or f.name == "_Notify" or not has_notify(f.node):
            continue
        r.instance(fn=f.qualname)
        res = after(f.node.body, f)
        if res:
            st, why = res
            r.fail(f.qualname, "state-after-notify", f.file, st.lineno, f"{f.cls.name}.{f.name}", f"`{norm_text(st)[:70]}` runs after the observers were notified and {why}: an observer reading the object in its callback sees the state of before the change")
        else:
            r.ok(f"{f.qualname}: the notification is the last state-relevant step")


# ---------------------------------------------------------------------------
# thickness homogeneity of the element systems (abstract interpretation: the value domain is the degree in the thickness)
# ---------------------------------------------------------------------------


class Deg:
    """an array whose every term carries the thickness `d` times (`mixed`: its terms disagree)"""

    _xeval_open = True
    __array_priority__ = 1000

    def __init__(self, d):
        self.d = d

    @staticmethod
    def of(x):
        return x.d if isinstance(x, Deg) else 0

    def _mul(self, o):
        a, b = self.d, Deg.of(o)
        return Deg("mixed" if "mixed" in (a, b) else a + b)

    def _add(self, o):
        if isinstance(o, (int, float)) and o == 0:
            return Deg(self.d)
        a, b = self.d, Deg.of(o)
        return Deg(a if a == b else "mixed")

    __mul__ = __rmul__ = __matmul__ = __rmatmul__ = _mul
    __add__ = __radd__ = __sub__ = __rsub__ = _add

    def __truediv__(self, o):
        a, b = self.d, Deg.of(o)
        return Deg("mixed" if "mixed" in (a, b) else a - b)

    def __rtruediv__(self, o):
        return Deg("mixed" if self.d == "mixed" else -self.d)

    def __neg__(self):
        return Deg(self.d)

    def __getitem__(self, k):
        return Deg(self.d)

    def __getattr__(self, name):
        if name in ("T",):
            return Deg(self.d)
        if name in ("copy", "integrate", "sum", "mean", "reshape", "astype", "transpose", "ravel"):
            return lambda *a, **k: Deg(self.d)
        if name in ("shape",):
            return (1, 1)
        raise AttributeError(name)

    def __repr__(self):
        return f"Deg({self.d})"


class Loose:
    """any object of the simulation's surroundings: attributes and calls give Loose values, `thickness` has degree one,
    dimensions are 2, truth values follow the schedule of the run"""

    _xeval_open = True
    _xeval_truth = True
    truth = True
    arity = {"Integrate": 4, "Calc_C": 2, "Calc_psi_e_pg": 2}

    def __init__(self, name=""):
        object.__setattr__(self, "_name", name)

    def __getattr__(self, name):
        if name.startswith("__") and name.endswith("__"):
            raise AttributeError(name)
        if "thickness" in name.lower():
            return Deg(1)
        if name in ("dim", "inDim"):
            return 2
        return Loose(name)

    def __call__(self, *a, **k):
        n = Loose.arity.get(object.__getattribute__(self, "_name"))
        return tuple(Loose() for _ in range(n)) if n else Loose()

    def __bool__(self):
        return Loose.truth

    def _same(self, *a):
        return Loose()

    # arithmetic: a Loose value is an array that does not carry the thickness (degree 0)
    def _mul(self, o):
        return Deg(0)._mul(o) if isinstance(o, Deg) else Loose()

    def _add(self, o):
        return Deg(0)._add(o) if isinstance(o, Deg) else Loose()

    def __truediv__(self, o):
        return Deg(0).__truediv__(o) if isinstance(o, Deg) else Loose()

    def __rtruediv__(self, o):
        return o.__truediv__(Deg(0)) if isinstance(o, Deg) else Loose()

    __mul__ = __rmul__ = __matmul__ = __rmatmul__ = _mul
    __add__ = __radd__ = __sub__ = __rsub__ = _add
    __getitem__ = __pow__ = __lt__ = __le__ = __gt__ = __ge__ = _same

    def __neg__(self):
        return Loose()

    def __invert__(self):
        return Loose()

    def __setitem__(self, k, v):
        pass

    def __iter__(self):
        raise TypeError("a Loose value is not a sequence")

    def __contains__(self, x):
        return Loose.truth

    def __eq__(self, o):
        return Loose.truth

    def __hash__(self):
        return id(self)

    def __repr__(self):
        return "<loose>"


def element_system_thickness_rule(ctx, rid, class_names, min_instances=5):
    """In a 2-D analysis every array of the element system a simulation hands to the assembly (K_e, C_e, M_e, F_e per
    group) is homogeneous of degree one in the thickness, whatever the flags of the model (plane stress or plane
    strain, optional terms present or not).  Construct_local_matrix_system of each class is interpreted over the
    degree domain: operator calls give degree 0, `thickness` degree 1, products add, sums must agree; every truth
    value the surroundings supply is run both ways."""
    from types import SimpleNamespace

    from .xeval import Interp, XObj, Sink, XRaise, Uninterpretable, FuncInfo, _Bound, Opaque, _NpAttr

    repo = ctx.repo
    r = ctx.rule(rid, "2-D element systems: every array returned by Construct_local_matrix_system carries the thickness exactly once, for both truth values of every model flag", min_instances=min_instances)
    for cname in class_names:
        ci = repo.cls(cname)
        f = repo.lookup_method(ci, "Construct_local_matrix_system")
        pts = ["pt"]
        pt_cls = ci.nested.get("ProblemTypes")
        if pt_cls is not None:
            pts = [t.id for st in pt_cls.node.body if isinstance(st, ast.Assign) for t in st.targets if isinstance(t, ast.Name)] or pts
        # (truth value of the model flags, dimension of the space the 2-D mesh lies in: planar, or tilted / rotated out of plane)
        for pt in pts:
            for truth, inDim in ((True, 2), (False, 2), (True, 3)):
                r.instance(fn=f.qualname)
                Loose.truth = truth
                G = Loose("groupElem")
                mesh = SimpleNamespace(dim=2, inDim=inDim, Nn=4, groupElem=G, Get_list_groupElem=lambda *a, **k: [G])
                from .xarray import XArray as _XA

                fields = {"displacement": _XA((8,), [0] * 8), "damage": _XA((4,), [0] * 4), "thermal": _XA((4,), [0] * 4)}
                obj = XObj(ci, dict(fields, dim=2, mesh=mesh, _verbosity=False, ProblemTypes=SimpleNamespace(**{p: p for p in pts}), problemType=pt))

                def attr_hook(o, name, obj=obj, ci=ci):
                    if o is not obj:
                        return NotImplemented
                    if name in obj.attrs:
                        return obj.attrs[name]
                    for c in ci.mro:
                        m = c.mangle(name)
                        if m in obj.attrs:
                            return obj.attrs[m]
                    g = repo.lookup_method(ci, name)
                    if g is not None and g.cls is not None and g.cls.module.name.startswith("EasyFEA.Simulations") and g.cls.name != "_Simu":
                        return NotImplemented  # the class's own helpers are interpreted
                    if "thickness" in name.lower():
                        return Deg(1)
                    return Loose(name)

                def call_hook(fn, args, kwargs):
                    fi = fn if isinstance(fn, FuncInfo) else getattr(fn, "finfo", None)
                    if isinstance(fi, FuncInfo):
                        if fi.module.name.startswith("EasyFEA.FEM.Operators"):
                            return Deg(0)
                        if fi.name == "Tic" or fi.module.name.startswith("EasyFEA.Utilities"):
                            return Sink()
                    if isinstance(fn, Opaque):
                        return Loose()
                    if isinstance(fn, _NpAttr) and any(isinstance(a, (Loose, Deg)) for a in list(args) + list(kwargs.values())):
                        # numpy on values of the surroundings: shape bookkeeping, not thickness
                        if fn.path == "where" and len(args) == 1:
                            return (Loose(), Loose())
                        degs = [a for a in args if isinstance(a, Deg)]
                        return Deg(degs[0].d) if degs else Loose()
                    return NotImplemented

                I = Interp(repo, extra_builtins={"Tic": lambda *a, **k: Sink(), "int": lambda x=0: 0 if isinstance(x, Loose) else int(x)})
                I.attr_hook, I.call_hook = attr_hook, call_hook
                key = f"{ci.name}:{pt}:flags={truth}" + (":inDim3" if inDim == 3 else "")
                try:
                    out = I.call_function(f, [pt], self_obj=obj)
                except XRaise:
                    r.ok(f"{key}: rejected")  # an assertion of the method on the supplied flags: no system is produced
                    continue
                finally:
                    Loose.truth = True
                bad = None
                if not isinstance(out, dict) or not out:
                    bad = "no element system is returned"
                else:
                    for grp, tup in out.items():
                        for k, v in enumerate(tup):
                            if v is None:
                                continue
                            d = Deg.of(v)
                            if d != 1:
                                bad = f"{'KCMF'[k]}_e carries the thickness {'inconsistently across its terms' if d == 'mixed' else str(d) + ' time(s)'}"
                if bad:
                    r.fail(f.qualname, f"{pt}:flags={truth}", f.file, f.lineno, f"{ci.name}.Construct_local_matrix_system", f"2-D, problem {pt}, model flags {'set' if truth else 'cleared'}: {bad}: the element system is not the one of a plate of that thickness")
                else:
                    r.ok(f"{key}: degree 1")


def parameter_threading_rule(ctx, rid, scope, pname="dt", min_instances=3):
    """A function that is given a value for `pname` (the time step of the increment being integrated) hands that value to
    every callee that takes a parameter of the same name: an omitted argument lets the callee fall back on its default
    (no time elapses) inside a computation made for a finite step -- two halves of one update then disagree on the
    increment.  Call sites are resolved through the call graph; a site that passes an expression built from the
    caller's own value complies, a site that omits it does not (an explicit literal is the business of the zero rule)."""
    from .flow import CallGraph

    repo = ctx.repo
    cg = CallGraph(repo)
    r = ctx.rule(rid, f"`{pname}` threading: a function given `{pname}` passes it on to every callee that takes `{pname}` (no callee silently falls back on its default)", min_instances=min_instances)
    for f in sorted(repo.all_functions(), key=lambda f: f.qualname):
        if not scope(f) or pname not in f.params():
            continue
        for n in ast.walk(f.node):
            if not isinstance(n, ast.Call):
                continue
            for g in cg.resolve_call(f, n):
                ps = g.params()
                if pname not in ps or g is f:
                    continue
                off = 1 if (g.cls is not None and not g.is_static() and ps and ps[0] in ("self", "cls") and not (isinstance(n.func, ast.Attribute) and isinstance(n.func.value, ast.Name) and g.cls is not None and n.func.value.id == g.cls.name)) else 0
                idx = ps.index(pname) - off
                passed = None
                if 0 <= idx < len(n.args) and not any(isinstance(a, ast.Starred) for a in n.args[: idx + 1]):
                    passed = n.args[idx]
                for k in n.keywords:
                    if k.arg == pname:
                        passed = k.value
                    if k.arg is None:
                        passed = passed or k.value  # **kwargs: may carry it
                if any(isinstance(a, ast.Starred) for a in n.args):
                    passed = passed or n.args[0]
                r.instance(fn=f.qualname)
                if passed is None:
                    r.fail(f.qualname, f"omitted:{g.name}", f.file, n.lineno, f"{(f.cls.name + '.') if f.cls else ''}{f.name}", f"`{norm_text(n)[:70]}` omits `{pname}` although {f.name} was given one: {g.name} runs with its default while the rest of {f.name} uses the step it was given")
                else:
                    r.ok(f"{f.qualname} -> {g.name}: {pname} passed")
                break


def per_group_state_rule(ctx, rid, scope, min_instances=1):
    """A method that works on ONE element group (it takes the group as a parameter and is called with the loop variable of
    `for groupElem in <mesh>.Get_list_groupElem()`) keeps what it stores on the object apart per group: a plain
    `self.X = <value computed from that group>` that the object reads back later holds, on a mesh mixing element types,
    the LAST group's value for all of them (a history field of one group compared with, then overwritten by, another's).
    Accepted: `self.X[groupElem] = ...` (keyed by the group), values that do not depend on the group."""
    repo = ctx.repo
    r = ctx.rule(rid, "per-group methods (called with the loop variable of a loop over the element groups) store group-dependent state keyed by the group, never in one plain attribute that is read back", min_instances=min_instances)
    GROUP_ITERS = ("Get_list_groupElem", "dict_groupElem", "list_groupElem")
    by_class = {}
    for f in repo.all_functions():
        if f.cls is not None and scope(f):
            by_class.setdefault(f.cls.qualname, []).append(f)
    for cq, funcs in sorted(by_class.items()):
        # methods called with the loop variable of a group loop (also from comprehensions)
        per_group = {}
        for g in funcs:
            for n in ast.walk(g.node):
                loops = []
                if isinstance(n, ast.For) and any(k in norm_text(n.iter) for k in GROUP_ITERS):
                    loops.append(({x.id for x in ast.walk(n.target) if isinstance(x, ast.Name)}, n.body))
                elif isinstance(n, (ast.ListComp, ast.GeneratorExp, ast.SetComp, ast.DictComp)):
                    for gen in n.generators:
                        if any(k in norm_text(gen.iter) for k in GROUP_ITERS):
                            elts = [n.key, n.value] if isinstance(n, ast.DictComp) else [n.elt]
                            loops.append(({x.id for x in ast.walk(gen.target) if isinstance(x, ast.Name)}, elts))
                for names, body in loops:
                    for b in body:
                        for c in ast.walk(b):
                            if isinstance(c, ast.Call) and isinstance(c.func, ast.Attribute) and isinstance(c.func.value, ast.Name) and c.func.value.id == "self":
                                for pos, a in enumerate(c.args):
                                    if isinstance(a, ast.Name) and a.id in names:
                                        per_group.setdefault(c.func.attr, set()).add(pos)
                                for kw in c.keywords:
                                    if isinstance(kw.value, ast.Name) and kw.value.id in names and kw.arg:
                                        per_group.setdefault(c.func.attr, set()).add(kw.arg)
        if not per_group:
            continue
        reads_all = {}
        for g in funcs:
            for a in self_reads(g):
                reads_all.setdefault(a, set()).add(g.name)
        for g in funcs:
            slots = per_group.get(g.name) or (per_group.get(g.cls.mangle(g.name)) if g.name.startswith("__") else None)
            if not slots:
                continue
            params = [a.arg for a in g.node.args.args][1:]
            tainted = set()
            for s_ in slots:
                if isinstance(s_, int) and s_ < len(params):
                    tainted.add(params[s_])
                elif isinstance(s_, str):
                    tainted.add(s_)
            if not tainted:
                continue
            r.instance(fn=g.qualname)
            # forward taint through the local assignments (fixpoint)
            changed = True
            while changed:
                changed = False
                for n in ast.walk(g.node):
                    if isinstance(n, (ast.Assign, ast.AugAssign, ast.AnnAssign)) and getattr(n, "value", None) is not None:
                        if {x.id for x in ast.walk(n.value) if isinstance(x, ast.Name)} & tainted:
                            tg = n.targets if isinstance(n, ast.Assign) else [n.target]
                            for t in tg:
                                for x in (t.elts if isinstance(t, (ast.Tuple, ast.List)) else [t]):
                                    if isinstance(x, ast.Name) and x.id not in tainted:
                                        tainted.add(x.id)
                                        changed = True
            bad = None
            for n in ast.walk(g.node):
                if not isinstance(n, ast.Assign):
                    continue
                for t in n.targets:
                    if isinstance(t, ast.Attribute) and isinstance(t.value, ast.Name) and t.value.id == "self":
                        dep = {x.id for x in ast.walk(n.value) if isinstance(x, ast.Name)} & tainted
                        attr = g.cls.mangle(t.attr)
                        readers = reads_all.get(attr, set())
                        if dep and readers:
                            bad = (n, t.attr, sorted(dep)[0], sorted(readers)[0])
            if bad:
                n, attr, dep, reader = bad
                r.fail(g.qualname, f"per-group-state:{attr}", g.file, n.lineno, f"{g.cls.name}.{g.name}", f"`{norm_text(n)[:70]}` stores a value computed from the element group `{dep}` in the single attribute self.{attr}, read back by {reader}(): {g.name} is called once per group of the mesh, so on a mesh mixing element types each group sees (and overwrites) another group's data")
            else:
                r.ok(f"{g.qualname}: group-dependent stores are keyed")


def mutable_default_rule(ctx, rid, scope, min_instances=1):
    """A parameter whose DEFAULT is a mutable literal ({} / [] / set() / dict() / list()) is one object shared by every call
    that omits the argument (and by every instance of the class).  A function that writes into it -- `p[k] = v`,
    `p.append(...)`, `p.update(...)`, `p += [...]` -- accumulates state across calls and across objects: what one
    simulation saved leaks into the iterations another one saves.  (Reading such a default, or rebinding the name, is
    harmless and is not flagged.)"""
    repo = ctx.repo
    r = ctx.rule(rid, "no function writes into a parameter whose default value is a mutable literal (the default object is shared by all calls and all instances)", min_instances=min_instances)
    MUT = {"append", "extend", "insert", "update", "add", "pop", "popitem", "remove", "clear", "sort", "reverse", "setdefault", "discard", "__setitem__"}
    for f in sorted(repo.all_functions(), key=lambda f: f.qualname):
        if not scope(f):
            continue
        a = f.node.args
        pos = a.posonlyargs + a.args
        ds = list(zip([x.arg for x in pos][len(pos) - len(a.defaults):], a.defaults)) if a.defaults else []
        ds += [(x.arg, d) for x, d in zip(a.kwonlyargs, a.kw_defaults) if d is not None]
        for nm, d in ds:
            if not (isinstance(d, (ast.Dict, ast.List, ast.Set)) or (isinstance(d, ast.Call) and isinstance(d.func, ast.Name) and d.func.id in ("dict", "list", "set") and not d.args and not d.keywords)):
                continue
            r.instance(fn=f.qualname)
            # the name is rebound before any write? (p = p or {} / p = list(p) / if p is None ...) -> the writes hit a fresh object
            writes = []
            rebinds = []
            for n in ast.walk(f.node):
                if isinstance(n, (ast.Assign, ast.AugAssign, ast.AnnAssign)):
                    tg = n.targets if isinstance(n, ast.Assign) else [n.target]
                    for t in [x for t0 in tg for x in (t0.elts if isinstance(t0, (ast.Tuple, ast.List)) else [t0])]:
                        if isinstance(t, ast.Name) and t.id == nm:
                            (writes if isinstance(n, ast.AugAssign) else rebinds).append(n)
                        elif isinstance(t, (ast.Subscript, ast.Attribute)):
                            base = t
                            while isinstance(base, (ast.Subscript, ast.Attribute)):
                                base = base.value
                            if isinstance(base, ast.Name) and base.id == nm:
                                writes.append(n)
                elif isinstance(n, ast.Call) and isinstance(n.func, ast.Attribute) and n.func.attr in MUT and isinstance(n.func.value, ast.Name) and n.func.value.id == nm:
                    writes.append(n)
                elif isinstance(n, ast.Delete):
                    for t in n.targets:
                        if isinstance(t, ast.Subscript) and isinstance(t.value, ast.Name) and t.value.id == nm:
                            writes.append(n)
            first_rebind = min((x.lineno for x in rebinds), default=None)
            live = [w for w in writes if first_rebind is None or w.lineno < first_rebind]
            if live:
                w = sorted(live, key=lambda x: x.lineno)[0]
                r.fail(f.qualname, f"mutable-default:{nm}", f.file, w.lineno, f"{(f.cls.name + '.') if f.cls else ''}{f.name}", f"`{norm_text(w)[:60]}` writes into `{nm}`, whose default `{norm_text(d)}` is one object shared by every call that omits it: values written by one call (or one simulation) are still there in the next (a static simulation's saved iteration carries the velocity another, dynamic, simulation saved)")
            else:
                r.ok()


def _flat_args(args):
    """the leaves of (nested) tuple / list arguments"""
    out = []
    for a in args:
        if isinstance(a, (ast.Tuple, ast.List)):
            out += _flat_args(a.elts)
        else:
            out.append(a)
    return out


def memo_result_escape_rule(ctx, rid, scope, min_instances=1):
    """What a memoised method (@cache_computed_values) returns is SHARED by every later call with the same key.  A caller
    that wraps such a value -- or a view of it -- into an object it hands out (a sparse matrix built from the cached index
    arrays, a tuple, a returned array) gives its own caller write access to the memo: an in-place edit of the handed-out
    object (eliminate_zeros(), sort, +=) silently changes every later result.  Flow: names bound (by unpacking) from a call
    to a memoised method of self, closed under views; such a name must not reach a `return` value or the argument of a
    constructor whose result is returned, except through `.copy()` / np.array / arithmetic (which allocate)."""
    from .flow import CallGraph, alias_closure, is_view_expr

    repo = ctx.repo
    cg = CallGraph(repo)
    r = ctx.rule(rid, "no value returned by a memoised method reaches the caller's own result un-copied (views and constructor arguments that keep references included)", min_instances=min_instances)
    KEEP_REF = ("csr_matrix", "csc_matrix", "coo_matrix", "asarray", "asfearray", "view")
    for f in sorted(repo.all_functions(), key=lambda f: f.qualname):
        if not scope(f) or f.cls is None:
            continue
        seeds = {}
        for n in ast.walk(f.node):
            if isinstance(n, ast.Assign) and isinstance(n.value, ast.Call) and isinstance(n.value.func, ast.Attribute) and isinstance(n.value.func.value, ast.Name) and n.value.func.value.id == "self":
                callees = cg.resolve_self_attr(f.cls, n.value.func.attr, include_overrides=False)
                if any(g.is_cached() for g in callees):
                    for t in n.targets:
                        for x in (t.elts if isinstance(t, (ast.Tuple, ast.List)) else [t]):
                            if isinstance(x, ast.Name):
                                seeds[x.id] = n.value.func.attr
        if not seeds:
            continue
        r.instance(fn=f.qualname)
        aliases = alias_closure(f.node, set(seeds))
        # objects built from an alias by a constructor that keeps references are aliases too
        changed = True
        while changed:
            changed = False
            for n in ast.walk(f.node):
                if isinstance(n, ast.Assign) and isinstance(n.value, ast.Call) and (dotted(n.value.func) or "").split(".")[-1] in KEEP_REF:
                    args = list(n.value.args) + [k.value for k in n.value.keywords]
                    if any(is_view_expr(a, aliases) for a in _flat_args(args)):
                        for t in n.targets:
                            if isinstance(t, ast.Name) and t.id not in aliases:
                                aliases.add(t.id)
                                changed = True
        bad = None
        for n in ast.walk(f.node):
            if isinstance(n, ast.Return) and n.value is not None:
                vals = n.value.elts if isinstance(n.value, (ast.Tuple, ast.List)) else [n.value]
                for v in vals:
                    if is_view_expr(v, aliases):
                        bad = (n, v)
                    elif isinstance(v, ast.Call) and (dotted(v.func) or "").split(".")[-1] in KEEP_REF:
                        args = list(v.args) + [k.value for k in v.keywords]
                        if any(is_view_expr(a, aliases) for a in _flat_args(args)):
                            bad = (n, v)
        if bad:
            n, v = bad
            src = sorted(seeds.values())[0]
            r.fail(f.qualname, f"memo-escape:{norm_text(v)[:30]}", f.file, n.lineno, f"{f.cls.name}.{f.name}", f"`{norm_text(n)[:70]}` hands out an object that shares storage with the value memoised by {src}(): an in-place structural edit by the caller (eliminate_zeros(), sort_indices(), +=) changes the memo, and every later result built from it is silently wrong")
        else:
            r.ok(f"{f.qualname}: memoised values stay private")


def loop_carried_parameter_rule(ctx, rid, scope, min_instances=5):
    """In a loop over the element groups of a mesh every group is treated from the SAME inputs.  A function parameter that the
    loop body reads (at the top of an iteration) and also rebinds (further down) carries the value left by the previous
    group into the next one: the second group works on what the first one made of the caller's argument (a node selection
    narrowed to the first group's nodes, a value already scaled once).  Flagged: a parameter assigned inside the body of a
    group loop and read in that body at or before its first assignment there."""
    repo = ctx.repo
    r = ctx.rule(rid, "in loops over the element groups no function parameter is both read at the top of the body and rebound further down (no value carried from one group to the next)", min_instances=min_instances)
    GROUP_ITERS = ("Get_list_groupElem", "dict_groupElem", "list_groupElem")
    for f in sorted(repo.all_functions(), key=lambda f: f.qualname):
        if not scope(f):
            continue
        params = set(f.params())
        for n in ast.walk(f.node):
            if not (isinstance(n, ast.For) and any(k in norm_text(n.iter) for k in GROUP_ITERS)):
                continue
            r.instance(fn=f.qualname)
            assigned = {}
            for st in n.body:
                for x in ast.walk(st):
                    if isinstance(x, (ast.Assign, ast.AugAssign, ast.AnnAssign)):
                        tg = x.targets if isinstance(x, ast.Assign) else [x.target]
                        for t in tg:
                            for y in (t.elts if isinstance(t, (ast.Tuple, ast.List)) else [t]):
                                if isinstance(y, ast.Name) and y.id in params:
                                    assigned.setdefault(y.id, x.lineno)
                                    assigned[y.id] = min(assigned[y.id], x.lineno)
            bad = None
            for nm, first in sorted(assigned.items()):
                reads = [x for st in n.body for x in ast.walk(st) if isinstance(x, ast.Name) and x.id == nm and isinstance(x.ctx, ast.Load) and x.lineno <= first]
                # a read on the right-hand side of the (first) assignment itself is a read of the incoming value too
                if reads:
                    bad = (nm, first, reads[0])
                    break
            if bad:
                nm, first, rd = bad
                r.fail(f.qualname, f"loop-carried-parameter:{nm}", f.file, first, f"{(f.cls.name + '.') if f.cls else ''}{f.name}", f"the parameter `{nm}` is read at line {rd.lineno} of the loop over `{norm_text(n.iter)[:40]}` and rebound at line {first} of the same body: from the second element group on, the loop works with the value the previous group left in `{nm}`, not with the caller's argument")
            else:
                r.ok()


def dump_complete_rule(ctx, rid, scope, min_instances=2):
    """A function that serialises an object (`pickle.dump(X, file)`) and stores to an attribute of X on a path AFTER the dump
    writes a file that lacks that store: whoever loads the file gets the object as it was before.  For every dump of a
    name X (usually `self`) in scope, the statements that can execute after it (later statements of the enclosing blocks,
    innermost first; the other arm of an `if` the dump sits in is not 'after') are searched for stores `X.attr = ...`,
    `X.attr[...] = ...`, `X.attr op= ...` and `del X.attr`."""
    repo = ctx.repo
    r = ctx.rule(rid, "a serialised object is complete: no store to an attribute of X can execute after pickle.dump(X, ...) in the same function", min_instances=min_instances)

    def base_name(t):
        while isinstance(t, (ast.Subscript, ast.Attribute)):
            t = t.value
        return t.id if isinstance(t, ast.Name) else None

    def stores_to(st, name):
        out = []
        for n in ast.walk(st):
            tg = []
            if isinstance(n, ast.Assign):
                tg = n.targets
            elif isinstance(n, (ast.AugAssign, ast.AnnAssign)):
                tg = [n.target]
            elif isinstance(n, ast.Delete):
                tg = n.targets
            for t0 in tg:
                for t in (t0.elts if isinstance(t0, (ast.Tuple, ast.List)) else [t0]):
                    if isinstance(t, (ast.Attribute, ast.Subscript)) and base_name(t) == name:
                        out.append(n)
        return out

    def find(block, path):
        """yield (dump call, name, [(block, index)...]) for every dump statement below `block`"""
        for i, st in enumerate(block):
            here = path + [(block, i)]
            for n in ast.walk(st) if not isinstance(st, (ast.If, ast.For, ast.While, ast.With, ast.Try, ast.FunctionDef, ast.AsyncFunctionDef, ast.ClassDef)) else []:
                if isinstance(n, ast.Call) and (dotted(n.func) or "").endswith("pickle.dump") and n.args and isinstance(n.args[0], ast.Name):
                    yield n, n.args[0].id, here
            for fld in ("body", "orelse", "finalbody"):
                sub = getattr(st, fld, None)
                if isinstance(sub, list) and sub and isinstance(sub[0], ast.stmt) and not isinstance(st, (ast.FunctionDef, ast.AsyncFunctionDef, ast.ClassDef)):
                    yield from find(sub, here)
            for h in getattr(st, "handlers", []) or []:
                yield from find(h.body, here)

    for f in sorted(repo.all_functions(), key=lambda f: f.qualname):
        if not scope(f):
            continue
        for call, name, path in find(f.node.body, []):
            r.instance(fn=f.qualname)
            late = []
            for block, idx in reversed(path):
                for st in block[idx + 1:]:
                    late.extend(stores_to(st, name))
            if late:
                n = late[0]
                r.fail(f.qualname, f"store-after-dump:{norm_text(n)[:60]}", f.file, n.lineno, f.name, f"`{norm_text(n)[:80]}` (line {n.lineno}) executes after `{norm_text(call)[:60]}` (line {call.lineno}): the file holds `{name}` without it - the object loaded back is not the one that was saved")
            else:
                r.ok(f"{f.qualname}: nothing is stored on `{name}` after {norm_text(call)[:40]}")


def wrap_flag_owner_rule(ctx, rid, scope, flag="isHeterogeneous", min_instances=4):
    """A field-or-constant parameter is wrapped for point-wise use by `FeArray.broadcast(A, Ne, nPg, ...)` when it is a field
    and `FeArray.asfearray(A, True)` when it is one constant; the test that chooses between the two must ask the object the
    array A belongs to.  For every `if <X>.<flag>:` (locals expanded) whose arms wrap an array `<Y>.<attr>` that way, X and Y
    are the same object (a sibling cross-check: of the splits of the phase-field model all but two ask `material`; the two
    that asked the model itself broke as soon as the material, not Gc, was given per element)."""
    from .flow import Locals

    repo = ctx.repo
    r = ctx.rule(rid, f"the `{flag}` test that chooses how an array is wrapped (FeArray.broadcast / asfearray) is asked of the object the array belongs to", min_instances=min_instances)
    for f in sorted(repo.all_functions(), key=lambda f: f.qualname):
        if not scope(f):
            continue
        L = Locals(f.node)

        def owner_of_array(e):
            e = L.expand(e)
            while isinstance(e, ast.Subscript):
                e = e.value
            if isinstance(e, ast.Attribute):
                return norm_text(e.value), e.attr
            return None, None

        for n in walk_no_nested(f.node):
            if not isinstance(n, ast.If):
                continue
            t = L.expand(n.test)
            if isinstance(t, ast.UnaryOp) and isinstance(t.op, ast.Not):
                t = t.operand
            if not (isinstance(t, ast.Attribute) and t.attr == flag):
                continue
            tester = norm_text(t.value)
            wrapped = []
            for st in list(n.body) + list(n.orelse):
                for c in ast.walk(st):
                    if isinstance(c, ast.Call) and (dotted(c.func) or "") in ("FeArray.broadcast", "FeArray.asfearray") and c.args:
                        o, a = owner_of_array(c.args[0])
                        if o is not None:
                            wrapped.append((o, a, c))
            for o, a, c in wrapped:
                r.instance(fn=f.qualname)
                if o == tester:
                    r.ok(f"{f.qualname}: {o}.{a} wrapped under {tester}.{flag}")
                else:
                    r.fail(f.qualname, f"wrap-owner:{a}:{tester}", f.file, n.lineno, f.name, f"`{norm_text(c)[:70]}` wraps `{o}.{a}` under the test `{tester}.{flag}`: whether `{o}.{a}` is a field is a property of `{o}`, not of `{tester}`: when only one of the two is given per element the array is wrapped as a constant (shape (1, 1, Ne, ...)) or the reverse")


# ---------------------------------------------------------------------------
# state stored on somebody else's object
# ---------------------------------------------------------------------------
def foreign_state_rule(ctx, rid, scope, min_instances=50):
    """A value derived from an object's state and stored ON that object from outside its class - `groupElem._memo = ...`,
    `groupElem.__dict__.setdefault("_memo", {})`, `setattr(mesh, ...)` in a module function or in a method of another class - is a
    memo its owner cannot invalidate: the owner's invalidation (`_InitMatrix` -> clear_cached_computed_values, the observers,
    `Need_Update`) knows only what the owner's own class stores.  The rule resolves the class of a parameter from its
    annotation (or, for un-annotated parameters, from the repository's naming convention groupElem / mesh / simu) and
    reports every store through it that is not a property setter of that class."""
    repo = ctx.repo
    r = ctx.rule(rid, "no state is stored on an element group / mesh / simulation / model from outside its class (a memo its owner cannot invalidate): only property setters are assigned through a parameter", min_instances=min_instances)
    conv = {"groupElem": "EasyFEA.FEM._group_elem._GroupElem", "mesh": "EasyFEA.FEM._mesh.Mesh", "simu": "EasyFEA.Simulations._simu._Simu"}
    owners = [repo.cls(q) for q in conv.values()] + [repo.cls("EasyFEA.Models._utils._IModel"), repo.cls("EasyFEA.FEM._field.Field")]

    def cls_of(f, name):
        for a in f.node.args.args + f.node.args.kwonlyargs:
            if a.arg != name:
                continue
            ann = a.annotation
            if ann is not None:
                txt = ann.value if isinstance(ann, ast.Constant) and isinstance(ann.value, str) else (dotted(ann) or "")
                txt = txt.split("[")[0].split(".")[-1].strip('"')
                r_ = repo.resolve_name(f.module, txt) if txt else None
                if r_ is not None and hasattr(r_, "mro"):
                    return r_
                for o in owners:
                    if o.name == txt:
                        return o
            if name in conv:
                return repo.cls(conv[name])
        return None

    for f in sorted(repo.all_functions(), key=lambda f: f.qualname):
        if not scope(f):
            continue
        params = {a.arg for a in f.node.args.args + f.node.args.kwonlyargs} - {"self", "cls"}
        if not params:
            continue
        r.instance(fn=f.qualname)
        bad = None
        for n in ast.walk(f.node):
            tgt = []
            if isinstance(n, ast.Assign):
                tgt = n.targets
            elif isinstance(n, (ast.AugAssign, ast.AnnAssign)):
                tgt = [n.target]
            for t in tgt:
                base, attr, via_dict = None, None, False
                tt = t
                if isinstance(tt, ast.Subscript) and isinstance(tt.value, ast.Attribute) and tt.value.attr == "__dict__" and isinstance(tt.value.value, ast.Name):
                    base, attr, via_dict = tt.value.value.id, norm_text(tt.slice), True
                elif isinstance(tt, ast.Attribute) and isinstance(tt.value, ast.Name):
                    base, attr = tt.value.id, tt.attr
                if base in params:
                    ci = cls_of(f, base)
                    if ci is not None and any(o in ci.mro for o in owners) and (f.cls is None or not (f.cls in ci.mro or ci in f.cls.mro)):
                        if via_dict or repo.lookup_setter(ci, attr) is None:
                            bad = (n, f"`{norm_text(n)[:70]}` stores `{attr}` on the {ci.name} it was handed")
            if isinstance(n, ast.Call):
                d = dotted(n.func) or ""
                if d in ("setattr", "object.__setattr__") and n.args and isinstance(n.args[0], ast.Name) and n.args[0].id in params:
                    ci = cls_of(f, n.args[0].id)
                    if ci is not None and any(o in ci.mro for o in owners) and (f.cls is None or not (f.cls in ci.mro or ci in f.cls.mro)):
                        bad = (n, f"`{norm_text(n)[:70]}` stores an attribute on the {ci.name} it was handed")
                elif isinstance(n.func, ast.Attribute) and n.func.attr in ("setdefault", "update", "__setitem__") and isinstance(n.func.value, ast.Attribute) and n.func.value.attr == "__dict__" and isinstance(n.func.value.value, ast.Name) and n.func.value.value.id in params:
                    ci = cls_of(f, n.func.value.value.id)
                    if ci is not None and any(o in ci.mro for o in owners) and (f.cls is None or not (f.cls in ci.mro or ci in f.cls.mro)):
                        bad = (n, f"`{norm_text(n)[:70]}` writes into the instance dictionary of the {ci.name} it was handed")
        if bad:
            n, why = bad
            r.fail(f.qualname, "foreign-state", f.file, n.lineno, f.name, f"{why}: the owner's invalidation (cache clearing on a coordinate change, Need_Update, the observers) does not know this state, which survives every change of the object it was computed from")
        else:
            r.ok()


def lazy_field_memo_rule(ctx, rid, scope, min_instances=1):
    """A field filled on first use (`if self.__x is None: self.__x = <value>` in a method that is not the constructor) is a memo.
    When its value is computed from something the user can assign later - a parameter descriptor of the class or a property
    with a setter, read directly or through a local of the guarded block - and NO other method of the class hierarchy ever
    stores to that field again (a reset), the memo survives the assignment: what is derived from it belongs to the old
    parameters while everything computed live follows the new ones.  The idiom is only how memos are FOUND (a memo spelled
    another way is not seen); the verdict rests on the two facts named: settable inputs, no second writer."""
    repo = ctx.repo
    r = ctx.rule(rid, "a field filled on first use from assignable parameters of its object has a second writer (a reset) somewhere in the class hierarchy", min_instances=min_instances)

    def settable(ci, name):
        for c in [ci] + list(ci.mro or []):
            if c is None:
                continue
            if name in c.setters:
                return True
            ce = c.class_attrs.get(name)
            if ce is not None and isinstance(ce, ast.Call) and (dotted(ce.func) or "").split(".")[-1].endswith("Parameter"):
                return True
        return False

    for ci in sorted(repo.classes.values(), key=lambda c: c.qualname):
        if not scope(ci):
            continue
        stores = {}  # attr -> [(method, node)]
        for m in ci.methods.values():
            for n in ast.walk(m.node):
                tgts = n.targets if isinstance(n, ast.Assign) else ([n.target] if isinstance(n, (ast.AnnAssign, ast.AugAssign)) else [])
                for t in tgts:
                    for x in (t.elts if isinstance(t, ast.Tuple) else [t]):
                        if isinstance(x, ast.Attribute) and isinstance(x.value, ast.Name) and x.value.id == "self":
                            stores.setdefault(x.attr, []).append((m, n))
        for m in ci.methods.values():
            if m.name == "__init__":
                continue
            for n in ast.walk(m.node):
                if not isinstance(n, ast.If):
                    continue
                tested = {x.attr for x in ast.walk(n.test) if isinstance(x, ast.Attribute) and isinstance(x.value, ast.Name) and x.value.id == "self"}
                if not tested or not any(isinstance(x, ast.Constant) and x.value is None for x in ast.walk(n.test)):
                    continue
                body_stores = [(st, t) for st in n.body for st_ in [st] if isinstance(st, (ast.Assign, ast.AnnAssign)) for t in (st.targets if isinstance(st, ast.Assign) else [st.target])
                               if isinstance(t, ast.Attribute) and isinstance(t.value, ast.Name) and t.value.id == "self" and t.attr in tested]
                for st, t in body_stores:
                    r.instance(fn=m.qualname)
                    # what the stored value reads from self, through the locals of the guarded block
                    local_src = {}
                    for b in n.body:
                        if isinstance(b, ast.Assign):
                            for tt in b.targets:
                                names = [e.id for e in (tt.elts if isinstance(tt, ast.Tuple) else [tt]) if isinstance(e, ast.Name)]
                                for nm in names:
                                    local_src.setdefault(nm, []).append(b.value)
                    seen, todo, reads = set(), [st.value], set()
                    while todo:
                        e = todo.pop()
                        for x in ast.walk(e):
                            if isinstance(x, ast.Attribute) and isinstance(x.value, ast.Name) and x.value.id == "self":
                                reads.add(x.attr)
                            elif isinstance(x, ast.Name) and x.id in local_src and x.id not in seen:
                                seen.add(x.id)
                                todo.extend(local_src[x.id])
                    inputs = sorted(a for a in reads if a != t.attr and settable(ci, a))
                    writers = {w.name for w, _ in stores.get(t.attr, [])} - {"__init__", m.name}
                    for c in ci.mro or []:
                        if c is not None and c is not ci:
                            for w in c.methods.values():
                                if w.name != "__init__" and any(isinstance(x, ast.Attribute) and isinstance(x.ctx, ast.Store) and x.attr == t.attr for x in ast.walk(w.node)):
                                    writers.add(w.name)
                    if inputs and not writers:
                        r.fail(m.qualname, f"lazy-memo:{t.attr}", m.file, st.lineno, f"{ci.name}.{m.name}", f"`self.{t.attr}` is filled on first use from the assignable parameter(s) {inputs} and no other method ever stores to it: after `obj.{inputs[0]} = ...` the kept value belongs to the old parameter while what is computed live follows the new one")
                    else:
                        r.ok(f"{m.qualname}: self.{t.attr} (inputs {inputs or 'none settable'}, other writers {sorted(writers) or 'none'})")
