#!/usr/bin/env python3
"""tools/ref_eval.py [-a] <refactored-dir>...: apply one behaviour-preserving patch to a scratch copy of /repo and run the
quick check of its own property (-a: of every property) on it.  Expected: exit 0 everywhere.  Prints one JSON line per patch:
false_alarms (exit 1), analysis_errors (exit 2)."""
import json, os, sys

sys.path.insert(0, os.path.dirname(os.path.abspath(__file__)))
import seed_eval  # noqa: E402

args = sys.argv[1:]
allp = False
if args and args[0] == "-a":
    allp, args = True, args[1:]
for d in args:
    d = os.path.abspath(d)
    own = os.path.basename(d).split("-")[0]
    res = seed_eval.evaluate(d, props=seed_eval.PROPS if allp else [own], run_demo=False)
    print(json.dumps(dict(patch=os.path.basename(d), error=res.get("error"), false_alarms=res.get("flagged", {}), analysis_errors=res.get("errors", {}))), flush=True)
