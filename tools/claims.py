# -*- claims table, exec'd by gen_manifest.py -*-
PENDING = "checker for this property is not built yet in this commit (see DESIGN.md section 3 for the planned static rules); not claimed until it runs"
for _n in range(1, 21):
    na(f"C{_n:02d}", PENDING)

claim(
    "C06", "proof",
    "Every shape-function lambda (19 Lagrange classes, 4 Hermite families; ~1 200 lambdas) is translated from its AST into an exact polynomial over Q. Kronecker property, partition of unity, completeness up to the element order and every entry of the 1st-4th derivative tables are decided as polynomial identities by normal form, i.e. for all points of the reference element - the quantifier sampling cannot reach. The accessor rule checks by label interpretation that the evaluators index the tables as [p, f, n].",
    "Trusted: Python's ast parser, the exact polynomial class sa/alg.py, the table interpreter sa/xeval.py (literals, lambdas, np.array/reshape). Coefficients typed as 15-digit decimal approximations (EULER_BERNOULLI4/5) are accepted within the binary64 evaluation-error bound of the lambda itself and counted separately in the evidence.",
    "AST -> exact polynomial normal form (abstract interpretation of table code); label interpretation of the evaluator",
    "DESIGN.md section 3, C06",
)
