# -*- claims table, exec'd by gen_manifest.py -*-
PENDING = "checker for this property is not built yet in this commit (see DESIGN.md section 3 for the planned static rules); not claimed until it runs"
for _n in range(1, 21):
    na(f"C{_n:02d}", PENDING)

claim(
    "C06", "proof",
    "Every shape-function lambda (19 Lagrange classes, 4 Hermite families; ~1 200 lambdas) is translated from its AST into an exact polynomial over Q. Kronecker property, partition of unity, completeness up to the element order and every entry of the 1st-4th derivative tables are decided as polynomial identities by normal form, i.e. for all points of the reference element - the quantifier sampling cannot reach. The accessor rule checks by label interpretation that the evaluators index the tables as [p, f, n].",
    "Trusted: Python's ast parser, the exact polynomial class sa/alg.py, the table interpreter sa/xeval.py (literals, lambdas, np.array/reshape). Coefficients typed as 15-digit decimal approximations (EULER_BERNOULLI4/5) are accepted within the binary64 evaluation-error bound of the lambda itself and counted separately in the evidence.",
    "AST -> exact polynomial normal form (abstract interpretation of table code); label interpretation of the evaluator",
    "DESIGN.md section 3, C06",
)

claim(
    "C01", "proof",
    "The patch test is decided through its classical decomposition (Irons / Strang-Fix), each part a polynomial or rational identity: completeness and true gradient tables of all 19 bases, exactness of the factory's stiffness quadrature on the consistency integrals adj(J).grad N_i of straight-sided elements with symbolic vertices, one Kelvin-Mandel convention across the projection helpers and the strain operator, Hermite completeness to degree 3, and the whole isoparametric chain (Get_F_e_pg, Inv, Get_dN_e_pg, Get_B_e_pg) interpreted at the symbolic reference point reproducing the constant gradient / strain of a linear field. What is decided is this set of necessary-and-jointly-sufficient element-level conditions, not the number returned by simu.Solve().",
    "Assumes unique solvability (C02), exact scatter-add (C03), exact elimination (C04). Quadrangles/hexahedra/prisms use one generic rational straight-sided geometry in R1.6 (identity in the reference coordinates exact, in the vertex coordinates at a generic point). Trusted: sa/alg.py, sa/xeval.py, sa/xarray.py.",
    "exact polynomial / rational-function normal forms of the interpreted source (abstract interpretation of table and index code)",
    "DESIGN.md section 3, C01",
)
claim(
    "C02", "other",
    "Structural clauses only - the spectrum of an assembled matrix is a run-time quantity and is not decided. Decided: every element operator of Operators/Bilinear.py, interpreted on one element with opaque geometric factors, is the congruence wJ*X^T S X in the interleaved dof layout; the number of Gauss points the factory selects is enough for the rank a two-element patch must reach (counting bound, plus exact rank in Q(sqrt d) of the glued reference patch for every face type, which is invariant under affine maps); factory rules have positive weights; the Timoshenko bending/shear split partitions a diagonal D.",
    "Assumes SPD constitutive matrices (C11) and wJ > 0. Rank is decided for two-element affine patches only; arbitrary meshes are not decided. Segment rules (Gauss-Legendre) are handled by the counting bound.",
    "interpretation of operator code on symbolic element data; exact rank over Q / Q(sqrt d); table folding of Gauss_factory",
    "DESIGN.md section 3, C02",
)
claim(
    "C03", "other",
    "Index arithmetic of the assembly is decided by interpreting the index-building functions on symbolic node numbers (dof = node*dof_n+comp, rows/cols of flattened element matrices, block layout of N); the cached CSR reduction map is checked structurally (same filtered group tuple for data and map, map reads only its cache key, inv looked up in the map's own pattern, connectivity immutable); (K,C,M,F) slot order is a tuple-order agreement between Assembly, all producers and all unpacking sites.",
    "numpy/scipy semantics (repeat, reshape, ravel, coo->csr duplicate summation, searchsorted, bincount) are assumed, not verified. Numerical equality with an independent summation is not decided.",
    "label / symbolic-index interpretation + AST provenance rules",
    "DESIGN.md section 3, C03",
)
claim(
    "C04", "other",
    "The elimination solver is interpreted on a block-labelled system: the linear solve receives A[U,U] and b[U]-A[U,K]x[K] and its result lands in x[U] while x[K] keeps the prescribed values; known/unknown dofs are a mask and its complement; the Dirichlet vector is built by the duplicate-summing constructor; the orphan-node diagonal dominates every return; every SolverType has a branch and convergence flags are consumed; Newton-incremental values are subtracted before elimination. Genuine defects found are listed as known findings (Lagrange path with duplicated Dirichlet entries; unchecked Krylov convergence flag).",
    "External solvers are trusted to solve the system they receive when they report convergence. Residual size and agreement between back-ends are not decided.",
    "abstract interpretation over block selectors and mask/complement domain; must-pass-through; enum exhaustiveness; unused-result rule",
    "DESIGN.md section 3, C04",
)
claim(
    "C05", "proof",
    "The four hand-written case tables of the time schemes (evaluation-point states, system-matrix weights, history right-hand side + system matrix, corrector) are interpreted per AlgoType branch into linear forms over (K,C,M) x (u_np1,u_n,v_n,a_n) with coefficients in Q(dt,beta,gamma,alpha). Decided by normal form, i.e. for every prior state, step size and parameter value: weights = derivatives of the evaluation states; A u - b == K u_t + C v_t + M a_t - F; corrector satisfies the documented update relations and the evaluation states are the documented evaluation points of the corrected state; the algebraic lemmas behind energy conservation (midpoint, Newmark 1/4-1/2) and decay (backward Euler); every AlgoType is handled; denominators cannot vanish on the accepted parameter ranges (three known findings: alpha=0 parabolic, beta=0 Newmark/HHT).",
    "Assumes the linear solve (C04) and symmetric K, M (C02). Floating-point behaviour over many steps is not decided. Reference relations are the documented scheme definitions (Solvers.AlgoType docstrings, Hughes 1987).",
    "AST -> linear forms with rational-function coefficients; identity by normal form",
    "DESIGN.md section 3, C05",
)
claim(
    "C07", "proof",
    "Quadrature tables are read from the source as exact numbers (rationals, quadratic surds; 15-digit decimals converted exactly). Decided: every point inside the reference element (exact sign), weights sum to the reference measure, exactness on every monomial up to the computed degree >= documented order; the factory if/elif table folded over all ElemType x MatrixType pairs; exact integration of det J and x det J (measure, centroid) on straight-sided elements with symbolic vertices.",
    "Rules typed as decimal literals are compared with the literal-precision tolerance 5e-14 (stated, not tuned). numpy's leggauss(n) is trusted to be the n-point Gauss-Legendre rule.",
    "exact evaluation of tables in Q / Q(sqrt d); constant folding of the factory; polynomial support analysis of det J",
    "DESIGN.md section 3, C07",
)
